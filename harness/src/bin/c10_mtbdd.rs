//! C10 — MTBDD arithmetic is the pointwise lifting of exact terminal arithmetic.
//!
//! Protocol `mtbdd` (see /verif/lean/OxiddModel/Mtbdd/Driver.lean):
//!
//! ```text
//! i64 add|sub|mul|div a b   -> <terminal>      a, b ∈ nan | -inf | +inf | <int>
//! i64 cmp a b               -> lt|eq|gt|none
//! f64 add|sub|mul|div a b   -> <16 hex digits> a, b bit patterns (normalised on input)
//! f64 cmp a b               -> lt|eq|gt|none
//! mgr <nvars> [f64]         -> ok
//! const h <terminal> | var h <v> | op h add|sub|mul|div|min|max h1 h2
//! ite h c t e | restrict h f cube   -> unfolded tree of h | err precond
//! eval h <bits>             -> <terminal>
//! ```
//!
//! Oracles (all on the real code, independent of the Lean model): every scalar result is compared
//! with 128-bit reference arithmetic written from the property text; every diagram result is
//! evaluated under ALL assignments and compared with the reference operation applied to the
//! operands' values; `eval` is cross-checked against a walk over the node structure; every result
//! is audited for the MTBDD normal form (ordered, no node with equal children).

use oxidd::mtbdd::terminal::{F64, I64};
use oxidd::mtbdd::{MTBDDFunction, MTBDDManagerRef};
use oxidd::{
    Function, HasLevel, InnerNode, Manager, ManagerRef, Node, NumberBase, PseudoBooleanFunction,
};
use oxv::*;
use std::borrow::Borrow;
use std::cmp::Ordering;
use std::collections::{BTreeMap, HashMap};
use std::io::Write;

// ------------------------------------------------------------------------------------------
// Reference arithmetic (from the property text, not from the code)
// ------------------------------------------------------------------------------------------

/// extended integer: exact value in 128 bits
#[derive(Clone, Copy, PartialEq, Eq, Debug)]
enum R {
    NaN,
    NInf,
    Fin(i128),
    PInf,
}

fn r_of(x: I64) -> R {
    match x {
        I64::NaN => R::NaN,
        I64::MinusInf => R::NInf,
        I64::PlusInf => R::PInf,
        I64::Num(n) => R::Fin(n as i128),
    }
}

/// exact integer result -> representable, or the infinity of its sign
fn r_fit(x: i128) -> I64 {
    if x > i64::MAX as i128 {
        I64::PlusInf
    } else if x < i64::MIN as i128 {
        I64::MinusInf
    } else {
        I64::Num(x as i64)
    }
}

fn r_sign(x: R) -> i32 {
    match x {
        R::NaN => 0,
        R::NInf => -1,
        R::PInf => 1,
        R::Fin(n) => n.signum() as i32,
    }
}

fn inf_of_sign(s: i32) -> I64 {
    match s {
        1 => I64::PlusInf,
        -1 => I64::MinusInf,
        _ => I64::NaN,
    }
}

/// order of the extended integers (no NaN)
fn r_key(x: R) -> (i32, i128) {
    match x {
        R::NInf => (-1, 0),
        R::Fin(n) => (0, n),
        R::PInf => (1, 0),
        R::NaN => unreachable!(),
    }
}

fn ref_i64(op: &str, a: I64, b: I64) -> I64 {
    let (x, y) = (r_of(a), r_of(b));
    if x == R::NaN || y == R::NaN {
        return I64::NaN;
    }
    match op {
        "add" | "sub" => {
            // a - b = a + (-b) on the extended integers
            let y = if op == "add" {
                y
            } else {
                match y {
                    R::NInf => R::PInf,
                    R::PInf => R::NInf,
                    R::Fin(n) => R::Fin(-n),
                    R::NaN => R::NaN,
                }
            };
            match (x, y) {
                (R::Fin(p), R::Fin(q)) => r_fit(p + q),
                (R::PInf, R::NInf) | (R::NInf, R::PInf) => I64::NaN, // inf - inf
                (R::PInf, _) | (_, R::PInf) => I64::PlusInf,
                _ => I64::MinusInf,
            }
        }
        "mul" => match (x, y) {
            (R::Fin(p), R::Fin(q)) => r_fit(p * q),
            // an infinity is involved: sign rule, 0 * inf is undefined
            _ => inf_of_sign(r_sign(x) * r_sign(y)),
        },
        "div" => match (x, y) {
            (R::Fin(p), R::Fin(0)) => inf_of_sign(p.signum() as i32), // x/0, 0/0 = NaN
            (R::Fin(p), R::Fin(q)) => r_fit(p / q),                   // i128 `/` truncates toward 0
            (R::Fin(_), _) => I64::Num(0),                            // finite / inf
            (_, R::Fin(q)) => inf_of_sign(r_sign(x) * if q < 0 { -1 } else { 1 }), // inf / finite, inf/0 by sign of x
            _ => I64::NaN,                                            // inf / inf
        },
        "min" => {
            if r_key(x) <= r_key(y) {
                a
            } else {
                b
            }
        }
        "max" => {
            if r_key(x) >= r_key(y) {
                a
            } else {
                b
            }
        }
        _ => unreachable!(),
    }
}

fn ref_cmp_i64(a: I64, b: I64) -> Option<Ordering> {
    let (x, y) = (r_of(a), r_of(b));
    match (x, y) {
        (R::NaN, R::NaN) => Some(Ordering::Equal), // `nan() == nan()` is documented to hold
        (R::NaN, _) | (_, R::NaN) => None,
        _ => Some(r_key(x).cmp(&r_key(y))),
    }
}

fn f64_norm(x: f64) -> f64 {
    if x.is_nan() {
        f64::NAN
    } else if x == 0.0 {
        0.0
    } else {
        x
    }
}

fn ref_f64(op: &str, a: F64, b: F64) -> F64 {
    let (x, y) = (f64::from(a), f64::from(b));
    let r = match op {
        "add" => x + y,
        "sub" => x - y,
        "mul" => x * y,
        "div" => x / y,
        "min" => {
            if x.is_nan() || y.is_nan() {
                f64::NAN
            } else if x <= y {
                x
            } else {
                y
            }
        }
        "max" => {
            if x.is_nan() || y.is_nan() {
                f64::NAN
            } else if x >= y {
                x
            } else {
                y
            }
        }
        _ => unreachable!(),
    };
    F64::from(f64_norm(r))
}

// ------------------------------------------------------------------------------------------
// Terminal kinds
// ------------------------------------------------------------------------------------------

trait Term: NumberBase + Copy + Send + Sync + 'static {
    const KIND: &'static str;
    fn parse(s: &str) -> Option<Self>;
    fn tok(&self) -> String;
    /// reference semantics of add|sub|mul|div|min|max
    fn reference(op: &str, a: Self, b: Self) -> Self;
}

fn parse_i64(s: &str) -> Option<I64> {
    match s {
        "nan" => Some(I64::NaN),
        "-inf" => Some(I64::MinusInf),
        "+inf" => Some(I64::PlusInf),
        _ if s.starts_with('+') => None,
        _ => s.parse::<i64>().ok().map(I64::Num),
    }
}

fn tok_i64(x: I64) -> String {
    match x {
        I64::NaN => "nan".into(),
        I64::MinusInf => "-inf".into(),
        I64::PlusInf => "+inf".into(),
        I64::Num(n) => n.to_string(),
    }
}

fn parse_hex(s: &str) -> Option<u64> {
    if s.len() != 16 || !s.bytes().all(|c| c.is_ascii_digit() || (b'a'..=b'f').contains(&c)) {
        return None;
    }
    u64::from_str_radix(s, 16).ok()
}

fn bits_f64(x: F64) -> u64 {
    f64::from(x).to_bits()
}

impl Term for I64 {
    const KIND: &'static str = "i64";
    fn parse(s: &str) -> Option<Self> {
        parse_i64(s)
    }
    fn tok(&self) -> String {
        tok_i64(*self)
    }
    fn reference(op: &str, a: Self, b: Self) -> Self {
        ref_i64(op, a, b)
    }
}

impl Term for F64 {
    const KIND: &'static str = "f64";
    fn parse(s: &str) -> Option<Self> {
        parse_hex(s).map(|b| F64::from(f64::from_bits(b)))
    }
    fn tok(&self) -> String {
        format!("f{:016x}", bits_f64(*self))
    }
    fn reference(op: &str, a: Self, b: Self) -> Self {
        ref_f64(op, a, b)
    }
}

fn cmp_tok(o: Option<Ordering>) -> &'static str {
    match o {
        Some(Ordering::Less) => "lt",
        Some(Ordering::Equal) => "eq",
        Some(Ordering::Greater) => "gt",
        None => "none",
    }
}

// ------------------------------------------------------------------------------------------
// Structure walks over the real diagram
// ------------------------------------------------------------------------------------------

/// the unfolded tree (independent of `eval`): leaves carry values, nodes variable numbers
#[derive(Clone, PartialEq)]
enum Tree<T> {
    Leaf(T),
    Node(u32, Box<Tree<T>>, Box<Tree<T>>),
}

fn unfold_rec<M, T: Term>(m: &M, e: &M::Edge) -> Tree<T>
where
    M: Manager<Terminal = T>,
    M::InnerNode: HasLevel,
{
    match m.get_node(e) {
        Node::Inner(n) => {
            let v = m.level_to_var(n.level());
            let t = unfold_rec(m, &n.child(0));
            let e = unfold_rec(m, &n.child(1));
            Tree::Node(v, Box::new(t), Box::new(e))
        }
        Node::Terminal(t) => Tree::Leaf(*t.borrow()),
    }
}

fn unfold<T: Term>(f: &MTBDDFunction<T>) -> Tree<T> {
    f.with_manager_shared(|m, e| unfold_rec(m, e))
}

impl<T: Term> Tree<T> {
    fn show(&self, out: &mut String) {
        match self {
            Tree::Leaf(t) => {
                out.push('#');
                out.push_str(&t.tok());
            }
            Tree::Node(v, t, e) => {
                out.push_str(&format!("(v{} ", v));
                t.show(out);
                out.push(' ');
                e.show(out);
                out.push(')');
            }
        }
    }
    fn walk(&self, bits: u32) -> T {
        match self {
            Tree::Leaf(t) => *t,
            Tree::Node(v, t, e) => {
                if (bits >> v) & 1 != 0 {
                    t.walk(bits)
                } else {
                    e.walk(bits)
                }
            }
        }
    }
    /// ordered (variable numbers increase strictly downwards; identity order) and reduced
    fn nf(&self, lb: u32) -> bool {
        match self {
            Tree::Leaf(_) => true,
            Tree::Node(v, t, e) => *v >= lb && t != e && t.nf(v + 1) && e.nf(v + 1),
        }
    }
    fn zero_one(&self) -> bool {
        match self {
            Tree::Leaf(t) => t.is_zero() || t.is_one(),
            Tree::Node(_, t, e) => t.zero_one() && e.zero_one(),
        }
    }
    /// literal list if this is a conjunction of literals
    fn cube(&self) -> Option<Vec<(u32, bool)>> {
        match self {
            Tree::Leaf(t) => {
                if t.is_one() {
                    Some(vec![])
                } else {
                    None
                }
            }
            Tree::Node(v, t, e) => {
                let is_zero = |x: &Tree<T>| matches!(x, Tree::Leaf(z) if z.is_zero());
                if is_zero(e) {
                    let mut r = t.cube()?;
                    r.insert(0, (*v, true));
                    Some(r)
                } else if is_zero(t) {
                    let mut r = e.cube()?;
                    r.insert(0, (*v, false));
                    Some(r)
                } else {
                    None
                }
            }
        }
    }
    fn is_leaf(&self) -> Option<T> {
        match self {
            Tree::Leaf(t) => Some(*t),
            _ => None,
        }
    }
}

// ------------------------------------------------------------------------------------------
// Scenario
// ------------------------------------------------------------------------------------------

struct MgrState<T: Term> {
    // field order: handles are dropped before the manager
    hs: HashMap<String, MTBDDFunction<T>>,
    mref: MTBDDManagerRef<T>,
    n: u32,
}

impl<T: Term> MgrState<T> {
    fn new(n: u32) -> Self {
        let mref = oxidd::mtbdd::new_manager::<T>(1 << 12, 1 << 10, 1 << 10, 1);
        mref.with_manager_exclusive(|m| {
            m.add_vars(n);
        });
        MgrState { hs: HashMap::new(), mref, n }
    }

    /// truth table through the public `eval`
    fn table(&self, f: &MTBDDFunction<T>) -> Vec<T> {
        (0..(1u32 << self.n)).map(|a| f.eval((0..self.n).map(|v| (v, (a >> v) & 1 != 0)))).collect()
    }

    /// common checks on a freshly produced handle; returns its canonical output
    fn finish(&mut self, h: &str, f: MTBDDFunction<T>, expect: Option<Vec<T>>, what: &str, ctx: &mut Ctx) -> String {
        let tree = unfold(&f);
        let tab = self.table(&f);
        for a in 0..(1u32 << self.n) {
            if tree.walk(a) != tab[a as usize] {
                ctx.fail(&format!("{}-eval-walk", T::KIND), &format!("{}: eval under {:b} differs from the node walk", what, a));
                break;
            }
        }
        if !tree.nf(0) {
            ctx.fail(&format!("{}-nf", T::KIND), &format!("{}: result is not ordered/reduced", what));
        }
        if let Some(exp) = expect {
            for a in 0..(1usize << self.n) {
                if exp[a] != tab[a] {
                    ctx.fail(
                        &format!("{}-{}", T::KIND, what.split(' ').next().unwrap_or("?")),
                        &format!(
                            "{}: under assignment {:0w$b} (bit i = variable i) the result is {} but the property demands {}",
                            what,
                            a,
                            tab[a].tok(),
                            exp[a].tok(),
                            w = self.n as usize
                        ),
                    );
                    break;
                }
            }
        }
        let mut s = String::new();
        tree.show(&mut s);
        self.hs.insert(h.to_string(), f);
        s
    }

    fn step(&mut self, ws: &[&str], ctx: &mut Ctx) -> String {
        match ws {
            ["const", h, v] => {
                let Some(t) = T::parse(v) else { return "bad-op".into() };
                let f = match self.mref.with_manager_shared(|m| MTBDDFunction::constant(m, t)) {
                    Ok(f) => f,
                    Err(_) => return "err oom".into(),
                };
                let exp = vec![t; 1 << self.n];
                ctx.count("const");
                self.finish(h, f, Some(exp), "const", ctx)
            }
            ["var", h, v] => {
                let Ok(v) = v.parse::<u32>() else { return "bad-op".into() };
                if v >= self.n {
                    return "err range".into();
                }
                let f = match self.mref.with_manager_shared(|m| MTBDDFunction::<T>::var(m, v)) {
                    Ok(f) => f,
                    Err(_) => return "err oom".into(),
                };
                let exp = (0..(1u32 << self.n)).map(|a| if (a >> v) & 1 != 0 { T::one() } else { T::zero() }).collect();
                ctx.count("var");
                self.finish(h, f, Some(exp), "var", ctx)
            }
            ["op", h, o, a, b] => {
                if !["add", "sub", "mul", "div", "min", "max"].contains(o) {
                    return "bad-op".into();
                }
                let (Some(f), Some(g)) = (self.hs.get(*a), self.hs.get(*b)) else { return "err handle".into() };
                let r = match *o {
                    "add" => f.add(g),
                    "sub" => f.sub(g),
                    "mul" => f.mul(g),
                    "div" => f.div(g),
                    "min" => PseudoBooleanFunction::min(f, g),
                    _ => PseudoBooleanFunction::max(f, g),
                };
                let Ok(r) = r else { return "err oom".into() };
                // which situation of the property is exercised (classification from the operands)
                let (tf, tg) = (unfold(f), unfold(g));
                ctx.count(&format!("op.{}", o));
                let arm = match (tf.is_leaf(), tg.is_leaf()) {
                    (Some(_), Some(_)) => "both-terminal",
                    (Some(t), None) | (None, Some(t)) => {
                        if t.is_nan() {
                            "one-terminal-nan"
                        } else if t.is_zero() {
                            "one-terminal-zero"
                        } else if t.is_one() {
                            "one-terminal-one"
                        } else {
                            "one-terminal-other"
                        }
                    }
                    (None, None) => {
                        if f == g {
                            "same-operand"
                        } else {
                            "recursion"
                        }
                    }
                };
                ctx.count(&format!("arm.{}.{}", o, arm));
                let (ta, tb) = (self.table(f), self.table(g));
                let exp: Vec<T> = ta.iter().zip(tb.iter()).map(|(x, y)| T::reference(o, *x, *y)).collect();
                if exp.iter().any(|x| x.is_nan()) {
                    ctx.count("result-has-nan");
                }
                self.finish(h, r, Some(exp), &format!("{} {} {}", o, a, b), ctx)
            }
            ["ite", h, c, a, b] => {
                let (Some(fc), Some(fa), Some(fb)) = (self.hs.get(*c), self.hs.get(*a), self.hs.get(*b)) else {
                    return "err handle".into();
                };
                if !unfold(fc).zero_one() {
                    ctx.count("ite.precond-violated");
                    return "err precond".into();
                }
                let Ok(r) = fc.ite(fa, fb) else { return "err oom".into() };
                let (tc, ta, tb) = (self.table(fc), self.table(fa), self.table(fb));
                let exp: Vec<T> = (0..tc.len()).map(|i| if tc[i].is_one() { ta[i] } else { tb[i] }).collect();
                ctx.count("ite");
                if fa == fb {
                    ctx.count("ite.same-branches");
                }
                self.finish(h, r, Some(exp), &format!("ite {} {} {}", c, a, b), ctx)
            }
            ["restrict", h, a, c] => {
                let (Some(f), Some(vars)) = (self.hs.get(*a), self.hs.get(*c)) else { return "err handle".into() };
                let Some(lits) = unfold(vars).cube() else {
                    ctx.count("restrict.precond-violated");
                    return "err precond".into();
                };
                let Ok(r) = f.restrict(vars) else { return "err oom".into() };
                let tf = self.table(f);
                let exp: Vec<T> = (0..(1u32 << self.n))
                    .map(|mut s| {
                        for &(v, b) in &lits {
                            s = if b { s | (1 << v) } else { s & !(1 << v) };
                        }
                        tf[s as usize]
                    })
                    .collect();
                ctx.count("restrict");
                ctx.count(&format!("restrict.lits{}", lits.len()));
                self.finish(h, r, Some(exp), &format!("restrict {} {}", a, c), ctx)
            }
            ["eval", h, bits] => {
                let Some(f) = self.hs.get(*h) else { return "err handle".into() };
                if bits.len() != self.n as usize || !bits.bytes().all(|c| c == b'0' || c == b'1') {
                    return "bad-op".into();
                }
                let bs = bits.as_bytes();
                let r = f.eval((0..self.n).map(|v| (v, bs[v as usize] == b'1')));
                let mut a = 0u32;
                for v in 0..self.n {
                    if bs[v as usize] == b'1' {
                        a |= 1 << v;
                    }
                }
                if unfold(f).walk(a) != r {
                    ctx.fail(&format!("{}-eval-walk", T::KIND), &format!("eval {} {} differs from the node walk", h, bits));
                }
                ctx.count("eval");
                r.tok()
            }
            _ => "bad-op".into(),
        }
    }
}

enum St {
    None,
    I(MgrState<I64>),
    F(MgrState<F64>),
}

struct Sc {
    st: St,
}

fn f64_laws(a: F64, ctx: &mut Ctx) {
    // `TerminalLaws F64` (assumed by the lifted theorem `mtbdd_apply_sem_f64_partial`), tested here
    let (z, o, n) = (F64::zero(), F64::one(), F64::nan());
    let mut bad = Vec::new();
    if z.add(&a) != a { bad.push("0+x"); }
    if a.add(&z) != a { bad.push("x+0"); }
    if a.sub(&z) != a { bad.push("x-0"); }
    if o.mul(&a) != a { bad.push("1*x"); }
    if a.mul(&o) != a { bad.push("x*1"); }
    if a.div(&o) != a { bad.push("x/1"); }
    for (nm, r) in [
        ("nan+x", n.add(&a)), ("x+nan", a.add(&n)), ("nan-x", n.sub(&a)), ("x-nan", a.sub(&n)),
        ("nan*x", n.mul(&a)), ("x*nan", a.mul(&n)), ("nan/x", n.div(&a)), ("x/nan", a.div(&n)),
    ] {
        if r != n { bad.push(nm); }
    }
    if a.partial_cmp(&a) != Some(Ordering::Equal) { bad.push("cmp x x"); }
    if a != n && (n.partial_cmp(&a).is_some() || a.partial_cmp(&n).is_some()) { bad.push("cmp nan x"); }
    if z == o { bad.push("0=1"); }
    for b in bad {
        ctx.fail("f64-law", &format!("terminal law `{}` fails for x = {:016x}", b, bits_f64(a)));
    }
    ctx.count("f64.laws-checked");
}

impl Scenario for Sc {
    fn reset(&mut self) {
        self.st = St::None;
    }
    fn step(&mut self, line: &str, ctx: &mut Ctx) -> String {
        let ws = words(line);
        match ws.as_slice() {
            ["i64", o, a, b] => {
                let (Some(a), Some(b)) = (parse_i64(a), parse_i64(b)) else { return "bad-op".into() };
                ctx.count(&format!("i64.{}", o));
                match *o {
                    "cmp" => {
                        let r = a.partial_cmp(&b);
                        if r != ref_cmp_i64(a, b) {
                            ctx.fail("i64-cmp", &format!("{} <=> {} gives {} but the extended integer order says {}", tok_i64(a), tok_i64(b), cmp_tok(r), cmp_tok(ref_cmp_i64(a, b))));
                        }
                        // min/max as derived by terminal_bin must agree with the order
                        cmp_tok(r).into()
                    }
                    "add" | "sub" | "mul" | "div" => {
                        let r = match *o {
                            "add" => NumberBase::add(&a, &b),
                            "sub" => NumberBase::sub(&a, &b),
                            "mul" => NumberBase::mul(&a, &b),
                            _ => NumberBase::div(&a, &b),
                        };
                        let e = ref_i64(o, a, b);
                        if r != e {
                            ctx.fail(&format!("i64-{}", o), &format!("{} {} {} gives {} but exact arithmetic demands {}", tok_i64(a), o, tok_i64(b), tok_i64(r), tok_i64(e)));
                        }
                        match (a, b, r) {
                            (I64::Num(_), I64::Num(_), I64::PlusInf | I64::MinusInf) => ctx.count(&format!("i64.{}.overflow", o)),
                            (_, _, I64::NaN) => ctx.count(&format!("i64.{}.nan", o)),
                            _ => {}
                        }
                        tok_i64(r)
                    }
                    _ => "bad-op".into(),
                }
            }
            ["f64", o, a, b] => {
                let (Some(a), Some(b)) = (parse_hex(a), parse_hex(b)) else { return "bad-op".into() };
                let (a, b) = (F64::from(f64::from_bits(a)), F64::from(f64::from_bits(b)));
                ctx.count(&format!("f64.{}", o));
                match *o {
                    "cmp" => {
                        let r = a.partial_cmp(&b);
                        let (x, y) = (f64::from(a), f64::from(b));
                        let e = if x.is_nan() && y.is_nan() { Some(Ordering::Equal) } else { x.partial_cmp(&y) };
                        if r != e {
                            ctx.fail("f64-cmp", &format!("{:016x} <=> {:016x} gives {} expected {}", bits_f64(a), bits_f64(b), cmp_tok(r), cmp_tok(e)));
                        }
                        cmp_tok(r).into()
                    }
                    "add" | "sub" | "mul" | "div" => {
                        let r = match *o {
                            "add" => NumberBase::add(&a, &b),
                            "sub" => NumberBase::sub(&a, &b),
                            "mul" => NumberBase::mul(&a, &b),
                            _ => NumberBase::div(&a, &b),
                        };
                        let e = ref_f64(o, a, b);
                        if r != e {
                            ctx.fail(&format!("f64-{}", o), &format!("{:016x} {} {:016x} gives {:016x} but IEEE-754 + normalisation demands {:016x}", bits_f64(a), o, bits_f64(b), bits_f64(r), bits_f64(e)));
                        }
                        let rb = bits_f64(r);
                        if rb == (-0.0f64).to_bits() || (f64::from(r).is_nan() && rb != f64::NAN.to_bits()) {
                            ctx.fail("f64-norm", &format!("result {:016x} is not normalised", rb));
                        }
                        f64_laws(a, ctx);
                        f64_laws(b, ctx);
                        format!("{:016x}", rb)
                    }
                    _ => "bad-op".into(),
                }
            }
            ["mgr", n] => match n.parse::<u32>() {
                Ok(n) if n <= 16 => {
                    self.st = St::None;
                    self.st = St::I(MgrState::new(n));
                    "ok".into()
                }
                _ => "bad-op".into(),
            },
            ["mgr", n, "f64"] => match n.parse::<u32>() {
                Ok(n) if n <= 16 => {
                    self.st = St::None;
                    self.st = St::F(MgrState::new(n));
                    "ok".into()
                }
                _ => "bad-op".into(),
            },
            ws => match &mut self.st {
                St::None => {
                    if matches!(ws.first(), Some(&"const" | &"var" | &"op" | &"ite" | &"restrict" | &"eval")) {
                        "err nomgr".into()
                    } else {
                        "bad-op".into()
                    }
                }
                St::I(m) => m.step(ws, ctx),
                St::F(m) => m.step(ws, ctx),
            },
        }
    }
}

// ------------------------------------------------------------------------------------------
// Generator
// ------------------------------------------------------------------------------------------

const OPS: [&str; 6] = ["add", "sub", "mul", "div", "min", "max"];

fn pool_i64() -> Vec<String> {
    let mut v: Vec<String> = [0i64, 1, -1, 2, 3, -7, i64::MIN, i64::MAX, i64::MIN + 1, i64::MAX - 1].iter().map(|x| x.to_string()).collect();
    v.extend(["+inf", "-inf", "nan"].iter().map(|s| s.to_string()));
    v
}

fn pool_f64() -> Vec<String> {
    let xs: [u64; 22] = [
        0x0000000000000000, // 0.0
        0x8000000000000000, // -0.0
        0x3ff0000000000000, // 1.0
        0xbff0000000000000, // -1.0
        0x4000000000000000, // 2.0
        0x3fe0000000000000, // 0.5
        0x4008000000000000, // 3.0
        0xc01c000000000000, // -7.0
        0x3fd5555555555555, // 1/3
        0x7fefffffffffffff, // MAX
        0xffefffffffffffff, // -MAX
        0x0010000000000000, // MIN_POSITIVE
        0x0000000000000001, // smallest denormal
        0x8000000000000001, // -smallest denormal
        0x7ff0000000000000, // +inf
        0xfff0000000000000, // -inf
        0x7ff8000000000000, // canonical NaN
        0xfff8000000000000, // negative quiet NaN
        0x7ff0000000000001, // signalling NaN
        0x7ff8000000000123, // NaN with payload
        0x43e0000000000000, // 2^63
        0x3cb0000000000000, // 2^-52
    ];
    xs.iter().map(|b| format!("{:016x}", b)).collect()
}

/// emit lines that build the function with the given truth table (index bit i = variable i) under
/// handle `h`, using `ite` on the variable handles `x<i>`; returns nothing, uses temporaries `<h>_…`
fn build_table(w: &mut dyn Write, h: &str, n: u32, tab: &[String]) {
    // recursive Shannon expansion from the last variable upwards
    fn rec(w: &mut dyn Write, h: &str, n: u32, v: u32, idx: usize, tab: &[String], ctr: &mut u32) -> String {
        if v == n {
            let name = format!("{}_{}", h, *ctr);
            *ctr += 1;
            writeln!(w, "const {} {}", name, tab[idx]).unwrap();
            return name;
        }
        let t = rec(w, h, n, v + 1, idx | (1 << v), tab, ctr);
        let e = rec(w, h, n, v + 1, idx, tab, ctr);
        let name = format!("{}_{}", h, *ctr);
        *ctr += 1;
        writeln!(w, "ite {} x{} {} {}", name, v, t, e).unwrap();
        name
    }
    let mut ctr = 0;
    let top = rec(w, h, n, 0, 0, tab, &mut ctr);
    // bind the final name: h := top (min with itself is the `f == g` shortcut; use ite on x0 with equal branches)
    writeln!(w, "ite {} x0 {} {}", h, top, top).unwrap();
}

fn mgr_header(w: &mut dyn Write, n: u32, f64m: bool) {
    writeln!(w, "mgr {}{}", n, if f64m { " f64" } else { "" }).unwrap();
    for v in 0..n {
        writeln!(w, "var x{} {}", v, v).unwrap();
    }
}

fn random_table(rng: &mut Rng, n: u32, pool: &[String]) -> Vec<String> {
    // few distinct terminals per function so that diagrams share sub-graphs and reduce
    let k = rng.range(1, 4) as usize;
    let sub: Vec<&String> = (0..k).map(|_| rng.pick(pool)).collect();
    (0..(1usize << n)).map(|_| (*rng.pick(&sub)).clone()).collect()
}

fn bits_str(rng: &mut Rng, n: u32) -> String {
    (0..n).map(|_| if rng.chance(1, 2) { '1' } else { '0' }).collect()
}

fn gen_scalar_i64(cfg: &GenCfg, rng: &mut Rng, w: &mut dyn Write) {
    let pool = pool_i64();
    writeln!(w, "case scalar-i64-boundary").unwrap();
    for o in ["add", "sub", "mul", "div", "cmp"] {
        for a in &pool {
            for b in &pool {
                writeln!(w, "i64 {} {} {}", o, a, b).unwrap();
            }
        }
    }
    // random operands around the interesting magnitudes
    let n = if cfg.thorough { 400000 } else { 30000 } * cfg.scale;
    let interesting: [i64; 14] = [
        0, 1, -1, i64::MAX, i64::MIN, 1 << 31, -(1 << 31), 1 << 32, 3037000499, 3037000500, -3037000500, 1 << 62, -(1 << 62), i64::MAX / 3,
    ];
    writeln!(w, "case scalar-i64-random").unwrap();
    for _ in 0..n {
        let pick = |rng: &mut Rng| -> String {
            match rng.below(10) {
                0 => "nan".into(),
                1 => "+inf".into(),
                2 => "-inf".into(),
                3..=5 => {
                    let d = rng.below(5) as i64 - 2;
                    (rng.pick(&interesting)).wrapping_add(d).to_string()
                }
                6 => (rng.next() as i64).to_string(),
                7 => ((rng.next() as i64) >> rng.range(1, 62)).to_string(),
                _ => (rng.below(41) as i64 - 20).to_string(),
            }
        };
        let (a, b) = (pick(rng), pick(rng));
        let o = *rng.pick(&["add", "sub", "mul", "div", "cmp"]);
        writeln!(w, "i64 {} {} {}", o, a, b).unwrap();
    }
}

fn gen_scalar_f64(_cfg: &GenCfg, _rng: &mut Rng, w: &mut dyn Write) {
    let pool = pool_f64();
    writeln!(w, "case scalar-f64-boundary").unwrap();
    for o in ["add", "sub", "mul", "div", "cmp"] {
        for a in &pool {
            for b in &pool {
                writeln!(w, "f64 {} {} {}", o, a, b).unwrap();
            }
        }
    }
}

/// all operator x terminal pairs on the diagram level (constants), all six operators in a row on
/// the same operands of one manager
fn gen_terminal_pairs(w: &mut dyn Write) {
    let pool = pool_i64();
    writeln!(w, "case terminal-pairs").unwrap();
    mgr_header(w, 1, false);
    for (i, a) in pool.iter().enumerate() {
        writeln!(w, "const c{} {}", i, a).unwrap();
    }
    for i in 0..pool.len() {
        for j in 0..pool.len() {
            for o in OPS {
                writeln!(w, "op r {} c{} c{}", o, i, j).unwrap();
            }
        }
    }
    // one operand a terminal, the other the variable / a one-variable function
    writeln!(w, "case terminal-vs-var").unwrap();
    mgr_header(w, 1, false);
    for (i, a) in pool.iter().enumerate() {
        writeln!(w, "const c{} {}", i, a).unwrap();
    }
    for i in 0..pool.len() {
        for o in OPS {
            writeln!(w, "op r {} c{} x0", o, i).unwrap();
            writeln!(w, "op s {} x0 c{}", o, i).unwrap();
            writeln!(w, "eval r 1").unwrap();
            writeln!(w, "eval s 0").unwrap();
        }
    }
}

/// one-variable functions: exhaustive pairs over (v0 a b), a, b from the pool
fn gen_one_var(cfg: &GenCfg, rng: &mut Rng, w: &mut dyn Write) {
    let pool = pool_i64();
    let mut funs: Vec<(usize, usize)> = Vec::new();
    for i in 0..pool.len() {
        for j in 0..pool.len() {
            funs.push((i, j));
        }
    }
    // quick: a random quarter of the left operands; thorough: all 169 x 169 pairs
    let mut left: Vec<usize> = (0..funs.len()).collect();
    rng.shuffle(&mut left);
    if !cfg.thorough {
        left.truncate(48);
    }
    for (k, chunk) in left.chunks(4).enumerate() {
        writeln!(w, "case one-var-{}", k).unwrap();
        mgr_header(w, 1, false);
        for (i, a) in pool.iter().enumerate() {
            writeln!(w, "const c{} {}", i, a).unwrap();
        }
        for (fi, (i, j)) in funs.iter().enumerate() {
            writeln!(w, "ite f{} x0 c{} c{}", fi, i, j).unwrap();
        }
        for &l in chunk {
            for g in 0..funs.len() {
                for o in OPS {
                    writeln!(w, "op r {} f{} f{}", o, l, g).unwrap();
                }
            }
        }
    }
}

/// two-variable functions: all pairs over a pool of functions, all six operators per pair
fn gen_two_var(cfg: &GenCfg, rng: &mut Rng, w: &mut dyn Write, f64m: bool) {
    let pool = if f64m { pool_f64() } else { pool_i64() };
    let psize = if f64m { if cfg.thorough { 48 } else { 18 } } else if cfg.thorough { 150 } else { 60 } as usize;
    let mut tabs: Vec<Vec<String>> = Vec::new();
    // fixed members: constants 0, 1, nan and projections, then random tables
    let (zero, one, nan) = if f64m {
        (pool[0].clone(), pool[2].clone(), pool[16].clone())
    } else {
        ("0".to_string(), "1".to_string(), "nan".to_string())
    };
    tabs.push(vec![zero.clone(); 4]);
    tabs.push(vec![one.clone(); 4]);
    tabs.push(vec![nan.clone(); 4]);
    tabs.push(vec![zero.clone(), one.clone(), zero.clone(), one.clone()]); // x0
    tabs.push(vec![zero.clone(), zero.clone(), one.clone(), one.clone()]); // x1
    tabs.push(vec![zero.clone(), nan.clone(), one.clone(), zero.clone()]);
    while tabs.len() < psize {
        let t = random_table(rng, 2, &pool);
        if !tabs.contains(&t) {
            tabs.push(t);
        }
    }
    let block = 6;
    let idx: Vec<usize> = (0..tabs.len()).collect();
    for (k, chunk) in idx.chunks(block).enumerate() {
        writeln!(w, "case two-var{}-{}", if f64m { "-f64" } else { "" }, k).unwrap();
        mgr_header(w, 2, f64m);
        for (i, t) in tabs.iter().enumerate() {
            build_table(w, &format!("f{}", i), 2, t);
        }
        for &l in chunk {
            for g in 0..tabs.len() {
                // the six operators in a (per pair) random order on the same operands
                let mut ops = OPS.to_vec();
                rng.shuffle(&mut ops);
                for o in ops {
                    writeln!(w, "op r {} f{} f{}", o, l, g).unwrap();
                }
            }
        }
    }
}

/// thorough only: ALL two-variable functions over the terminals {0, 1, -1, nan, +inf} (625), all
/// 390 625 ordered pairs, all six operators
fn gen_two_var_exhaustive(cfg: &GenCfg, rng: &mut Rng, w: &mut dyn Write) {
    if !cfg.thorough {
        return;
    }
    let terms = ["0", "1", "-1", "nan", "+inf"];
    let mut tabs: Vec<Vec<String>> = Vec::new();
    for code in 0..625usize {
        let mut c = code;
        let mut t = Vec::new();
        for _ in 0..4 {
            t.push(terms[c % 5].to_string());
            c /= 5;
        }
        tabs.push(t);
    }
    let idx: Vec<usize> = (0..tabs.len()).collect();
    for (k, chunk) in idx.chunks(25).enumerate() {
        writeln!(w, "case two-var-all-{}", k).unwrap();
        mgr_header(w, 2, false);
        for (i, t) in tabs.iter().enumerate() {
            build_table(w, &format!("f{}", i), 2, t);
        }
        for &l in chunk {
            for g in 0..tabs.len() {
                let mut ops = OPS.to_vec();
                rng.shuffle(&mut ops);
                for o in ops {
                    writeln!(w, "op r {} f{} f{}", o, l, g).unwrap();
                }
            }
        }
    }
}

/// histories that issue different operators on the same operands of one manager
fn gen_histories(cfg: &GenCfg, rng: &mut Rng, w: &mut dyn Write) {
    let pool = pool_i64();
    let reps = if cfg.thorough { 400 } else { 48 } * cfg.scale;
    for k in 0..reps {
        let n = rng.range(2, 4) as u32;
        writeln!(w, "case history-{}", k).unwrap();
        mgr_header(w, n, false);
        writeln!(w, "const zero 0").unwrap();
        writeln!(w, "const one 1").unwrap();
        writeln!(w, "const nan nan").unwrap();
        build_table(w, "f", n, &random_table(rng, n, &pool));
        build_table(w, "g", n, &random_table(rng, n, &pool));
        // min then max (and the reverse) on the same operands, both operand orders
        let seqs: [&[&str]; 6] = [
            &["min", "max"],
            &["max", "min"],
            &["add", "sub", "add"],
            &["mul", "div", "mul"],
            &["sub", "add", "min", "max", "div", "mul"],
            &["div", "sub", "max", "min"],
        ];
        let s = seqs[(k % 6) as usize];
        for (a, b) in [("f", "g"), ("g", "f"), ("f", "g")] {
            for o in s {
                writeln!(w, "op r {} {} {}", o, a, b).unwrap();
                writeln!(w, "eval r {}", bits_str(rng, n)).unwrap();
            }
        }
        // neutral elements on either side, for every operator
        for o in OPS {
            for c in ["zero", "one", "nan"] {
                writeln!(w, "op r {} {} g", o, c).unwrap();
                writeln!(w, "op r {} g {}", o, c).unwrap();
            }
            writeln!(w, "op r {} g g", o).unwrap();
        }
        // the same pair again after the cache has seen every operator
        for o in OPS {
            writeln!(w, "op r {} f g", o).unwrap();
        }
    }
}

/// random sessions over 3..4 variables: composition of results, ite, restrict, eval
fn gen_random(cfg: &GenCfg, rng: &mut Rng, w: &mut dyn Write, f64m: bool) {
    let pool = if f64m { pool_f64() } else { pool_i64() };
    let reps = if f64m { if cfg.thorough { 200 } else { 20 } } else if cfg.thorough { 2500 } else { 200 } * cfg.scale;
    for k in 0..reps {
        let n = if rng.chance(1, 6) { rng.range(1, 2) } else { rng.range(3, 4) } as u32;
        writeln!(w, "case random{}-{}", if f64m { "-f64" } else { "" }, k).unwrap();
        mgr_header(w, n, f64m);
        let one = if f64m { "3ff0000000000000" } else { "1" };
        writeln!(w, "const one {}", one).unwrap();
        let mut hs: Vec<String> = vec!["one".into()];
        for v in 0..n {
            hs.push(format!("x{}", v));
        }
        // literals and 0-1-valued conditions
        let mut conds: Vec<String> = vec!["one".into()];
        for v in 0..n {
            writeln!(w, "op nx{} sub one x{}", v, v).unwrap();
            conds.push(format!("x{}", v));
            conds.push(format!("nx{}", v));
        }
        for i in 0..3 {
            let (a, b) = (rng.pick(&conds).clone(), rng.pick(&conds).clone());
            let o = *rng.pick(&["mul", "min", "max"]);
            writeln!(w, "op c{} {} {} {}", i, o, a, b).unwrap();
            conds.push(format!("c{}", i));
        }
        // cubes: products of literals on distinct variables
        let mut cubes: Vec<String> = vec!["one".into()];
        for i in 0..4 {
            let mut vars: Vec<u32> = (0..n).collect();
            rng.shuffle(&mut vars);
            let len = rng.range(1, n as u64) as usize;
            let mut cur = "one".to_string();
            for (j, v) in vars[..len].iter().enumerate() {
                let lit = if rng.chance(1, 2) { format!("x{}", v) } else { format!("nx{}", v) };
                let name = format!("q{}_{}", i, j);
                writeln!(w, "op {} mul {} {}", name, cur, lit).unwrap();
                cur = name;
            }
            cubes.push(cur);
        }
        for i in 0..4 {
            let name = format!("f{}", i);
            build_table(w, &name, n, &random_table(rng, n, &pool));
            hs.push(name);
        }
        let steps = rng.range(30, 60);
        for s in 0..steps {
            let name = format!("r{}", s);
            match rng.below(10) {
                0..=4 => {
                    let o = *rng.pick(&OPS);
                    let (a, b) = (rng.pick(&hs).clone(), rng.pick(&hs).clone());
                    writeln!(w, "op {} {} {} {}", name, o, a, b).unwrap();
                    // sometimes a second operator on the same operands right away
                    if rng.chance(1, 3) {
                        let o2 = *rng.pick(&OPS);
                        writeln!(w, "op {}b {} {} {}", name, o2, a, b).unwrap();
                        hs.push(format!("{}b", name));
                    }
                    hs.push(name);
                }
                5 | 6 => {
                    // mostly 0-1-valued conditions, sometimes an arbitrary function (precondition)
                    let c = if rng.chance(1, 8) { rng.pick(&hs).clone() } else { rng.pick(&conds).clone() };
                    let (a, b) = (rng.pick(&hs).clone(), rng.pick(&hs).clone());
                    writeln!(w, "ite {} {} {} {}", name, c, a, b).unwrap();
                    writeln!(w, "eval {} {}", name, bits_str(rng, n)).unwrap(); // `err handle` after `err precond`
                    if rng.chance(7, 8) {
                        // only usable when the precondition held: the generator cannot know for a random
                        // handle, so results of such lines are not reused
                        if conds.contains(&c) {
                            hs.push(name);
                        }
                    }
                }
                7 | 8 => {
                    let c = if rng.chance(1, 8) { rng.pick(&hs).clone() } else { rng.pick(&cubes).clone() };
                    let f = rng.pick(&hs).clone();
                    writeln!(w, "restrict {} {} {}", name, f, c).unwrap();
                    if cubes.contains(&c) {
                        hs.push(name);
                    }
                }
                _ => {
                    let f = rng.pick(&hs).clone();
                    writeln!(w, "eval {} {}", f, bits_str(rng, n)).unwrap();
                }
            }
        }
    }
}

/// restrict one function by every cube over the variables (each variable positive, negative or
/// absent), then a few ite lines sharing two of three operands: same first operand, different
/// second/third operand on one manager (what a too coarse cache key would confuse)
fn gen_restrict_all(cfg: &GenCfg, rng: &mut Rng, w: &mut dyn Write) {
    let pool = pool_i64();
    let reps = if cfg.thorough { 300 } else { 30 } * cfg.scale;
    for k in 0..reps {
        let n = rng.range(2, 4) as u32;
        writeln!(w, "case restrict-all-{}", k).unwrap();
        mgr_header(w, n, false);
        writeln!(w, "const one 1").unwrap();
        for v in 0..n {
            writeln!(w, "op nx{} sub one x{}", v, v).unwrap();
        }
        build_table(w, "f", n, &random_table(rng, n, &pool));
        build_table(w, "g", n, &random_table(rng, n, &pool));
        let mut codes: Vec<u32> = (0..3u32.pow(n)).collect();
        rng.shuffle(&mut codes);
        for code in codes {
            // build the cube from the highest variable down (any order gives the same diagram)
            let mut cur = "one".to_string();
            let mut c = code;
            for v in 0..n {
                let d = c % 3;
                c /= 3;
                if d == 0 {
                    continue;
                }
                let lit = if d == 1 { format!("x{}", v) } else { format!("nx{}", v) };
                writeln!(w, "op q{} mul {} {}", v, cur, lit).unwrap();
                cur = format!("q{}", v);
            }
            writeln!(w, "restrict r f {}", cur).unwrap();
            writeln!(w, "restrict s g {}", cur).unwrap();
            writeln!(w, "restrict t r {}", cur).unwrap(); // idempotent
            if rng.chance(1, 4) {
                writeln!(w, "ite u {} f g", cur).unwrap(); // a cube is 0-1-valued
                writeln!(w, "ite u {} g f", cur).unwrap();
                writeln!(w, "ite u {} f r", cur).unwrap();
            }
        }
    }
}

fn gen_malformed(w: &mut dyn Write) {
    writeln!(w, "case malformed").unwrap();
    for l in [
        "var x 0",
        "i64 add 9223372036854775808 1",
        "i64 add -9223372036854775809 1",
        "i64 pow 1 2",
        "i64 add 1",
        "i64 add +5 1",
        "i64 add inf 1",
        "f64 add 3ff 3ff0000000000000",
        "f64 add 3FF0000000000000 3ff0000000000000",
        "mgr x",
        "mgr 2",
        "var x0 0",
        "var x2 2",
        "var x0 -1",
        "const c 1.5",
        "const c 99999999999999999999",
        "op r xor x0 x0",
        "op r add x0 nope",
        "ite r x0 x0",
        "ite r nope x0 x0",
        "restrict r x0 nope",
        "eval x0 1",
        "eval x0 1x",
        "eval nope 11",
        "frobnicate",
        "op r add x0 x0",
        "eval r 10",
        "mgr 1 f32",
        "mgr 1 f64",
        "const c 1",
        "const c 3ff0000000000000",
        "eval c 0",
    ] {
        writeln!(w, "{}", l).unwrap();
    }
}

fn generate(cfg: &GenCfg, rng: &mut Rng, w: &mut dyn Write) {
    gen_scalar_i64(cfg, rng, w);
    gen_scalar_f64(cfg, rng, w);
    gen_terminal_pairs(w);
    gen_one_var(cfg, rng, w);
    gen_two_var(cfg, rng, w, false);
    gen_two_var(cfg, rng, w, true);
    gen_two_var_exhaustive(cfg, rng, w);
    gen_histories(cfg, rng, w);
    gen_restrict_all(cfg, rng, w);
    gen_random(cfg, rng, w, false);
    gen_random(cfg, rng, w, true);
    gen_malformed(w);
}

fn make(_f: &BTreeMap<String, String>) -> Box<dyn Scenario> {
    Box::new(Sc { st: St::None })
}

fn main() {
    harness_main(generate, make)
}
