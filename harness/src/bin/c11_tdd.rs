//! C11 — TDD operations are the pointwise lifting of one fixed three-valued logic.
//!
//! Protocol `tdd` (one canonical output line per operation line, same format as the Lean driver
//! `OxiddModel/Tdd/Driver.lean`):
//!
//! ```text
//! mgr <nvars>                      -> ok
//! order <v>*                       -> <l2v0> <l2v1> …   (full permutation, only while no handle exists)
//! const <h> f|t|u                  -> <tree>
//! var <h> <v>                      -> <tree>
//! node <h> <v> <ht> <hu> <he>      -> <tree>            (TDDRules::reduce + insert; children strictly below v)
//! not|enot|notowned|notownedf <h> <a>   -> <tree>
//! op|eop <h> <opname> <a> <b>      -> <tree>
//! ite|eite <h> <a> <b> <c>         -> <tree>
//! eval <h> <digits>                -> F|U|T             (digit k = value of variable k: 0 false, 1 unknown, 2 true)
//! evalp <h> (<v>:<digit>)*         -> F|U|T             (partial / repeated assignment, in the given order)
//! cof <h>                          -> <t> <u> <e> | none
//! drop <h>                         -> ok
//! dropall                          -> <inner nodes left after dropping every handle and gc>
//! ```
//! Trees: `T | U | F | (v<k> <t> <u> <e>)` with variable numbers. Anything else: `bad-op`.
//!
//! `op`/`not`/`ite` use the function-level API of the derived wrapper `oxidd::tdd::TDDFunction`,
//! `eop`/`enot`/`eite`/`notowned` the edge-level API (`*_edge`) through `with_manager_shared`.
//!
//! Oracles (all on the real code, independent of the Lean model): the value table of every result
//! over all three-valued assignments equals the property's truth table applied to the operands'
//! value tables; `eval` equals an independent walk over `cofactors()`; the cofactors are the
//! restrictions; results are ordered and reduced; after `dropall` no inner node is left.
use oxidd::tdd::{TDDFunction, TDDManagerRef};
use oxidd::{Function, Manager, ManagerRef, TVLFunction};
use oxidd_core::util::AllocResult;
use oxidd_core::{DiagramRules, HasLevel, LevelNo, Node, VarNo};
use oxv::*;
use std::collections::{BTreeMap, HashMap};
use std::io::Write;

// ------------------------------------------------------------------------------------------------
// the three-valued logic of the property text, values 0 = false, 1 = unknown, 2 = true

type V = u8;

fn v_not(a: V) -> V {
    2 - a
}
/// Kleene strong conjunction / disjunction: minimum / maximum in the order false < unknown < true
fn v_and(a: V, b: V) -> V {
    a.min(b)
}
fn v_or(a: V, b: V) -> V {
    a.max(b)
}
/// Łukasiewicz implication: min(1, 1 - a + b) on {0, 1/2, 1}
fn v_imp(a: V, b: V) -> V {
    (2 + b as i32 - a as i32).min(2) as V
}
/// Łukasiewicz equivalence: 1 - |a - b|
fn v_equiv(a: V, b: V) -> V {
    (2 - (a as i32 - b as i32).abs()) as V
}
fn v_bin(op: &str, a: V, b: V) -> V {
    match op {
        "and" => v_and(a, b),
        "or" => v_or(a, b),
        "nand" => v_not(v_and(a, b)),
        "nor" => v_not(v_or(a, b)),
        "xor" => v_not(v_equiv(a, b)),
        "equiv" => v_equiv(a, b),
        "imp" => v_imp(a, b),
        "imp_strict" => v_not(v_imp(b, a)),
        _ => unreachable!(),
    }
}
/// "ite(a,b,c) is b if b = c or a is true, c if a is false, and for unknown a: or(a,c) if a = b,
/// and(a,b) if a = c, unknown otherwise"
fn v_ite(a: V, b: V, c: V) -> V {
    if b == c || a == 2 {
        b
    } else if a == 0 {
        c
    } else if a == b {
        v_or(a, c)
    } else if a == c {
        v_and(a, b)
    } else {
        1
    }
}
fn v_of(o: Option<bool>) -> V {
    match o {
        Some(false) => 0,
        None => 1,
        Some(true) => 2,
    }
}
fn opt_of(v: V) -> Option<bool> {
    match v {
        0 => Some(false),
        1 => None,
        _ => Some(true),
    }
}
fn v_str(v: V) -> &'static str {
    match v {
        0 => "F",
        1 => "U",
        _ => "T",
    }
}

const OPS: [&str; 8] = ["and", "or", "nand", "nor", "xor", "equiv", "imp", "imp_strict"];

// ------------------------------------------------------------------------------------------------

struct Tdd {
    mref: Option<TDDManagerRef>,
    nvars: u32,
    handles: HashMap<String, TDDFunction>,
}

/// `TDDRules::reduce` + insertion, the primitive node constructor (independent of the connectives)
fn mk_edge<M: Manager>(m: &M, level: LevelNo, t: &M::Edge, u: &M::Edge, e: &M::Edge) -> AllocResult<M::Edge>
where
    M::InnerNode: HasLevel,
{
    let c = [m.clone_edge(t), m.clone_edge(u), m.clone_edge(e)];
    <M::Rules as DiagramRules<_, _, _>>::reduce(m, level, c).then_insert(m, level)
}

fn root_level<M: Manager>(m: &M, e: &M::Edge) -> Option<LevelNo>
where
    M::InnerNode: HasLevel,
{
    match m.get_node(e) {
        Node::Inner(n) => Some(n.level()),
        Node::Terminal(_) => None,
    }
}

/// root variable (None for terminals)
fn root_var(f: &TDDFunction) -> Option<VarNo> {
    f.with_manager_shared(|m, e| root_level(m, e).map(|l| m.level_to_var(l)))
}
fn root_lvl(f: &TDDFunction) -> Option<LevelNo> {
    f.with_manager_shared(|m, e| root_level(m, e))
}

/// which terminal is this (by edge equality with the three terminal edges; 9 = none of them)
fn terminal_value(f: &TDDFunction) -> V {
    f.with_manager_shared(|m, e| {
        let mut r = 9;
        for (k, c) in [TDDFunction::f_edge(m), TDDFunction::u_edge(m), TDDFunction::t_edge(m)].into_iter().enumerate() {
            if &c == e {
                r = k as V;
            }
            m.drop_edge(c);
        }
        r
    })
}

/// canonical decimal number (no sign, no leading zeros)
fn pnat(x: &str) -> Option<u32> {
    x.parse::<u32>().ok().filter(|v| v.to_string() == x)
}

fn tree(f: &TDDFunction, out: &mut String) {
    match f.cofactors() {
        None => out.push_str(v_str(terminal_value(f))),
        Some((t, u, e)) => {
            out.push_str("(v");
            out.push_str(&root_var(f).unwrap().to_string());
            out.push(' ');
            tree(&t, out);
            out.push(' ');
            tree(&u, out);
            out.push(' ');
            tree(&e, out);
            out.push(')');
        }
    }
}
fn tree_str(f: &TDDFunction) -> String {
    let mut s = String::new();
    tree(f, &mut s);
    s
}

/// independent evaluation: walk over `cofactors()` choosing child by the value of the root variable
fn walk(f: &TDDFunction, sigma: &[V]) -> V {
    let mut cur = f.clone();
    loop {
        match cur.cofactors() {
            None => return terminal_value(&cur),
            Some((t, u, e)) => {
                let v = root_var(&cur).unwrap() as usize;
                cur = match sigma[v] {
                    2 => t,
                    1 => u,
                    _ => e,
                };
            }
        }
    }
}

fn support(f: &TDDFunction, acc: &mut Vec<VarNo>) {
    if let Some((t, u, e)) = f.cofactors() {
        let v = root_var(f).unwrap();
        if !acc.contains(&v) {
            acc.push(v);
        }
        support(&t, acc);
        support(&u, acc);
        support(&e, acc);
    }
}

/// ordered (levels strictly increase from the root) and reduced (no node with three equal children)
fn is_nf(f: &TDDFunction) -> bool {
    match f.cofactors() {
        None => true,
        Some((t, u, e)) => {
            let l = root_lvl(f).unwrap();
            if t == u && u == e {
                return false;
            }
            for c in [&t, &u, &e] {
                if let Some(k) = root_lvl(c) {
                    if k <= l {
                        return false;
                    }
                }
                if !is_nf(c) {
                    return false;
                }
            }
            true
        }
    }
}

impl Tdd {
    /// the assignments the oracles enumerate: all of them if the manager has at most 5 variables,
    /// otherwise all over the support of the given functions (at most 5 variables), the others
    /// unknown
    fn assignments(&self, fs: &[&TDDFunction]) -> Vec<Vec<V>> {
        let n = self.nvars as usize;
        let vars: Vec<usize> = if n <= 5 {
            (0..n).collect()
        } else {
            let mut acc = Vec::new();
            for f in fs {
                support(f, &mut acc);
            }
            acc.sort();
            acc.truncate(5);
            acc.into_iter().map(|v| v as usize).collect()
        };
        let mut res = Vec::new();
        let total = 3usize.pow(vars.len() as u32);
        for mut k in 0..total {
            let mut s = vec![1 as V; n];
            for &v in &vars {
                s[v] = (k % 3) as V;
                k /= 3;
            }
            res.push(s);
        }
        res
    }

    /// value by the real `eval`, cross-checked with the independent walk
    fn value(&self, f: &TDDFunction, sigma: &[V], ctx: &mut Ctx) -> V {
        let r = v_of(f.eval(sigma.iter().enumerate().map(|(v, &x)| (v as VarNo, opt_of(x)))));
        let w = walk(f, sigma);
        if r != w {
            ctx.fail(
                "eval-walk",
                &format!("eval of {} under {:?} is {} but following the true/unknown/false children gives {}", tree_str(f), sigma, v_str(r), v_str(w)),
            );
        }
        r
    }

    fn check_nf(&self, f: &TDDFunction, what: &str, ctx: &mut Ctx) {
        if !is_nf(f) {
            ctx.fail("not-normal-form", &format!("{}: result {} is not ordered and reduced", what, tree_str(f)));
        }
    }

    fn define(&mut self, h: &str, f: TDDFunction) -> String {
        let s = tree_str(&f);
        self.handles.insert(h.to_string(), f);
        s
    }
}

fn oom<T>(r: AllocResult<T>) -> Result<T, String> {
    r.map_err(|_| "OOM".to_string())
}

impl Scenario for Tdd {
    fn reset(&mut self) {
        self.handles.clear();
        self.mref = None;
        self.nvars = 0;
    }

    fn step(&mut self, line: &str, ctx: &mut Ctx) -> String {
        let w = words(line);
        let bad = "bad-op".to_string();
        if w.is_empty() {
            return bad;
        }
        if self.mref.is_none() {
            if w.len() == 2 && w[0] == "mgr" {
                if let Some(n) = pnat(w[1]) {
                    if n <= 64 {
                        let mref = oxidd::tdd::new_manager(1 << 16, 1 << 12, 1);
                        mref.with_manager_exclusive(|m| {
                            m.add_vars(n);
                        });
                        self.mref = Some(mref);
                        self.nvars = n;
                        return "ok".into();
                    }
                }
            }
            return bad;
        }
        let mref = self.mref.clone().unwrap();
        let n = self.nvars;
        let fresh = |s: &Self, h: &str| !s.handles.contains_key(h);
        match (w[0], w.len()) {
            ("order", _) => {
                let mut p = Vec::new();
                for x in &w[1..] {
                    match pnat(x) {
                        Some(v) => p.push(v),
                        None => return bad,
                    }
                }
                let mut sorted = p.clone();
                sorted.sort();
                if sorted != (0..n).collect::<Vec<_>>() || !self.handles.is_empty() {
                    return bad;
                }
                ctx.count("order");
                mref.with_manager_exclusive(|m| {
                    oxidd_reorder::set_var_order(m, &p);
                    let l2v: Vec<String> = (0..n).map(|l| m.level_to_var(l).to_string()).collect();
                    // oracle: the requested order is established
                    for (l, &v) in p.iter().enumerate() {
                        if m.var_to_level(v) != l as u32 || m.level_to_var(l as u32) != v {
                            ctx.fail("order", &format!("set_var_order({:?}) left variable {} at level {}", p, v, m.var_to_level(v)));
                        }
                    }
                    l2v.join(" ")
                })
            }
            ("const", 3) => {
                if !fresh(self, w[1]) {
                    return bad;
                }
                let (f, want) = mref.with_manager_shared(|m| match w[2] {
                    "f" => (Some(TDDFunction::f(m)), 0),
                    "u" => (Some(TDDFunction::u(m)), 1),
                    "t" => (Some(TDDFunction::t(m)), 2),
                    _ => (None, 0),
                });
                let Some(f) = f else { return bad };
                ctx.count("const");
                for s in self.assignments(&[&f]) {
                    let r = self.value(&f, &s, ctx);
                    if r != want {
                        ctx.fail("const", &format!("constant {} evaluates to {} under {:?}", w[2], v_str(r), s));
                        break;
                    }
                }
                self.define(w[1], f)
            }
            ("var", 3) => {
                let Some(v) = pnat(w[2]) else { return bad };
                if v >= n || !fresh(self, w[1]) {
                    return bad;
                }
                let f = match oom(mref.with_manager_shared(|m| TDDFunction::var(m, v))) {
                    Ok(f) => f,
                    Err(e) => return e,
                };
                ctx.count("var");
                for s in self.assignments(&[&f]) {
                    let r = self.value(&f, &s, ctx);
                    if r != s[v as usize] {
                        ctx.fail("var", &format!("var {} evaluates to {} under {:?}", v, v_str(r), s));
                        break;
                    }
                }
                self.check_nf(&f, line, ctx);
                self.define(w[1], f)
            }
            ("node", 6) => {
                let Some(v) = pnat(w[2]) else { return bad };
                let (Some(a), Some(b), Some(c)) = (self.handles.get(w[3]), self.handles.get(w[4]), self.handles.get(w[5])) else {
                    return bad;
                };
                if v >= n || !fresh(self, w[1]) {
                    return bad;
                }
                let r = mref.with_manager_shared(|m| {
                    let l = m.var_to_level(v);
                    for x in [a, b, c] {
                        if let Some(k) = root_level(m, x.as_edge(m)) {
                            if k <= l {
                                return None;
                            }
                        }
                    }
                    Some(mk_edge(m, l, a.as_edge(m), b.as_edge(m), c.as_edge(m)).map(|e| TDDFunction::from_edge(m, e)))
                });
                let Some(r) = r else { return bad };
                let f = match oom(r) {
                    Ok(f) => f,
                    Err(e) => return e,
                };
                ctx.count("node");
                // oracle: the node is the function "case v of true -> a | unknown -> b | false -> c"
                for s in self.assignments(&[&f, a, b, c]) {
                    let want = match s[v as usize] {
                        2 => self.value(a, &s, ctx),
                        1 => self.value(b, &s, ctx),
                        _ => self.value(c, &s, ctx),
                    };
                    let r = self.value(&f, &s, ctx);
                    if r != want {
                        ctx.fail("node", &format!("`{}`: value {} under {:?}, children say {}", line, v_str(r), s, v_str(want)));
                        break;
                    }
                }
                self.check_nf(&f, line, ctx);
                self.define(w[1], f)
            }
            ("not", 3) | ("enot", 3) | ("notowned", 3) | ("notownedf", 3) => {
                let Some(a) = self.handles.get(w[2]) else { return bad };
                if !fresh(self, w[1]) {
                    return bad;
                }
                ctx.count(w[0]);
                let r = match w[0] {
                    "not" => a.not(),
                    "notownedf" => a.clone().not_owned(),
                    "enot" => a.with_manager_shared(|m, e| TDDFunction::not_edge(m, e).map(|r| TDDFunction::from_edge(m, r))),
                    _ => a.with_manager_shared(|m, e| {
                        let owned = m.clone_edge(e);
                        TDDFunction::not_edge_owned(m, owned).map(|r| TDDFunction::from_edge(m, r))
                    }),
                };
                let f = match oom(r) {
                    Ok(f) => f,
                    Err(e) => return e,
                };
                for s in self.assignments(&[&f, a]) {
                    let want = v_not(self.value(a, &s, ctx));
                    let r = self.value(&f, &s, ctx);
                    if r != want {
                        ctx.fail(
                            "not",
                            &format!("`{}`: not {} = {} has value {} under {:?}, the Kleene table says {}", line, tree_str(a), tree_str(&f), v_str(r), s, v_str(want)),
                        );
                        break;
                    }
                }
                self.check_nf(&f, line, ctx);
                self.define(w[1], f)
            }
            ("op", 5) | ("eop", 5) => {
                if !OPS.contains(&w[2]) {
                    return bad;
                }
                let (Some(a), Some(b)) = (self.handles.get(w[3]), self.handles.get(w[4])) else { return bad };
                if !fresh(self, w[1]) {
                    return bad;
                }
                ctx.count(&format!("{}.{}", w[0], w[2]));
                let r = if w[0] == "op" {
                    match w[2] {
                        "and" => a.and(b),
                        "or" => a.or(b),
                        "nand" => a.nand(b),
                        "nor" => a.nor(b),
                        "xor" => a.xor(b),
                        "equiv" => a.equiv(b),
                        "imp" => a.imp(b),
                        _ => a.imp_strict(b),
                    }
                } else {
                    a.with_manager_shared(|m, ea| {
                        let eb = b.as_edge(m);
                        let r = match w[2] {
                            "and" => TDDFunction::and_edge(m, ea, eb),
                            "or" => TDDFunction::or_edge(m, ea, eb),
                            "nand" => TDDFunction::nand_edge(m, ea, eb),
                            "nor" => TDDFunction::nor_edge(m, ea, eb),
                            "xor" => TDDFunction::xor_edge(m, ea, eb),
                            "equiv" => TDDFunction::equiv_edge(m, ea, eb),
                            "imp" => TDDFunction::imp_edge(m, ea, eb),
                            _ => TDDFunction::imp_strict_edge(m, ea, eb),
                        };
                        r.map(|r| TDDFunction::from_edge(m, r))
                    })
                };
                let f = match oom(r) {
                    Ok(f) => f,
                    Err(e) => return e,
                };
                // branch statistics of the generator: which kind of operand pair was this
                let kind = |x: &TDDFunction| if root_lvl(x).is_none() { 't' } else { 'n' };
                let rel = match (root_lvl(a), root_lvl(b)) {
                    (Some(x), Some(y)) if x < y => "f-above",
                    (Some(x), Some(y)) if x > y => "g-above",
                    (Some(_), Some(_)) => "same-level",
                    _ => "terminal",
                };
                ctx.count(&format!("pair.{}{}.{}{}", kind(a), kind(b), rel, if a == b { ".equal" } else { "" }));
                for s in self.assignments(&[&f, a, b]) {
                    let (x, y) = (self.value(a, &s, ctx), self.value(b, &s, ctx));
                    let want = v_bin(w[2], x, y);
                    let r = self.value(&f, &s, ctx);
                    if r != want {
                        ctx.fail(
                            &format!("table.{}", w[2]),
                            &format!(
                                "`{}`: {} {} {} = {} has value {} under {:?} where the operands are {} and {}; the table says {}",
                                line, tree_str(a), w[2], tree_str(b), tree_str(&f), v_str(r), s, v_str(x), v_str(y), v_str(want)
                            ),
                        );
                        break;
                    }
                }
                self.check_nf(&f, line, ctx);
                self.define(w[1], f)
            }
            ("ite", 5) | ("eite", 5) => {
                let (Some(a), Some(b), Some(c)) = (self.handles.get(w[2]), self.handles.get(w[3]), self.handles.get(w[4])) else {
                    return bad;
                };
                if !fresh(self, w[1]) {
                    return bad;
                }
                ctx.count(w[0]);
                let r = if w[0] == "ite" {
                    a.ite(b, c)
                } else {
                    a.with_manager_shared(|m, ea| TDDFunction::ite_edge(m, ea, b.as_edge(m), c.as_edge(m)).map(|r| TDDFunction::from_edge(m, r)))
                };
                let f = match oom(r) {
                    Ok(f) => f,
                    Err(e) => return e,
                };
                let k = |x: &TDDFunction| if root_lvl(x).is_none() { 't' } else { 'n' };
                ctx.count(&format!(
                    "ite.{}{}{}{}{}{}",
                    k(a),
                    k(b),
                    k(c),
                    if b == c { ".g=h" } else { "" },
                    if a == b { ".f=g" } else { "" },
                    if a == c { ".f=h" } else { "" }
                ));
                for s in self.assignments(&[&f, a, b, c]) {
                    let (x, y, z) = (self.value(a, &s, ctx), self.value(b, &s, ctx), self.value(c, &s, ctx));
                    let want = v_ite(x, y, z);
                    let r = self.value(&f, &s, ctx);
                    if r != want {
                        ctx.fail(
                            "table.ite",
                            &format!(
                                "`{}`: ite({}, {}, {}) = {} has value {} under {:?} where the operands are {}, {}, {}; the property says {}",
                                line, tree_str(a), tree_str(b), tree_str(c), tree_str(&f), v_str(r), s, v_str(x), v_str(y), v_str(z), v_str(want)
                            ),
                        );
                        break;
                    }
                }
                self.check_nf(&f, line, ctx);
                self.define(w[1], f)
            }
            ("eval", 3) => {
                let Some(f) = self.handles.get(w[1]) else { return bad };
                let ds: Vec<V> = w[2].bytes().map(|b| b.wrapping_sub(b'0')).collect();
                if ds.len() != n as usize || ds.iter().any(|&d| d > 2) {
                    return bad;
                }
                ctx.count("eval");
                let r = self.value(f, &ds, ctx);
                v_str(r).into()
            }
            ("evalp", _) if w.len() >= 2 => {
                let Some(f) = self.handles.get(w[1]) else { return bad };
                let mut args = Vec::new();
                for x in &w[2..] {
                    let Some((v, d)) = x.split_once(':') else { return bad };
                    let (Some(v), Some(d)) = (pnat(v), pnat(d)) else { return bad };
                    if v >= n || d > 2 {
                        return bad;
                    }
                    let d = d as u8;
                    args.push((v as VarNo, opt_of(d)));
                }
                ctx.count("evalp");
                // edge-level eval
                let r = f.with_manager_shared(|m, e| TDDFunction::eval_edge(m, e, args.iter().copied()));
                // oracle for the part the property fixes: the *last* value given for a variable counts;
                // compare with the walk whenever every variable of the support is assigned
                let mut sup = Vec::new();
                support(f, &mut sup);
                if sup.iter().all(|v| args.iter().any(|(x, _)| x == v)) {
                    let mut s = vec![1 as V; n as usize];
                    for (v, d) in &args {
                        s[*v as usize] = v_of(*d);
                    }
                    let wv = walk(f, &s);
                    if wv != v_of(r) {
                        ctx.fail("eval-walk", &format!("`{}`: eval_edge gives {} but the children followed under the last values give {}", line, v_str(v_of(r)), v_str(wv)));
                    }
                } else {
                    ctx.count("evalp.partial");
                }
                v_str(v_of(r)).into()
            }
            ("cof", 2) => {
                let Some(f) = self.handles.get(w[1]) else { return bad };
                ctx.count("cof");
                let is_term = root_lvl(f).is_none();
                match f.cofactors() {
                    None => {
                        if !is_term {
                            ctx.fail("cofactors", &format!("cofactors of the inner node {} is None", tree_str(f)));
                        }
                        "none".into()
                    }
                    Some((t, u, e)) => {
                        if is_term {
                            ctx.fail("cofactors", "cofactors of a terminal is Some");
                        }
                        let v = root_var(f).unwrap() as usize;
                        // single-cofactor accessors agree
                        if f.cofactor_true().as_ref() != Some(&t) || f.cofactor_unknown().as_ref() != Some(&u) || f.cofactor_false().as_ref() != Some(&e) {
                            ctx.fail("cofactors", &format!("cofactor_true/unknown/false of {} differ from cofactors()", tree_str(f)));
                        }
                        // the cofactors are the restrictions of the root variable to true / unknown / false
                        'outer: for s in self.assignments(&[f]) {
                            for (val, c) in [(2 as V, &t), (1, &u), (0, &e)] {
                                let mut s2 = s.clone();
                                s2[v] = val;
                                let want = self.value(f, &s2, ctx);
                                let r = self.value(c, &s, ctx);
                                let r2 = self.value(c, &s2, ctx);
                                if r != want || r2 != want {
                                    ctx.fail(
                                        "cofactors",
                                        &format!("cofactor {} of {} is {}: value {} under {:?}, but f with v{}={} gives {}", v_str(val), tree_str(f), tree_str(c), v_str(r), s, v, v_str(val), v_str(want)),
                                    );
                                    break 'outer;
                                }
                            }
                        }
                        format!("{} {} {}", tree_str(&t), tree_str(&u), tree_str(&e))
                    }
                }
            }
            ("drop", 2) => {
                if self.handles.remove(w[1]).is_some() {
                    "ok".into()
                } else {
                    bad
                }
            }
            ("dropall", 1) => {
                self.handles.clear();
                ctx.count("dropall");
                let left = mref.with_manager_shared(|m| {
                    m.gc();
                    m.num_inner_nodes()
                });
                if left != 0 {
                    ctx.fail("nodes-left", &format!("{} inner nodes survive after dropping every handle and gc (an edge leaked)", left));
                }
                left.to_string()
            }
            _ => bad,
        }
    }
}

// ------------------------------------------------------------------------------------------------
// generator

struct Gen<'a> {
    w: &'a mut dyn Write,
    rng: &'a mut Rng,
    k: u64,
}

impl<'a> Gen<'a> {
    fn line(&mut self, s: &str) {
        writeln!(self.w, "{}", s).unwrap();
    }
    fn fresh(&mut self, p: &str) -> String {
        self.k += 1;
        format!("{}{}", p, self.k)
    }
    fn start(&mut self, name: &str, nvars: u32, order: &[u32]) {
        self.line(&format!("case {}", name));
        self.line(&format!("mgr {}", nvars));
        if !order.is_empty() {
            let o: Vec<String> = order.iter().map(|v| v.to_string()).collect();
            self.line(&format!("order {}", o.join(" ")));
        }
        self.line("const cf f");
        self.line("const cu u");
        self.line("const ct t");
    }
    /// the 27 one-variable functions over `v`, as handles `<p>0 … <p>26` (index = 9 t + 3 u + e)
    fn one_var(&mut self, p: &str, v: u32) {
        let c = ["cf", "cu", "ct"];
        for i in 0..27 {
            self.line(&format!("node {}{} {} {} {} {}", p, i, v, c[i / 9], c[(i / 3) % 3], c[i % 3]));
        }
    }
    fn binop(&mut self, op: &str, a: &str, b: &str) -> String {
        let h = self.fresh("r");
        let cmd = if self.rng.chance(1, 3) { "eop" } else { "op" };
        self.line(&format!("{} {} {} {} {}", cmd, h, op, a, b));
        h
    }
    fn ite(&mut self, a: &str, b: &str, c: &str) -> String {
        let h = self.fresh("r");
        let cmd = if self.rng.chance(1, 3) { "eite" } else { "ite" };
        self.line(&format!("{} {} {} {} {}", cmd, h, a, b, c));
        h
    }
    fn not(&mut self, a: &str) -> String {
        let h = self.fresh("r");
        let cmd = *self.rng.pick(&["not", "enot", "notowned", "notownedf"]);
        self.line(&format!("{} {} {}", cmd, h, a));
        h
    }
    fn evals(&mut self, h: &str, nvars: u32, count: u32) {
        for _ in 0..count {
            let ds: String = (0..nvars).map(|_| char::from(b'0' + self.rng.below(3) as u8)).collect();
            self.line(&format!("eval {} {}", h, ds));
        }
    }
    /// a random function over the variables `vars` (top-most first in the *level* order), built bottom-up
    fn random_fn(&mut self, vars: &[u32], p_skip: u64) -> String {
        if vars.is_empty() {
            return (*self.rng.pick(&["cf", "cu", "ct"])).to_string();
        }
        if self.rng.chance(p_skip, 10) {
            return self.random_fn(&vars[1..], p_skip);
        }
        let a = self.random_fn(&vars[1..], p_skip);
        let b = if self.rng.chance(1, 4) { a.clone() } else { self.random_fn(&vars[1..], p_skip) };
        let c = if self.rng.chance(1, 4) { b.clone() } else { self.random_fn(&vars[1..], p_skip) };
        let h = self.fresh("n");
        self.line(&format!("node {} {} {} {} {}", h, vars[0], a, b, c));
        h
    }
}

fn generate(cfg: &GenCfg, rng: &mut Rng, w: &mut dyn Write) {
    let thorough = cfg.thorough;
    let scale = cfg.scale.max(1);
    let mut g = Gen { w, rng, k: 0 };
    let orders2: [&[u32]; 2] = [&[0, 1], &[1, 0]];

    // --- constants, variables, eval, cofactors, every API flavour once (tiny smoke case)
    for (oi, ord) in orders2.iter().enumerate() {
        g.start(&format!("basics-o{}", oi), 2, ord);
        g.line("var x0 0");
        g.line("var x1 1");
        for h in ["cf", "cu", "ct", "x0", "x1"] {
            g.line(&format!("cof {}", h));
            for d in ["00", "01", "02", "10", "11", "12", "20", "21", "22"] {
                g.line(&format!("eval {} {}", h, d));
            }
            for cmd in ["not", "enot", "notowned", "notownedf"] {
                let r = g.fresh("r");
                g.line(&format!("{} {} {}", cmd, r, h));
            }
        }
        g.line("dropall");
    }

    // --- A: every operator on all pairs of the 27 one-variable functions (same variable)
    for (oi, ord) in orders2.iter().enumerate() {
        for op in OPS {
            for v in 0..2u32 {
                g.start(&format!("bin1-{}-o{}-v{}", op, oi, v), 2, ord);
                g.one_var("a", v);
                for i in 0..27 {
                    for j in 0..27 {
                        g.binop(op, &format!("a{}", i), &format!("a{}", j));
                    }
                }
                g.line("dropall");
            }
        }
    }

    // --- B: every operator on all pairs (one-variable function over v0, one over v1), both operand
    // orders, both variable orders
    for (oi, ord) in orders2.iter().enumerate() {
        for op in OPS {
            g.start(&format!("bin11-{}-o{}", op, oi), 2, ord);
            g.one_var("a", 0);
            g.one_var("b", 1);
            for i in 0..27 {
                for j in 0..27 {
                    if thorough || g.rng.chance(1, 2) {
                        g.binop(op, &format!("a{}", i), &format!("b{}", j));
                    }
                    if thorough || g.rng.chance(1, 2) {
                        g.binop(op, &format!("b{}", j), &format!("a{}", i));
                    }
                }
            }
            g.line("dropall");
        }
    }

    // --- C: not on all one-variable functions and on all / a sample of the 3^9 two-variable ones
    for (oi, ord) in orders2.iter().enumerate() {
        g.start(&format!("not-o{}", oi), 2, ord);
        g.one_var("a", ord[1]);
        for i in 0..27 {
            g.not(&format!("a{}", i));
        }
        let top = ord[0];
        let mut cnt = 0;
        for i in 0..27 {
            for j in 0..27 {
                for k in 0..27 {
                    if thorough || g.rng.chance(1, 8) {
                        let h = g.fresh("n");
                        g.line(&format!("node {} {} a{} a{} a{}", h, top, i, j, k));
                        let r = g.not(&h);
                        if g.rng.chance(1, 50) {
                            g.line(&format!("cof {}", r));
                            g.evals(&r, 2, 2);
                        }
                        g.line(&format!("drop {}", h));
                        g.line(&format!("drop {}", r));
                        cnt += 1;
                    }
                }
            }
        }
        let _ = cnt;
        g.line("dropall");
    }

    // --- D: ite over all 27^3 triples of one-variable functions (thorough), a sample (quick)
    for (oi, ord) in orders2.iter().enumerate() {
        for blk in 0..27 {
            g.start(&format!("ite1-o{}-{}", oi, blk), 2, ord);
            g.one_var("a", 0);
            for j in 0..27 {
                for k in 0..27 {
                    if thorough || g.rng.chance(1, 4) || blk == j || blk == k || j == k {
                        g.ite(&format!("a{}", blk), &format!("a{}", j), &format!("a{}", k));
                    }
                }
            }
            g.line("dropall");
        }
    }

    // --- E: ite over one-variable functions on up to three different variables, all 6 orders
    let orders3: [[u32; 3]; 6] = [[0, 1, 2], [0, 2, 1], [1, 0, 2], [1, 2, 0], [2, 0, 1], [2, 1, 0]];
    let n_e = if thorough { 30000 * scale } else { 1200 * scale };
    for (oi, ord) in orders3.iter().enumerate() {
        g.start(&format!("ite111-o{}", oi), 3, ord);
        g.one_var("a", 0);
        g.one_var("b", 1);
        g.one_var("c", 2);
        for _ in 0..n_e / 6 {
            let p = ["a", "b", "c"];
            let f = format!("{}{}", g.rng.pick(&p), g.rng.below(27));
            let gg = format!("{}{}", g.rng.pick(&p), g.rng.below(27));
            let h = format!("{}{}", g.rng.pick(&p), g.rng.below(27));
            let r = g.ite(&f, &gg, &h);
            if g.rng.chance(1, 20) {
                g.line(&format!("cof {}", r));
                g.evals(&r, 3, 2);
            }
        }
        g.line("dropall");
    }

    // --- F: sampled pairs / triples of the 3^9 two-variable functions: all operators, ite, not
    let n_f = if thorough { 50000 * scale } else { 1500 * scale };
    let per_case = 250;
    let mut done = 0;
    let mut ci = 0;
    while done < n_f {
        let ord = orders2[(ci % 2) as usize];
        g.start(&format!("bin2-{}", ci), 2, ord);
        g.one_var("a", ord[1]);
        let top = ord[0];
        for _ in 0..per_case.min(n_f - done) {
            let mut hs = Vec::new();
            for _ in 0..3 {
                let h = g.fresh("n");
                // mostly proper two-variable functions; sometimes share children to hit the shortcuts
                let i = g.rng.below(27);
                let j = if g.rng.chance(1, 6) { i } else { g.rng.below(27) };
                let k = if g.rng.chance(1, 6) { j } else { g.rng.below(27) };
                g.line(&format!("node {} {} a{} a{} a{}", h, top, i, j, k));
                hs.push(h);
            }
            let mut rs = Vec::new();
            for op in OPS {
                let (x, y) = if g.rng.chance(1, 2) { (0, 1) } else { (1, 0) };
                rs.push(g.binop(op, &hs[x], &hs[y]));
            }
            rs.push(g.ite(&hs[0], &hs[1], &hs[2]));
            rs.push(g.ite(&hs[2], &hs[0], &hs[1]));
            rs.push(g.not(&hs[2]));
            // operands equal / terminal / one-variable mixed in
            let z = format!("a{}", g.rng.below(27));
            let op = *g.rng.pick(&OPS);
            rs.push(g.binop(op, &hs[0], &z));
            let op = *g.rng.pick(&OPS);
            rs.push(g.binop(op, &z, &hs[1]));
            let op = *g.rng.pick(&OPS);
            rs.push(g.binop(op, &hs[1], &hs[1]));
            rs.push(g.ite(&hs[0], &hs[0], &hs[1]));
            rs.push(g.ite(&hs[0], &hs[1], &hs[0]));
            rs.push(g.ite(&z, &hs[0], &hs[1]));
            let c = *g.rng.pick(&["cf", "cu", "ct"]);
            rs.push(g.ite(&hs[0], c, &hs[1]));
            let c = *g.rng.pick(&["cf", "cu", "ct"]);
            rs.push(g.ite(&hs[0], &hs[1], c));
            rs.push(g.ite("cu", &hs[0], &hs[1]));
            let c = *g.rng.pick(&["cf", "cu", "ct"]);
            rs.push(g.ite("cu", c, &hs[1]));
            if g.rng.chance(1, 10) {
                let r = g.rng.pick(&rs).clone();
                g.line(&format!("cof {}", r));
                g.evals(&r, 2, 3);
            }
            for h in hs.iter().chain(rs.iter()) {
                g.line(&format!("drop {}", h));
            }
            done += 1;
        }
        g.line("dropall");
        ci += 1;
    }

    // --- G: random functions of three and four variables under random orders
    let n_g = if thorough { 1200 * scale } else { 40 * scale };
    for ci in 0..n_g {
        let nv = 3 + (ci % 2) as u32;
        let mut ord: Vec<u32> = (0..nv).collect();
        g.rng.shuffle(&mut ord);
        g.start(&format!("rand-{}", ci), nv, &ord);
        for _ in 0..12 {
            let skip = g.rng.below(4);
            let f = g.random_fn(&ord, skip);
            let skip = g.rng.below(4);
            let h = g.random_fn(&ord, skip);
            let skip = g.rng.below(6);
            let k = g.random_fn(&ord, skip);
            for op in OPS {
                g.binop(op, &f, &h);
            }
            let r = g.ite(&f, &h, &k);
            g.ite(&k, &f, &h);
            g.ite(&h, &k, &f);
            let r2 = g.not(&r);
            g.line(&format!("cof {}", r));
            g.evals(&r2, nv, 3);
        }
        g.line("dropall");
    }

    // --- H: eval with more than 16 levels (several u32 blocks of choices), repeated and missing
    // assignments, reversed order
    for ci in 0..(if thorough { 8 } else { 3 }) {
        let nv = 40u32;
        let ord: Vec<u32> = if ci % 2 == 0 { (0..nv).collect() } else { (0..nv).rev().collect() };
        g.start(&format!("blocks-{}", ci), nv, &ord);
        let mut vs: Vec<u32> = vec![0, 15, 16, 17, 31, 32, 33, 39];
        for _ in 0..3 {
            vs.push(g.rng.below(nv as u64) as u32);
        }
        let mut fs = Vec::new();
        for &v in &vs {
            let h = format!("x{}_{}", v, g.fresh(""));
            g.line(&format!("var {} {}", h, v));
            fs.push(h);
        }
        for _ in 0..20 {
            let a = g.rng.pick(&fs).clone();
            let b = g.rng.pick(&fs).clone();
            let op = *g.rng.pick(&OPS);
            let r = g.binop(op, &a, &b);
            fs.push(r.clone());
            g.evals(&r, nv, 6);
            for _ in 0..4 {
                let mut s = format!("evalp {}", r);
                for _ in 0..g.rng.range(0, 8) {
                    let v = if g.rng.chance(2, 3) { *g.rng.pick(&vs) } else { g.rng.below(nv as u64) as u32 };
                    s.push_str(&format!(" {}:{}", v, g.rng.below(3)));
                }
                g.line(&s);
            }
        }
        g.line("dropall");
    }

    // --- malformed lines: both sides must answer `bad-op` and keep their state
    g.line("case malformed");
    g.line("const cf f");
    g.line("mgr x");
    g.line("mgr 65");
    g.line("mgr 2");
    g.line("mgr 2");
    g.line("const cf f");
    g.line("const cf f");
    g.line("const cx x");
    g.line("var x0 0");
    g.line("order 1 0");
    g.line("order 0");
    g.line("var x2 2");
    g.line("var x1 1");
    g.line("op r1 andd x0 x1");
    g.line("op r1 and x0 x9");
    g.line("op x0 and x0 x1");
    g.line("ite r2 x0 x1");
    g.line("ite r2 x0 x1 x7");
    g.line("node n1 0 x1 x1 cf");
    g.line("node n2 1 x0 cf cf");
    g.line("node n3 1 x1 cf cf");
    g.line("node n4 5 cf cf cf");
    g.line("eval x0 0");
    g.line("eval x0 03");
    g.line("eval x0 021");
    g.line("eval zz 02");
    g.line("evalp x0 0:3");
    g.line("evalp x0 2:1");
    g.line("evalp x0 0:1:2");
    g.line("evalp x0 00:1");
    g.line("evalp x0 0:2 0:0");
    g.line("cof zz");
    g.line("drop zz");
    g.line("not r3 zz");
    g.line("frobnicate");
    g.line("op r4 and x0 x1");
    g.line("dropall");
}

fn make(_f: &BTreeMap<String, String>) -> Box<dyn Scenario> {
    Box::new(Tdd { mref: None, nvars: 0, handles: HashMap::new() })
}

fn main() {
    harness_main(generate, make)
}
