//! C11 — TDD operations are the pointwise lifting of one fixed three-valued logic.
//!
//! Protocol `tdd` (one canonical output line per operation line, same format as the Lean driver
//! `OxiddModel/Tdd/Driver.lean`):
//!
//! ```text
//! mgr <nvars>                      -> ok
//! order <v>* [seq=1]               -> <l2v0> <l2v1> …   (set_var_order / set_var_order_seq with live nodes; distinct
//!                                                       variables, total or partial)
//! clone <h> <a>                    -> ok
//! gc                               -> <inner nodes stored after the collection>
//! eq <a> <b>                       -> 1 | 0
//! count <h>                        -> <node_count>
//! const <h> f|t|u                  -> <tree>
//! var <h> <v>                      -> <tree>
//! node <h> <v> <ht> <hu> <he>      -> <tree>            (TDDRules::reduce + insert; children strictly below v)
//! not|enot|notowned|notownedf <h> <a>   -> <tree>
//! op|eop <h> <opname> <a> <b>      -> <tree>
//! ite|eite <h> <a> <b> <c>         -> <tree>
//! eval <h> <digits>                -> F|U|T             (digit k = value of variable k: 0 false, 1 unknown, 2 true)
//! evalp <h> (<v>:<digit>)*         -> F|U|T             (partial / repeated assignment, in the given order)
//! cof <h>                          -> <t> <u> <e> | none
//! drop <h>                         -> ok
//! dropall                          -> <inner nodes left after dropping every handle and gc>
//! ```
//! Trees: `T | U | F | (v<k> <t> <u> <e>)` with variable numbers. Anything else: `bad-op`.
//!
//! `op`/`not`/`ite` use the function-level API of the derived wrapper `oxidd::tdd::TDDFunction`,
//! `eop`/`enot`/`eite`/`notowned` the edge-level API (`*_edge`) through `with_manager_shared`.
//!
//! Oracles (all on the real code, independent of the Lean model): the value table of every result
//! over all three-valued assignments equals the property's truth table applied to the operands'
//! value tables; `eval` equals an independent walk over `cofactors()`; the cofactors are the
//! restrictions; results are ordered and reduced; after `dropall` no inner node is left.
//! Histories (C01, C03, C05, C08 on TDDs): every new handle is compared with every live handle
//! (handle equality <=> equal value table); `gc` leaves exactly the nodes reachable from live handles,
//! returns before - after and changes no value table; `order` establishes the requested relative
//! order, keeps the value table of every live handle over all 3^n assignments and leaves a store
//! that passes the structural audit through the public API; `count` equals the size of the reduced
//! diagram computed from the value table alone.
use oxidd::tdd::{TDDFunction, TDDManagerRef};
use oxidd::{Function, Manager, ManagerRef, TVLFunction};
use oxidd_core::util::AllocResult;
use oxidd_core::{DiagramRules, HasLevel, LevelNo, Node, VarNo};
use oxv::*;
use std::collections::{BTreeMap, HashMap};
use std::io::Write;

// ------------------------------------------------------------------------------------------------
// the three-valued logic of the property text, values 0 = false, 1 = unknown, 2 = true

type V = u8;

fn v_not(a: V) -> V {
    2 - a
}
/// Kleene strong conjunction / disjunction: minimum / maximum in the order false < unknown < true
fn v_and(a: V, b: V) -> V {
    a.min(b)
}
fn v_or(a: V, b: V) -> V {
    a.max(b)
}
/// Łukasiewicz implication: min(1, 1 - a + b) on {0, 1/2, 1}
fn v_imp(a: V, b: V) -> V {
    (2 + b as i32 - a as i32).min(2) as V
}
/// Łukasiewicz equivalence: 1 - |a - b|
fn v_equiv(a: V, b: V) -> V {
    (2 - (a as i32 - b as i32).abs()) as V
}
fn v_bin(op: &str, a: V, b: V) -> V {
    match op {
        "and" => v_and(a, b),
        "or" => v_or(a, b),
        "nand" => v_not(v_and(a, b)),
        "nor" => v_not(v_or(a, b)),
        "xor" => v_not(v_equiv(a, b)),
        "equiv" => v_equiv(a, b),
        "imp" => v_imp(a, b),
        "imp_strict" => v_not(v_imp(b, a)),
        _ => unreachable!(),
    }
}
/// "ite(a,b,c) is b if b = c or a is true, c if a is false, and for unknown a: or(a,c) if a = b,
/// and(a,b) if a = c, unknown otherwise"
fn v_ite(a: V, b: V, c: V) -> V {
    if b == c || a == 2 {
        b
    } else if a == 0 {
        c
    } else if a == b {
        v_or(a, c)
    } else if a == c {
        v_and(a, b)
    } else {
        1
    }
}
fn v_of(o: Option<bool>) -> V {
    match o {
        Some(false) => 0,
        None => 1,
        Some(true) => 2,
    }
}
fn opt_of(v: V) -> Option<bool> {
    match v {
        0 => Some(false),
        1 => None,
        _ => Some(true),
    }
}
fn v_str(v: V) -> &'static str {
    match v {
        0 => "F",
        1 => "U",
        _ => "T",
    }
}

const OPS: [&str; 8] = ["and", "or", "nand", "nor", "xor", "equiv", "imp", "imp_strict"];

// ------------------------------------------------------------------------------------------------

struct Tdd {
    mref: Option<TDDManagerRef>,
    nvars: u32,
    handles: HashMap<String, TDDFunction>,
    /// value table of every live handle over all 3^n assignments (index: digit v = value of
    /// variable v), recorded when the handle was created; only for managers with at most 5 variables
    tables: HashMap<String, Vec<V>>,
}

/// `TDDRules::reduce` + insertion, the primitive node constructor (independent of the connectives)
fn mk_edge<M: Manager>(m: &M, level: LevelNo, t: &M::Edge, u: &M::Edge, e: &M::Edge) -> AllocResult<M::Edge>
where
    M::InnerNode: HasLevel,
{
    let c = [m.clone_edge(t), m.clone_edge(u), m.clone_edge(e)];
    <M::Rules as DiagramRules<_, _, _>>::reduce(m, level, c).then_insert(m, level)
}

fn root_level<M: Manager>(m: &M, e: &M::Edge) -> Option<LevelNo>
where
    M::InnerNode: HasLevel,
{
    match m.get_node(e) {
        Node::Inner(n) => Some(n.level()),
        Node::Terminal(_) => None,
    }
}

/// root variable (None for terminals)
fn root_var(f: &TDDFunction) -> Option<VarNo> {
    f.with_manager_shared(|m, e| root_level(m, e).map(|l| m.level_to_var(l)))
}
fn root_lvl(f: &TDDFunction) -> Option<LevelNo> {
    f.with_manager_shared(|m, e| root_level(m, e))
}

/// which terminal is this (by edge equality with the three terminal edges; 9 = none of them)
fn terminal_value(f: &TDDFunction) -> V {
    f.with_manager_shared(|m, e| {
        let mut r = 9;
        for (k, c) in [TDDFunction::f_edge(m), TDDFunction::u_edge(m), TDDFunction::t_edge(m)].into_iter().enumerate() {
            if &c == e {
                r = k as V;
            }
            m.drop_edge(c);
        }
        r
    })
}

/// canonical decimal number (no sign, no leading zeros)
fn pnat(x: &str) -> Option<u32> {
    x.parse::<u32>().ok().filter(|v| v.to_string() == x)
}

fn tree(f: &TDDFunction, out: &mut String) {
    match f.cofactors() {
        None => out.push_str(v_str(terminal_value(f))),
        Some((t, u, e)) => {
            out.push_str("(v");
            out.push_str(&root_var(f).unwrap().to_string());
            out.push(' ');
            tree(&t, out);
            out.push(' ');
            tree(&u, out);
            out.push(' ');
            tree(&e, out);
            out.push(')');
        }
    }
}
fn tree_str(f: &TDDFunction) -> String {
    let mut s = String::new();
    tree(f, &mut s);
    s
}

/// independent evaluation: walk over `cofactors()` choosing child by the value of the root variable
fn walk(f: &TDDFunction, sigma: &[V]) -> V {
    let mut cur = f.clone();
    loop {
        match cur.cofactors() {
            None => return terminal_value(&cur),
            Some((t, u, e)) => {
                let v = root_var(&cur).unwrap() as usize;
                cur = match sigma[v] {
                    2 => t,
                    1 => u,
                    _ => e,
                };
            }
        }
    }
}

fn support(f: &TDDFunction, acc: &mut Vec<VarNo>) {
    if let Some((t, u, e)) = f.cofactors() {
        let v = root_var(f).unwrap();
        if !acc.contains(&v) {
            acc.push(v);
        }
        support(&t, acc);
        support(&u, acc);
        support(&e, acc);
    }
}

/// ordered (levels strictly increase from the root) and reduced (no node with three equal children)
fn is_nf(f: &TDDFunction) -> bool {
    match f.cofactors() {
        None => true,
        Some((t, u, e)) => {
            let l = root_lvl(f).unwrap();
            if t == u && u == e {
                return false;
            }
            for c in [&t, &u, &e] {
                if let Some(k) = root_lvl(c) {
                    if k <= l {
                        return false;
                    }
                }
                if !is_nf(c) {
                    return false;
                }
            }
            true
        }
    }
}

impl Tdd {
    /// the assignments the oracles enumerate: all of them if the manager has at most 5 variables,
    /// otherwise all over the support of the given functions (at most 5 variables), the others
    /// unknown
    fn assignments(&self, fs: &[&TDDFunction]) -> Vec<Vec<V>> {
        let n = self.nvars as usize;
        let vars: Vec<usize> = if n <= 5 {
            (0..n).collect()
        } else {
            let mut acc = Vec::new();
            for f in fs {
                support(f, &mut acc);
            }
            acc.sort();
            acc.truncate(5);
            acc.into_iter().map(|v| v as usize).collect()
        };
        let mut res = Vec::new();
        let total = 3usize.pow(vars.len() as u32);
        for mut k in 0..total {
            let mut s = vec![1 as V; n];
            for &v in &vars {
                s[v] = (k % 3) as V;
                k /= 3;
            }
            res.push(s);
        }
        res
    }

    /// value by the real `eval`, cross-checked with the independent walk
    fn value(&self, f: &TDDFunction, sigma: &[V], ctx: &mut Ctx) -> V {
        let r = v_of(f.eval(sigma.iter().enumerate().map(|(v, &x)| (v as VarNo, opt_of(x)))));
        let w = walk(f, sigma);
        if r != w {
            ctx.fail(
                "eval-walk",
                &format!("eval of {} under {:?} is {} but following the true/unknown/false children gives {}", tree_str(f), sigma, v_str(r), v_str(w)),
            );
        }
        r
    }

    fn check_nf(&self, f: &TDDFunction, what: &str, ctx: &mut Ctx) {
        if !is_nf(f) {
            ctx.fail("not-normal-form", &format!("{}: result {} is not ordered and reduced", what, tree_str(f)));
        }
    }

    /// value table by the independent walk (cross-checked with `eval`)
    fn table_of(&self, f: &TDDFunction, ctx: &mut Ctx) -> Vec<V> {
        self.assignments(&[]).iter().map(|s| self.value(f, s, ctx)).collect()
    }

    fn define(&mut self, h: &str, f: TDDFunction, ctx: &mut Ctx) -> String {
        let s = tree_str(&f);
        if self.nvars <= 5 {
            let t = self.table_of(&f, ctx);
            // canonicity (C01): equal value tables <=> equal handles, against every live handle
            if self.handles.len() <= 800 {
                for (k, g) in &self.handles {
                    if let Some(tg) = self.tables.get(k) {
                        if (*tg == t) != (*g == f) {
                            ctx.fail(
                                "canonicity",
                                &format!("new handle {} = {} and live handle {} = {}: handles {} but value tables {}", h, s, k, tree_str(g), if *g == f { "equal" } else { "differ" }, if *tg == t { "equal" } else { "differ" }),
                            );
                            break;
                        }
                    }
                }
            }
            self.tables.insert(h.to_string(), t);
        }
        self.handles.insert(h.to_string(), f);
        s
    }

    /// every live handle still has the value table recorded at its creation
    fn check_tables(&self, sig: &str, what: &str, ctx: &mut Ctx) {
        let mut names: Vec<&String> = self.handles.keys().collect();
        names.sort();
        for k in names {
            if let Some(t) = self.tables.get(k) {
                let now = self.table_of(&self.handles[k], ctx);
                if now != *t {
                    let strs = |t: &Vec<V>| t.iter().map(|&v| v_str(v)).collect::<String>();
                    ctx.fail(sig, &format!("{}: handle {} now is {} with value table {} but it was created with {}", what, k, tree_str(&self.handles[k]), strs(&now), strs(t)));
                    return;
                }
            }
        }
    }

    /// inner nodes reachable from the live handles
    fn reachable(&self) -> usize {
        fn go(f: &TDDFunction, seen: &mut std::collections::HashSet<TDDFunction>) {
            if let Some((t, u, e)) = f.cofactors() {
                if seen.insert(f.clone()) {
                    go(&t, seen);
                    go(&u, seen);
                    go(&e, seen);
                }
            }
        }
        let mut seen = std::collections::HashSet::new();
        for f in self.handles.values() {
            go(f, &mut seen);
        }
        seen.len()
    }

    fn l2v(&self) -> Vec<u32> {
        let n = self.nvars;
        self.mref.as_ref().unwrap().with_manager_shared(|m| (0..n).map(|l| m.level_to_var(l)).collect())
    }

    fn audit(&self, what: &str, ctx: &mut Ctx) {
        let n = self.nvars;
        if let Err(msg) = self.mref.as_ref().unwrap().with_manager_shared(|m| audit(m, n)) {
            ctx.fail("audit", &format!("{}: {}", what, msg));
        }
    }
}

/// Structural audit through the public API (C03): every stored node sits in the level view of its
/// level number, its children are on strictly lower levels, it is reduced (not all three children
/// equal), no two nodes of a level have the same children, `num_inner_nodes` is the sum of the
/// level sizes, and `var_to_level`/`level_to_var` are inverse permutations.
fn audit<M: Manager>(m: &M, n: u32) -> Result<usize, String>
where
    M::InnerNode: HasLevel,
{
    use oxidd_core::{Edge, InnerNode, LevelView};
    if m.num_levels() != n {
        return Err(format!("num_levels() = {} but {} variables were added", m.num_levels(), n));
    }
    let mut total = 0usize;
    for l in 0..n {
        let view = m.level(l);
        if view.level_no() != l {
            return Err(format!("level view {} reports level_no {}", l, view.level_no()));
        }
        let mut seen = std::collections::HashSet::new();
        let mut cnt = 0usize;
        for e in view.iter() {
            cnt += 1;
            let Node::Inner(node) = m.get_node(e) else {
                return Err(format!("level {} stores an edge to a terminal", l));
            };
            if node.level() != l {
                return Err(format!("a node stored at level {} carries level number {}", l, node.level()));
            }
            let mut ids = Vec::new();
            for c in node.children() {
                if let Node::Inner(cn) = m.get_node(&*c) {
                    if cn.level() <= l {
                        return Err(format!("a node at level {} has a child at level {}", l, cn.level()));
                    }
                }
                ids.push(c.node_id());
            }
            if ids.len() != 3 {
                return Err(format!("a node at level {} has {} children", l, ids.len()));
            }
            if ids[0] == ids[1] && ids[1] == ids[2] {
                return Err(format!("a node at level {} has three equal children (not reduced)", l));
            }
            if !seen.insert(ids) {
                return Err(format!("two nodes at level {} have the same children (duplicate)", l));
            }
        }
        if cnt != view.len() {
            return Err(format!("level {}: len() = {} but the iterator yields {} nodes", l, view.len(), cnt));
        }
        total += cnt;
    }
    if total != m.num_inner_nodes() {
        return Err(format!("num_inner_nodes() = {} but the levels hold {} nodes", m.num_inner_nodes(), total));
    }
    for x in 0..n {
        if m.var_to_level(m.level_to_var(x)) != x || m.level_to_var(m.var_to_level(x)) != x {
            return Err(format!("var_to_level / level_to_var are not inverse at {}", x));
        }
    }
    Ok(total)
}

/// number of nodes (inner and terminal) of the reduced ordered TDD of the function with value
/// table `t` (index: digit v = value of variable v) under the order `l2v` — computed on tables only
fn ref_node_count(t: &[V], l2v: &[u32]) -> usize {
    let n = l2v.len();
    // re-index: most significant digit = level 0
    let mut lt = vec![0 as V; t.len()];
    for (i, slot) in lt.iter_mut().enumerate() {
        let mut k = i;
        let mut idx = 0usize;
        for j in (0..n).rev() {
            let d = k % 3;
            k /= 3;
            idx += d * 3usize.pow(l2v[j]);
        }
        *slot = t[idx];
    }
    fn go(sub: &[V], l: usize, nodes: &mut std::collections::HashSet<(usize, Vec<V>)>) {
        if sub.len() == 1 {
            nodes.insert((usize::MAX, sub.to_vec()));
            return;
        }
        let k = sub.len() / 3;
        let (a, b, c) = (&sub[..k], &sub[k..2 * k], &sub[2 * k..]);
        if a == b && b == c {
            go(a, l + 1, nodes);
        } else if nodes.insert((l, sub.to_vec())) {
            go(a, l + 1, nodes);
            go(b, l + 1, nodes);
            go(c, l + 1, nodes);
        }
    }
    let mut nodes = std::collections::HashSet::new();
    go(&lt, 0, &mut nodes);
    nodes.len()
}

fn oom<T>(r: AllocResult<T>) -> Result<T, String> {
    r.map_err(|_| "OOM".to_string())
}

impl Scenario for Tdd {
    fn reset(&mut self) {
        self.handles.clear();
        self.tables.clear();
        self.mref = None;
        self.nvars = 0;
    }

    fn step(&mut self, line: &str, ctx: &mut Ctx) -> String {
        let w = words(line);
        let bad = "bad-op".to_string();
        if w.is_empty() {
            return bad;
        }
        if self.mref.is_none() {
            if w.len() == 2 && w[0] == "mgr" {
                if let Some(n) = pnat(w[1]) {
                    if n <= 64 {
                        let mref = oxidd::tdd::new_manager(1 << 16, 1 << 12, 1);
                        mref.with_manager_exclusive(|m| {
                            m.add_vars(n);
                        });
                        self.mref = Some(mref);
                        self.nvars = n;
                        return "ok".into();
                    }
                }
            }
            return bad;
        }
        let mref = self.mref.clone().unwrap();
        let n = self.nvars;
        let fresh = |s: &Self, h: &str| !s.handles.contains_key(h);
        match (w[0], w.len()) {
            ("order", _) => {
                let mut p = Vec::new();
                let mut seq = false;
                for x in &w[1..] {
                    if x.contains('=') {
                        match *x {
                            "seq=1" => seq = true,
                            "seq=0" => {}
                            _ => return bad,
                        }
                    } else {
                        match pnat(x) {
                            Some(v) if v < n && !p.contains(&v) => p.push(v),
                            _ => return bad,
                        }
                    }
                }
                ctx.count(if seq { "order.seq" } else { "order" });
                ctx.count(if p.len() == n as usize { "order.total" } else { "order.partial" });
                if !self.handles.is_empty() {
                    ctx.count("order.live");
                }
                let before = self.l2v();
                let mut names: Vec<&String> = self.handles.keys().collect();
                names.sort();
                names.truncate(200);
                let trees_before: Vec<String> = names.iter().map(|k| tree_str(&self.handles[*k])).collect();
                mref.with_manager_exclusive(|m| {
                    if seq {
                        oxidd_reorder::set_var_order_seq(m, &p);
                    } else {
                        oxidd_reorder::set_var_order(m, &p);
                    }
                });
                let l2v = self.l2v();
                let changed = names.iter().zip(&trees_before).filter(|(k, t)| tree_str(&self.handles[**k]) != **t).count();
                ctx.add("order.handles-rewritten", changed as u64);
                if l2v != before {
                    ctx.count("order.changed");
                }
                // oracle (C08): the requested relative order is established ...
                let pos = |v: u32| l2v.iter().position(|&x| x == v);
                for q in p.windows(2) {
                    if pos(q[0]) >= pos(q[1]) {
                        ctx.fail("order-not-established", &format!("set_var_order({:?}) from {:?} gives level_to_var {:?}", p, before, l2v));
                        break;
                    }
                }
                // ... every live handle denotes the same function of the variables ...
                self.check_tables("reorder-changed-function", &format!("after set_var_order({:?}) from level_to_var {:?}", p, before), ctx);
                // ... and the store is a well-formed reduced ordered diagram (C03)
                self.audit(line, ctx);
                for f in self.handles.values() {
                    if !is_nf(f) {
                        ctx.fail("not-normal-form", &format!("after `{}`: {} is not ordered and reduced", line, tree_str(f)));
                        break;
                    }
                }
                l2v.iter().map(|v| v.to_string()).collect::<Vec<_>>().join(" ")
            }
            ("const", 3) => {
                if !fresh(self, w[1]) {
                    return bad;
                }
                let (f, want) = mref.with_manager_shared(|m| match w[2] {
                    "f" => (Some(TDDFunction::f(m)), 0),
                    "u" => (Some(TDDFunction::u(m)), 1),
                    "t" => (Some(TDDFunction::t(m)), 2),
                    _ => (None, 0),
                });
                let Some(f) = f else { return bad };
                ctx.count("const");
                for s in self.assignments(&[&f]) {
                    let r = self.value(&f, &s, ctx);
                    if r != want {
                        ctx.fail("const", &format!("constant {} evaluates to {} under {:?}", w[2], v_str(r), s));
                        break;
                    }
                }
                self.define(w[1], f, ctx)
            }
            ("var", 3) => {
                let Some(v) = pnat(w[2]) else { return bad };
                if v >= n || !fresh(self, w[1]) {
                    return bad;
                }
                let f = match oom(mref.with_manager_shared(|m| TDDFunction::var(m, v))) {
                    Ok(f) => f,
                    Err(e) => return e,
                };
                ctx.count("var");
                for s in self.assignments(&[&f]) {
                    let r = self.value(&f, &s, ctx);
                    if r != s[v as usize] {
                        ctx.fail("var", &format!("var {} evaluates to {} under {:?}", v, v_str(r), s));
                        break;
                    }
                }
                self.check_nf(&f, line, ctx);
                self.define(w[1], f, ctx)
            }
            ("node", 6) => {
                let Some(v) = pnat(w[2]) else { return bad };
                let (Some(a), Some(b), Some(c)) = (self.handles.get(w[3]), self.handles.get(w[4]), self.handles.get(w[5])) else {
                    return bad;
                };
                if v >= n || !fresh(self, w[1]) {
                    return bad;
                }
                let r = mref.with_manager_shared(|m| {
                    let l = m.var_to_level(v);
                    for x in [a, b, c] {
                        if let Some(k) = root_level(m, x.as_edge(m)) {
                            if k <= l {
                                return None;
                            }
                        }
                    }
                    Some(mk_edge(m, l, a.as_edge(m), b.as_edge(m), c.as_edge(m)).map(|e| TDDFunction::from_edge(m, e)))
                });
                let Some(r) = r else { return bad };
                let f = match oom(r) {
                    Ok(f) => f,
                    Err(e) => return e,
                };
                ctx.count("node");
                // oracle: the node is the function "case v of true -> a | unknown -> b | false -> c"
                for s in self.assignments(&[&f, a, b, c]) {
                    let want = match s[v as usize] {
                        2 => self.value(a, &s, ctx),
                        1 => self.value(b, &s, ctx),
                        _ => self.value(c, &s, ctx),
                    };
                    let r = self.value(&f, &s, ctx);
                    if r != want {
                        ctx.fail("node", &format!("`{}`: value {} under {:?}, children say {}", line, v_str(r), s, v_str(want)));
                        break;
                    }
                }
                self.check_nf(&f, line, ctx);
                self.define(w[1], f, ctx)
            }
            ("not", 3) | ("enot", 3) | ("notowned", 3) | ("notownedf", 3) => {
                let Some(a) = self.handles.get(w[2]) else { return bad };
                if !fresh(self, w[1]) {
                    return bad;
                }
                ctx.count(w[0]);
                let r = match w[0] {
                    "not" => a.not(),
                    "notownedf" => a.clone().not_owned(),
                    "enot" => a.with_manager_shared(|m, e| TDDFunction::not_edge(m, e).map(|r| TDDFunction::from_edge(m, r))),
                    _ => a.with_manager_shared(|m, e| {
                        let owned = m.clone_edge(e);
                        TDDFunction::not_edge_owned(m, owned).map(|r| TDDFunction::from_edge(m, r))
                    }),
                };
                let f = match oom(r) {
                    Ok(f) => f,
                    Err(e) => return e,
                };
                for s in self.assignments(&[&f, a]) {
                    let want = v_not(self.value(a, &s, ctx));
                    let r = self.value(&f, &s, ctx);
                    if r != want {
                        ctx.fail(
                            "not",
                            &format!("`{}`: not {} = {} has value {} under {:?}, the Kleene table says {}", line, tree_str(a), tree_str(&f), v_str(r), s, v_str(want)),
                        );
                        break;
                    }
                }
                self.check_nf(&f, line, ctx);
                self.define(w[1], f, ctx)
            }
            ("op", 5) | ("eop", 5) => {
                if !OPS.contains(&w[2]) {
                    return bad;
                }
                let (Some(a), Some(b)) = (self.handles.get(w[3]), self.handles.get(w[4])) else { return bad };
                if !fresh(self, w[1]) {
                    return bad;
                }
                ctx.count(&format!("{}.{}", w[0], w[2]));
                let r = if w[0] == "op" {
                    match w[2] {
                        "and" => a.and(b),
                        "or" => a.or(b),
                        "nand" => a.nand(b),
                        "nor" => a.nor(b),
                        "xor" => a.xor(b),
                        "equiv" => a.equiv(b),
                        "imp" => a.imp(b),
                        _ => a.imp_strict(b),
                    }
                } else {
                    a.with_manager_shared(|m, ea| {
                        let eb = b.as_edge(m);
                        let r = match w[2] {
                            "and" => TDDFunction::and_edge(m, ea, eb),
                            "or" => TDDFunction::or_edge(m, ea, eb),
                            "nand" => TDDFunction::nand_edge(m, ea, eb),
                            "nor" => TDDFunction::nor_edge(m, ea, eb),
                            "xor" => TDDFunction::xor_edge(m, ea, eb),
                            "equiv" => TDDFunction::equiv_edge(m, ea, eb),
                            "imp" => TDDFunction::imp_edge(m, ea, eb),
                            _ => TDDFunction::imp_strict_edge(m, ea, eb),
                        };
                        r.map(|r| TDDFunction::from_edge(m, r))
                    })
                };
                let f = match oom(r) {
                    Ok(f) => f,
                    Err(e) => return e,
                };
                // branch statistics of the generator: which kind of operand pair was this
                let kind = |x: &TDDFunction| if root_lvl(x).is_none() { 't' } else { 'n' };
                let rel = match (root_lvl(a), root_lvl(b)) {
                    (Some(x), Some(y)) if x < y => "f-above",
                    (Some(x), Some(y)) if x > y => "g-above",
                    (Some(_), Some(_)) => "same-level",
                    _ => "terminal",
                };
                ctx.count(&format!("pair.{}{}.{}{}", kind(a), kind(b), rel, if a == b { ".equal" } else { "" }));
                for s in self.assignments(&[&f, a, b]) {
                    let (x, y) = (self.value(a, &s, ctx), self.value(b, &s, ctx));
                    let want = v_bin(w[2], x, y);
                    let r = self.value(&f, &s, ctx);
                    if r != want {
                        ctx.fail(
                            &format!("table.{}", w[2]),
                            &format!(
                                "`{}`: {} {} {} = {} has value {} under {:?} where the operands are {} and {}; the table says {}",
                                line, tree_str(a), w[2], tree_str(b), tree_str(&f), v_str(r), s, v_str(x), v_str(y), v_str(want)
                            ),
                        );
                        break;
                    }
                }
                self.check_nf(&f, line, ctx);
                self.define(w[1], f, ctx)
            }
            ("ite", 5) | ("eite", 5) => {
                let (Some(a), Some(b), Some(c)) = (self.handles.get(w[2]), self.handles.get(w[3]), self.handles.get(w[4])) else {
                    return bad;
                };
                if !fresh(self, w[1]) {
                    return bad;
                }
                ctx.count(w[0]);
                let r = if w[0] == "ite" {
                    a.ite(b, c)
                } else {
                    a.with_manager_shared(|m, ea| TDDFunction::ite_edge(m, ea, b.as_edge(m), c.as_edge(m)).map(|r| TDDFunction::from_edge(m, r)))
                };
                let f = match oom(r) {
                    Ok(f) => f,
                    Err(e) => return e,
                };
                let k = |x: &TDDFunction| if root_lvl(x).is_none() { 't' } else { 'n' };
                ctx.count(&format!(
                    "ite.{}{}{}{}{}{}",
                    k(a),
                    k(b),
                    k(c),
                    if b == c { ".g=h" } else { "" },
                    if a == b { ".f=g" } else { "" },
                    if a == c { ".f=h" } else { "" }
                ));
                for s in self.assignments(&[&f, a, b, c]) {
                    let (x, y, z) = (self.value(a, &s, ctx), self.value(b, &s, ctx), self.value(c, &s, ctx));
                    let want = v_ite(x, y, z);
                    let r = self.value(&f, &s, ctx);
                    if r != want {
                        ctx.fail(
                            "table.ite",
                            &format!(
                                "`{}`: ite({}, {}, {}) = {} has value {} under {:?} where the operands are {}, {}, {}; the property says {}",
                                line, tree_str(a), tree_str(b), tree_str(c), tree_str(&f), v_str(r), s, v_str(x), v_str(y), v_str(z), v_str(want)
                            ),
                        );
                        break;
                    }
                }
                self.check_nf(&f, line, ctx);
                self.define(w[1], f, ctx)
            }
            ("eval", 3) => {
                let Some(f) = self.handles.get(w[1]) else { return bad };
                let ds: Vec<V> = w[2].bytes().map(|b| b.wrapping_sub(b'0')).collect();
                if ds.len() != n as usize || ds.iter().any(|&d| d > 2) {
                    return bad;
                }
                ctx.count("eval");
                let r = self.value(f, &ds, ctx);
                v_str(r).into()
            }
            ("evalp", _) if w.len() >= 2 => {
                let Some(f) = self.handles.get(w[1]) else { return bad };
                let mut args = Vec::new();
                for x in &w[2..] {
                    let Some((v, d)) = x.split_once(':') else { return bad };
                    let (Some(v), Some(d)) = (pnat(v), pnat(d)) else { return bad };
                    if v >= n || d > 2 {
                        return bad;
                    }
                    let d = d as u8;
                    args.push((v as VarNo, opt_of(d)));
                }
                ctx.count("evalp");
                // edge-level eval
                let r = f.with_manager_shared(|m, e| TDDFunction::eval_edge(m, e, args.iter().copied()));
                // oracle for the part the property fixes: the *last* value given for a variable counts;
                // compare with the walk whenever every variable of the support is assigned
                let mut sup = Vec::new();
                support(f, &mut sup);
                if sup.iter().all(|v| args.iter().any(|(x, _)| x == v)) {
                    let mut s = vec![1 as V; n as usize];
                    for (v, d) in &args {
                        s[*v as usize] = v_of(*d);
                    }
                    let wv = walk(f, &s);
                    if wv != v_of(r) {
                        ctx.fail("eval-walk", &format!("`{}`: eval_edge gives {} but the children followed under the last values give {}", line, v_str(v_of(r)), v_str(wv)));
                    }
                } else {
                    ctx.count("evalp.partial");
                }
                v_str(v_of(r)).into()
            }
            ("cof", 2) => {
                let Some(f) = self.handles.get(w[1]) else { return bad };
                ctx.count("cof");
                let is_term = root_lvl(f).is_none();
                match f.cofactors() {
                    None => {
                        if !is_term {
                            ctx.fail("cofactors", &format!("cofactors of the inner node {} is None", tree_str(f)));
                        }
                        "none".into()
                    }
                    Some((t, u, e)) => {
                        if is_term {
                            ctx.fail("cofactors", "cofactors of a terminal is Some");
                        }
                        let v = root_var(f).unwrap() as usize;
                        // single-cofactor accessors agree
                        if f.cofactor_true().as_ref() != Some(&t) || f.cofactor_unknown().as_ref() != Some(&u) || f.cofactor_false().as_ref() != Some(&e) {
                            ctx.fail("cofactors", &format!("cofactor_true/unknown/false of {} differ from cofactors()", tree_str(f)));
                        }
                        // the cofactors are the restrictions of the root variable to true / unknown / false
                        'outer: for s in self.assignments(&[f]) {
                            for (val, c) in [(2 as V, &t), (1, &u), (0, &e)] {
                                let mut s2 = s.clone();
                                s2[v] = val;
                                let want = self.value(f, &s2, ctx);
                                let r = self.value(c, &s, ctx);
                                let r2 = self.value(c, &s2, ctx);
                                if r != want || r2 != want {
                                    ctx.fail(
                                        "cofactors",
                                        &format!("cofactor {} of {} is {}: value {} under {:?}, but f with v{}={} gives {}", v_str(val), tree_str(f), tree_str(c), v_str(r), s, v, v_str(val), v_str(want)),
                                    );
                                    break 'outer;
                                }
                            }
                        }
                        format!("{} {} {}", tree_str(&t), tree_str(&u), tree_str(&e))
                    }
                }
            }
            ("clone", 3) => {
                let Some(a) = self.handles.get(w[2]) else { return bad };
                if !fresh(self, w[1]) {
                    return bad;
                }
                ctx.count("clone");
                let f = a.clone();
                if f != *a {
                    ctx.fail("clone", "a cloned handle is not equal to its original");
                }
                if let Some(t) = self.tables.get(w[2]).cloned() {
                    self.tables.insert(w[1].to_string(), t);
                }
                self.handles.insert(w[1].to_string(), f);
                "ok".into()
            }
            ("eq", 3) => {
                let (Some(a), Some(b)) = (self.handles.get(w[1]), self.handles.get(w[2])) else { return bad };
                ctx.count("eq");
                let same = a == b;
                // oracle (C01): handle equality <=> equal value tables
                if let (Some(ta), Some(tb)) = (self.tables.get(w[1]), self.tables.get(w[2])) {
                    if (ta == tb) != same {
                        ctx.fail("canonicity", &format!("`{}`: handles {} = {} and {} = {} are {} but their value tables are {}", line, w[1], tree_str(a), w[2], tree_str(b), if same { "equal" } else { "different" }, if ta == tb { "equal" } else { "different" }));
                    }
                }
                if same { "1".into() } else { "0".into() }
            }
            ("count", 2) => {
                let Some(f) = self.handles.get(w[1]) else { return bad };
                ctx.count("count");
                let c = f.node_count();
                if let Some(t) = self.tables.get(w[1]) {
                    let l2v = self.l2v();
                    let e = ref_node_count(t, &l2v);
                    if c != e {
                        ctx.fail("node-count", &format!("node_count({}) = {} for {} but the reduced diagram of its value table under order {:?} has {} nodes", w[1], c, tree_str(f), l2v, e));
                    }
                }
                c.to_string()
            }
            ("gc", 1) => {
                ctx.count("gc");
                let (before, ret, after) = mref.with_manager_shared(|m| {
                    let before = m.num_inner_nodes();
                    let ret = m.gc();
                    (before, ret, m.num_inner_nodes())
                });
                // oracles (C05): the return value is the number of removed nodes, exactly the nodes
                // reachable from live handles remain, every live handle keeps its function
                if before < after || before - after != ret {
                    ctx.fail("gc-return", &format!("gc() returned {} but num_inner_nodes went from {} to {}", ret, before, after));
                }
                let reach = self.reachable();
                if reach != after {
                    ctx.fail("gc-not-exact", &format!("after gc {} inner nodes are stored but {} are reachable from the live handles", after, reach));
                }
                if ret > 0 {
                    ctx.count("gc.collected");
                }
                self.check_tables("gc-changed-function", "after gc", ctx);
                self.audit(line, ctx);
                after.to_string()
            }
            ("drop", 2) => {
                self.tables.remove(w[1]);
                if self.handles.remove(w[1]).is_some() {
                    "ok".into()
                } else {
                    bad
                }
            }
            ("dropall", 1) => {
                self.handles.clear();
                self.tables.clear();
                ctx.count("dropall");
                let left = mref.with_manager_shared(|m| {
                    m.gc();
                    m.num_inner_nodes()
                });
                if left != 0 {
                    ctx.fail("nodes-left", &format!("{} inner nodes survive after dropping every handle and gc (an edge leaked)", left));
                }
                self.audit(line, ctx);
                left.to_string()
            }
            _ => bad,
        }
    }
}

// ------------------------------------------------------------------------------------------------
// generator

struct Gen<'a> {
    w: &'a mut dyn Write,
    rng: &'a mut Rng,
    k: u64,
}

impl<'a> Gen<'a> {
    fn line(&mut self, s: &str) {
        writeln!(self.w, "{}", s).unwrap();
    }
    fn fresh(&mut self, p: &str) -> String {
        self.k += 1;
        format!("{}{}", p, self.k)
    }
    fn start(&mut self, name: &str, nvars: u32, order: &[u32]) {
        self.line(&format!("case {}", name));
        self.line(&format!("mgr {}", nvars));
        if !order.is_empty() {
            let o: Vec<String> = order.iter().map(|v| v.to_string()).collect();
            self.line(&format!("order {}", o.join(" ")));
        }
        self.line("const cf f");
        self.line("const cu u");
        self.line("const ct t");
    }
    /// the 27 one-variable functions over `v`, as handles `<p>0 … <p>26` (index = 9 t + 3 u + e)
    fn one_var(&mut self, p: &str, v: u32) {
        let c = ["cf", "cu", "ct"];
        for i in 0..27 {
            self.line(&format!("node {}{} {} {} {} {}", p, i, v, c[i / 9], c[(i / 3) % 3], c[i % 3]));
        }
    }
    fn binop(&mut self, op: &str, a: &str, b: &str) -> String {
        let h = self.fresh("r");
        let cmd = if self.rng.chance(1, 3) { "eop" } else { "op" };
        self.line(&format!("{} {} {} {} {}", cmd, h, op, a, b));
        h
    }
    fn ite(&mut self, a: &str, b: &str, c: &str) -> String {
        let h = self.fresh("r");
        let cmd = if self.rng.chance(1, 3) { "eite" } else { "ite" };
        self.line(&format!("{} {} {} {} {}", cmd, h, a, b, c));
        h
    }
    fn not(&mut self, a: &str) -> String {
        let h = self.fresh("r");
        let cmd = *self.rng.pick(&["not", "enot", "notowned", "notownedf"]);
        self.line(&format!("{} {} {}", cmd, h, a));
        h
    }
    fn evals(&mut self, h: &str, nvars: u32, count: u32) {
        for _ in 0..count {
            let ds: String = (0..nvars).map(|_| char::from(b'0' + self.rng.below(3) as u8)).collect();
            self.line(&format!("eval {} {}", h, ds));
        }
    }
    /// `order` line: the sequential variant one time in three
    fn order(&mut self, p: &[u32], _n: u32) {
        let o: Vec<String> = p.iter().map(|v| v.to_string()).collect();
        let seq = if self.rng.chance(1, 3) { " seq=1" } else { "" };
        self.line(&format!("order {}{}", o.join(" "), seq));
    }
    /// a random function over the variables `vars` (top-most first in the *level* order), built bottom-up
    fn random_fn(&mut self, vars: &[u32], p_skip: u64) -> String {
        if vars.is_empty() {
            return (*self.rng.pick(&["cf", "cu", "ct"])).to_string();
        }
        if self.rng.chance(p_skip, 10) {
            return self.random_fn(&vars[1..], p_skip);
        }
        let a = self.random_fn(&vars[1..], p_skip);
        let b = if self.rng.chance(1, 4) { a.clone() } else { self.random_fn(&vars[1..], p_skip) };
        let c = if self.rng.chance(1, 4) { b.clone() } else { self.random_fn(&vars[1..], p_skip) };
        let h = self.fresh("n");
        self.line(&format!("node {} {} {} {} {}", h, vars[0], a, b, c));
        h
    }
}

fn permutations(n: u32) -> Vec<Vec<u32>> {
    fn go(rest: &mut Vec<u32>, cur: &mut Vec<u32>, out: &mut Vec<Vec<u32>>) {
        if rest.is_empty() {
            out.push(cur.clone());
            return;
        }
        for i in 0..rest.len() {
            let v = rest.remove(i);
            cur.push(v);
            go(rest, cur, out);
            cur.pop();
            rest.insert(i, v);
        }
    }
    let mut out = Vec::new();
    go(&mut (0..n).collect(), &mut Vec::new(), &mut out);
    out
}

fn generate(cfg: &GenCfg, rng: &mut Rng, w: &mut dyn Write) {
    let thorough = cfg.thorough;
    let scale = cfg.scale.max(1);
    let mut g = Gen { w, rng, k: 0 };
    let orders2: [&[u32]; 2] = [&[0, 1], &[1, 0]];

    // --- constants, variables, eval, cofactors, every API flavour once (tiny smoke case)
    for (oi, ord) in orders2.iter().enumerate() {
        g.start(&format!("basics-o{}", oi), 2, ord);
        g.line("var x0 0");
        g.line("var x1 1");
        for h in ["cf", "cu", "ct", "x0", "x1"] {
            g.line(&format!("cof {}", h));
            for d in ["00", "01", "02", "10", "11", "12", "20", "21", "22"] {
                g.line(&format!("eval {} {}", h, d));
            }
            for cmd in ["not", "enot", "notowned", "notownedf"] {
                let r = g.fresh("r");
                g.line(&format!("{} {} {}", cmd, r, h));
            }
        }
        g.line("dropall");
    }

    // --- A: every operator on all pairs of the 27 one-variable functions (same variable)
    for (oi, ord) in orders2.iter().enumerate() {
        for op in OPS {
            for v in 0..2u32 {
                g.start(&format!("bin1-{}-o{}-v{}", op, oi, v), 2, ord);
                g.one_var("a", v);
                for i in 0..27 {
                    for j in 0..27 {
                        g.binop(op, &format!("a{}", i), &format!("a{}", j));
                    }
                }
                g.line("dropall");
            }
        }
    }

    // --- B: every operator on all pairs (one-variable function over v0, one over v1), both operand
    // orders, both variable orders
    for (oi, ord) in orders2.iter().enumerate() {
        for op in OPS {
            g.start(&format!("bin11-{}-o{}", op, oi), 2, ord);
            g.one_var("a", 0);
            g.one_var("b", 1);
            for i in 0..27 {
                for j in 0..27 {
                    if thorough || g.rng.chance(1, 2) {
                        g.binop(op, &format!("a{}", i), &format!("b{}", j));
                    }
                    if thorough || g.rng.chance(1, 2) {
                        g.binop(op, &format!("b{}", j), &format!("a{}", i));
                    }
                }
            }
            g.line("dropall");
        }
    }

    // --- C: not on all one-variable functions and on all / a sample of the 3^9 two-variable ones
    for (oi, ord) in orders2.iter().enumerate() {
        g.start(&format!("not-o{}", oi), 2, ord);
        g.one_var("a", ord[1]);
        for i in 0..27 {
            g.not(&format!("a{}", i));
        }
        let top = ord[0];
        let mut cnt = 0;
        for i in 0..27 {
            for j in 0..27 {
                for k in 0..27 {
                    if thorough || g.rng.chance(1, 8) {
                        let h = g.fresh("n");
                        g.line(&format!("node {} {} a{} a{} a{}", h, top, i, j, k));
                        let r = g.not(&h);
                        if g.rng.chance(1, 50) {
                            g.line(&format!("cof {}", r));
                            g.evals(&r, 2, 2);
                        }
                        g.line(&format!("drop {}", h));
                        g.line(&format!("drop {}", r));
                        cnt += 1;
                    }
                }
            }
        }
        let _ = cnt;
        g.line("dropall");
    }

    // --- D: ite over all 27^3 triples of one-variable functions (thorough), a sample (quick)
    for (oi, ord) in orders2.iter().enumerate() {
        for blk in 0..27 {
            g.start(&format!("ite1-o{}-{}", oi, blk), 2, ord);
            g.one_var("a", 0);
            for j in 0..27 {
                for k in 0..27 {
                    if thorough || g.rng.chance(1, 4) || blk == j || blk == k || j == k {
                        g.ite(&format!("a{}", blk), &format!("a{}", j), &format!("a{}", k));
                    }
                }
            }
            g.line("dropall");
        }
    }

    // --- E: ite over one-variable functions on up to three different variables, all 6 orders
    let orders3: [[u32; 3]; 6] = [[0, 1, 2], [0, 2, 1], [1, 0, 2], [1, 2, 0], [2, 0, 1], [2, 1, 0]];
    let n_e = if thorough { 30000 * scale } else { 1200 * scale };
    for (oi, ord) in orders3.iter().enumerate() {
        g.start(&format!("ite111-o{}", oi), 3, ord);
        g.one_var("a", 0);
        g.one_var("b", 1);
        g.one_var("c", 2);
        for _ in 0..n_e / 6 {
            let p = ["a", "b", "c"];
            let f = format!("{}{}", g.rng.pick(&p), g.rng.below(27));
            let gg = format!("{}{}", g.rng.pick(&p), g.rng.below(27));
            let h = format!("{}{}", g.rng.pick(&p), g.rng.below(27));
            let r = g.ite(&f, &gg, &h);
            if g.rng.chance(1, 20) {
                g.line(&format!("cof {}", r));
                g.evals(&r, 3, 2);
            }
        }
        g.line("dropall");
    }

    // --- F: sampled pairs / triples of the 3^9 two-variable functions: all operators, ite, not
    let n_f = if thorough { 50000 * scale } else { 1500 * scale };
    let per_case = 250;
    let mut done = 0;
    let mut ci = 0;
    while done < n_f {
        let ord = orders2[(ci % 2) as usize];
        g.start(&format!("bin2-{}", ci), 2, ord);
        g.one_var("a", ord[1]);
        let top = ord[0];
        for _ in 0..per_case.min(n_f - done) {
            let mut hs = Vec::new();
            for _ in 0..3 {
                let h = g.fresh("n");
                // mostly proper two-variable functions; sometimes share children to hit the shortcuts
                let i = g.rng.below(27);
                let j = if g.rng.chance(1, 6) { i } else { g.rng.below(27) };
                let k = if g.rng.chance(1, 6) { j } else { g.rng.below(27) };
                g.line(&format!("node {} {} a{} a{} a{}", h, top, i, j, k));
                hs.push(h);
            }
            let mut rs = Vec::new();
            for op in OPS {
                let (x, y) = if g.rng.chance(1, 2) { (0, 1) } else { (1, 0) };
                rs.push(g.binop(op, &hs[x], &hs[y]));
            }
            rs.push(g.ite(&hs[0], &hs[1], &hs[2]));
            rs.push(g.ite(&hs[2], &hs[0], &hs[1]));
            rs.push(g.not(&hs[2]));
            // operands equal / terminal / one-variable mixed in
            let z = format!("a{}", g.rng.below(27));
            let op = *g.rng.pick(&OPS);
            rs.push(g.binop(op, &hs[0], &z));
            let op = *g.rng.pick(&OPS);
            rs.push(g.binop(op, &z, &hs[1]));
            let op = *g.rng.pick(&OPS);
            rs.push(g.binop(op, &hs[1], &hs[1]));
            rs.push(g.ite(&hs[0], &hs[0], &hs[1]));
            rs.push(g.ite(&hs[0], &hs[1], &hs[0]));
            rs.push(g.ite(&z, &hs[0], &hs[1]));
            let c = *g.rng.pick(&["cf", "cu", "ct"]);
            rs.push(g.ite(&hs[0], c, &hs[1]));
            let c = *g.rng.pick(&["cf", "cu", "ct"]);
            rs.push(g.ite(&hs[0], &hs[1], c));
            rs.push(g.ite("cu", &hs[0], &hs[1]));
            let c = *g.rng.pick(&["cf", "cu", "ct"]);
            rs.push(g.ite("cu", c, &hs[1]));
            if g.rng.chance(1, 10) {
                let r = g.rng.pick(&rs).clone();
                g.line(&format!("cof {}", r));
                g.evals(&r, 2, 3);
            }
            for h in hs.iter().chain(rs.iter()) {
                g.line(&format!("drop {}", h));
            }
            done += 1;
        }
        g.line("dropall");
        ci += 1;
    }

    // --- G: random functions of three and four variables under random orders
    let n_g = if thorough { 1200 * scale } else { 40 * scale };
    for ci in 0..n_g {
        let nv = 3 + (ci % 2) as u32;
        let mut ord: Vec<u32> = (0..nv).collect();
        g.rng.shuffle(&mut ord);
        g.start(&format!("rand-{}", ci), nv, &ord);
        for _ in 0..12 {
            let skip = g.rng.below(4);
            let f = g.random_fn(&ord, skip);
            let skip = g.rng.below(4);
            let h = g.random_fn(&ord, skip);
            let skip = g.rng.below(6);
            let k = g.random_fn(&ord, skip);
            for op in OPS {
                g.binop(op, &f, &h);
            }
            let r = g.ite(&f, &h, &k);
            g.ite(&k, &f, &h);
            g.ite(&h, &k, &f);
            let r2 = g.not(&r);
            g.line(&format!("cof {}", r));
            g.evals(&r2, nv, 3);
        }
        g.line("dropall");
    }

    // --- H: eval with more than 16 levels (several u32 blocks of choices), repeated and missing
    // assignments, reversed order
    for ci in 0..(if thorough { 8 } else { 3 }) {
        let nv = 40u32;
        let ord: Vec<u32> = if ci % 2 == 0 { (0..nv).collect() } else { (0..nv).rev().collect() };
        g.start(&format!("blocks-{}", ci), nv, &ord);
        let mut vs: Vec<u32> = vec![0, 15, 16, 17, 31, 32, 33, 39];
        for _ in 0..3 {
            vs.push(g.rng.below(nv as u64) as u32);
        }
        let mut fs = Vec::new();
        for &v in &vs {
            let h = format!("x{}_{}", v, g.fresh(""));
            g.line(&format!("var {} {}", h, v));
            fs.push(h);
        }
        for _ in 0..20 {
            let a = g.rng.pick(&fs).clone();
            let b = g.rng.pick(&fs).clone();
            let op = *g.rng.pick(&OPS);
            let r = g.binop(op, &a, &b);
            fs.push(r.clone());
            g.evals(&r, nv, 6);
            for _ in 0..4 {
                let mut s = format!("evalp {}", r);
                for _ in 0..g.rng.range(0, 8) {
                    let v = if g.rng.chance(2, 3) { *g.rng.pick(&vs) } else { g.rng.below(nv as u64) as u32 };
                    s.push_str(&format!(" {}:{}", v, g.rng.below(3)));
                }
                g.line(&s);
            }
        }
        g.line("dropall");
    }

    // --- R1: all 27 one-variable functions of every variable alive while going through all orders
    // (total, partial, sequential variant), with gc / count / eq in between and operations afterwards
    for n in [2u32, 3] {
        for rep in 0..(if thorough { 6 } else { 2 }) {
            g.start(&format!("reorder1-n{}-{}", n, rep), n, &[]);
            let pre = ["a", "b", "c"];
            for v in 0..n {
                g.one_var(pre[v as usize], v);
            }
            let mut perms = permutations(n);
            g.rng.shuffle(&mut perms);
            let mut perms2 = permutations(n);
            g.rng.shuffle(&mut perms2);
            perms.extend(perms2);
            for (i, p) in perms.iter().enumerate() {
                g.order(p, n);
                let h = format!("{}{}", pre[g.rng.below(n as u64) as usize], g.rng.below(27));
                g.line(&format!("count {}", h));
                if i % 3 == 0 {
                    g.line("gc");
                }
                let h2 = format!("{}{}", pre[g.rng.below(n as u64) as usize], g.rng.below(27));
                g.line(&format!("eq {} {}", h, h2));
                // operations on the reordered diagrams (results across two levels)
                for _ in 0..6 {
                    let x = format!("{}{}", pre[g.rng.below(n as u64) as usize], g.rng.below(27));
                    let y = format!("{}{}", pre[g.rng.below(n as u64) as usize], g.rng.below(27));
                    let op = *g.rng.pick(&OPS);
                    let r = g.binop(op, &x, &y);
                    if g.rng.chance(1, 2) {
                        g.line(&format!("drop {}", r));
                    }
                }
            }
            g.line("gc");
            g.line("dropall");
        }
    }

    // --- R2: sampled two- and three-variable functions alive while going through the orders
    let n_r2 = if thorough { 120 * scale } else { 16 * scale };
    for ci in 0..n_r2 {
        let n = 2 + (ci % 3) as u32; // 2, 3, 4 variables
        let mut cur: Vec<u32> = (0..n).collect();
        g.rng.shuffle(&mut cur);
        g.start(&format!("reorder2-{}", ci), n, &cur);
        let mut pool = Vec::new();
        for _ in 0..(if n == 2 { 40 } else { 14 }) {
            // functions over two (sometimes three) of the variables, in the current level order
            let mut vs: Vec<u32> = cur.clone();
            while vs.len() > 2 + g.rng.below(2) as usize {
                let i = g.rng.below(vs.len() as u64) as usize;
                vs.remove(i);
            }
            let f = g.random_fn(&vs, 0);
            pool.push(f);
        }
        let mut perms = permutations(n);
        g.rng.shuffle(&mut perms);
        perms.truncate(8);
        for p in &perms {
            g.order(p, n);
            for _ in 0..3 {
                let h = g.rng.pick(&pool).clone();
                g.line(&format!("count {}", h));
            }
            let (x, y) = (g.rng.pick(&pool).clone(), g.rng.pick(&pool).clone());
            g.line(&format!("eq {} {}", x, y));
            if g.rng.chance(1, 2) {
                g.line("gc");
            }
            for _ in 0..4 {
                let (x, y, z) = (g.rng.pick(&pool).clone(), g.rng.pick(&pool).clone(), g.rng.pick(&pool).clone());
                let op = *g.rng.pick(&OPS);
                let r = g.binop(op, &x, &y);
                let r2 = g.ite(&x, &y, &z);
                if g.rng.chance(1, 3) {
                    pool.push(r);
                } else {
                    g.line(&format!("drop {}", r));
                }
                g.line(&format!("drop {}", r2));
            }
            // drop a few so that the next collection has something to do
            for _ in 0..2 {
                if pool.len() > 6 {
                    let i = g.rng.below(pool.len() as u64) as usize;
                    let h = pool.swap_remove(i);
                    g.line(&format!("drop {}", h));
                }
            }
        }
        g.line("gc");
        g.line("dropall");
    }

    // --- R3: random histories over 2-4 variables mixing operations, clone/drop, gc and reorderings
    let n_h = if thorough { 500 * scale } else { 50 * scale };
    let steps = if thorough { 160 } else { 70 };
    for ci in 0..n_h {
        let n = 2 + (ci % 3) as u32;
        g.start(&format!("hist-{}", ci), n, &[]);
        let mut known: Option<Vec<u32>> = Some((0..n).collect());
        let mut pool: Vec<String> = vec!["cf".into(), "cu".into(), "ct".into()];
        for v in 0..n {
            let h = g.fresh("x");
            g.line(&format!("var {} {}", h, v));
            pool.push(h);
        }
        for _ in 0..steps {
            if pool.len() < 3 {
                let h = g.fresh("x");
                let v = g.rng.below(n as u64);
                g.line(&format!("var {} {}", h, v));
                pool.push(h);
                let h = g.fresh("k");
                let c = *g.rng.pick(&["f", "u", "t"]);
                g.line(&format!("const {} {}", h, c));
                pool.push(h);
            }
            let k = g.rng.below(100);
            if k < 30 {
                let (x, y) = (g.rng.pick(&pool).clone(), g.rng.pick(&pool).clone());
                let op = *g.rng.pick(&OPS);
                let r = g.binop(op, &x, &y);
                pool.push(r);
            } else if k < 35 {
                let x = g.rng.pick(&pool).clone();
                let r = g.not(&x);
                pool.push(r);
            } else if k < 45 {
                let (x, y, z) = (g.rng.pick(&pool).clone(), g.rng.pick(&pool).clone(), g.rng.pick(&pool).clone());
                let r = g.ite(&x, &y, &z);
                pool.push(r);
            } else if k < 53 {
                if let Some(cur) = known.clone() {
                    let skip = g.rng.below(4);
                    let r = g.random_fn(&cur, skip);
                    pool.push(r);
                }
            } else if k < 58 {
                let x = g.rng.pick(&pool).clone();
                let r = g.fresh("c");
                g.line(&format!("clone {} {}", r, x));
                pool.push(r);
            } else if k < 72 {
                let i = g.rng.below(pool.len() as u64) as usize;
                let h = pool.swap_remove(i);
                g.line(&format!("drop {}", h));
            } else if k < 78 {
                g.line("gc");
            } else if k < 88 {
                let mut p: Vec<u32> = (0..n).collect();
                g.rng.shuffle(&mut p);
                if g.rng.chance(2, 5) {
                    let keep = g.rng.below(n as u64) as usize;
                    p.truncate(keep.max(if g.rng.chance(1, 4) { 0 } else { 2 }).min(n as usize));
                }
                known = if p.len() == n as usize { Some(p.clone()) } else { None };
                g.order(&p, n);
            } else if k < 93 {
                let (x, y) = (g.rng.pick(&pool).clone(), g.rng.pick(&pool).clone());
                g.line(&format!("eq {} {}", x, y));
            } else if k < 97 {
                let x = g.rng.pick(&pool).clone();
                g.line(&format!("count {}", x));
            } else {
                let x = g.rng.pick(&pool).clone();
                g.evals(&x, n, 2);
                g.line(&format!("cof {}", x));
            }
        }
        g.line("gc");
        g.line("dropall");
    }

    // --- malformed lines: both sides must answer `bad-op` and keep their state
    g.line("case malformed");
    g.line("const cf f");
    g.line("mgr x");
    g.line("mgr 65");
    g.line("mgr 2");
    g.line("mgr 2");
    g.line("const cf f");
    g.line("const cf f");
    g.line("const cx x");
    g.line("var x0 0");
    g.line("order 1 0");
    g.line("order 0");
    g.line("var x2 2");
    g.line("var x1 1");
    g.line("op r1 andd x0 x1");
    g.line("op r1 and x0 x9");
    g.line("op x0 and x0 x1");
    g.line("ite r2 x0 x1");
    g.line("ite r2 x0 x1 x7");
    g.line("node n1 0 x1 x1 cf");
    g.line("node n2 1 x0 cf cf");
    g.line("node n3 1 x1 cf cf");
    g.line("node n4 5 cf cf cf");
    g.line("eval x0 0");
    g.line("eval x0 03");
    g.line("eval x0 021");
    g.line("eval zz 02");
    g.line("evalp x0 0:3");
    g.line("evalp x0 2:1");
    g.line("evalp x0 0:1:2");
    g.line("evalp x0 00:1");
    g.line("evalp x0 0:2 0:0");
    g.line("cof zz");
    g.line("drop zz");
    g.line("not r3 zz");
    g.line("frobnicate");
    g.line("order 0 0");
    g.line("order 5");
    g.line("order 0 1 par=1");
    g.line("order 1 0 seq=1");
    g.line("eq x0");
    g.line("eq x0 zz");
    g.line("count zz");
    g.line("count x0 x1");
    g.line("clone x0 x1");
    g.line("clone q1 zz");
    g.line("clone q1 x1");
    g.line("eq q1 x1");
    g.line("gc 1");
    g.line("gc");
    g.line("op r4 and x0 x1");
    g.line("dropall");
}

fn make(_f: &BTreeMap<String, String>) -> Box<dyn Scenario> {
    Box::new(Tdd { mref: None, nvars: 0, handles: HashMap::new(), tables: HashMap::new() })
}

fn main() {
    harness_main(generate, make)
}
