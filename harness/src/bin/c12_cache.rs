//! C12, cache half: ONE long-lived `SatCountCache` driven through histories of builds, clones, drops,
//! collections, reorderings, `add_vars`, flips of `cache_all` and counts with varying `vars`, on the
//! real index-based BDD manager (one worker thread). Protocol `countcache`; the Lean side is
//! `OxiddModel/Bdd/DriverCountS.lean`, which runs the id-store model `CountS.lean` (the model of
//! `PropertiesC12S.lean`) on the same lines.
//!
//! After every `count` line the result AND the content of the (public) cache map are printed: the
//! map size before and after the call and, for every cached `NodeID`, the level and a structural
//! hash of the canonical tree of that node together with the stored number, sorted. Which nodes
//! get cached depends on `cache_all || ref_count() > 1`, so the model has to predict the reference
//! counts (live handles + stored parents, dead parents included until collected) exactly.
//!
//! Functions are built from truth tables by Shannon expansion *in the current level order*
//! (`var(v).ite(hi, lo)` bottom-up, skipping equal cofactors). This creates exactly the nodes of
//! the result plus the variable nodes `(l, T, F)` of the levels it mentions, which is what the
//! model does, so the stores agree node for node (`nodes=` is compared on every line).
//!
//! Oracles (independent of the model):
//!  * `count`: the result equals the number of ones of the handle's expected truth table times
//!    `2^(vars-n)`;
//!  * `cache-entry`: after the call every entry of the map is the count of the function of the
//!    node with that id (read off the unique tables, dead nodes included), i.e. `CacheOK`;
//!  * `cache-entry-dangling`: every cached id names a node of the unique tables;
//!  * `build`: the built diagram has the expected truth table (node-by-node walk).
use oxidd::bdd::{BDDFunction, BDDManagerRef};
use oxidd::util::SatCountCache;
use oxidd::{BooleanFunction, Edge, Function, HasLevel, InnerNode, Manager, ManagerRef, Node};
use oxidd_core::LevelView;
use oxidd_core::util::num::Saturating;
use oxidd_rules_bdd::simple::BDDTerminal;
use oxv::*;
use std::collections::{BTreeMap, HashMap};
use std::io::Write;

type Cache = SatCountCache<Saturating<u64>, std::hash::RandomState>;

struct Sc {
    mref: Option<BDDManagerRef>,
    n: u32,
    h: BTreeMap<String, (BDDFunction, Vec<bool>)>,
    cache: Cache,
    last_gc_count: u64,
}

fn mix(l: u64, a: u64, b: u64) -> u64 {
    let mut h = (l + 3).wrapping_mul(0x0000_0100_0000_01B3);
    h = (h ^ a).wrapping_mul(0x9E37_79B9_7F4A_7C15);
    h = (h ^ (b >> 7) ^ (b << 13)).wrapping_mul(0xC2B2_AE3D_27D4_EB4F);
    h ^ (h >> 29)
}

fn is_true<M: Manager<Terminal = BDDTerminal>>(m: &M, e: &M::Edge) -> Option<bool> {
    match m.get_node(e) {
        Node::Terminal(t) => Some(*std::borrow::Borrow::<BDDTerminal>::borrow(&t) == BDDTerminal::True),
        Node::Inner(_) => None,
    }
}

fn tree<M: Manager<Terminal = BDDTerminal>>(m: &M, e: &M::Edge) -> String
where
    M::InnerNode: HasLevel,
{
    match m.get_node(e) {
        Node::Terminal(_) => if is_true(m, e).unwrap() { "T".into() } else { "F".into() },
        Node::Inner(n) => format!("({} {} {})", n.level(), tree(m, &n.child(0)), tree(m, &n.child(1))),
    }
}

fn hash<M: Manager<Terminal = BDDTerminal>>(m: &M, e: &M::Edge, memo: &mut HashMap<usize, u64>) -> u64
where
    M::InnerNode: HasLevel,
{
    match m.get_node(e) {
        Node::Terminal(_) => if is_true(m, e).unwrap() { 1 } else { 2 },
        Node::Inner(n) => {
            let id = e.node_id();
            if let Some(&h) = memo.get(&id) {
                return h;
            }
            let a = hash(m, &n.child(0), memo);
            let b = hash(m, &n.child(1), memo);
            let h = mix(n.level() as u64, a, b);
            memo.insert(id, h);
            h
        }
    }
}

/// value of the function of edge `e` under assignment `a` (bit `v` = variable `v`)
fn walk<M: Manager<Terminal = BDDTerminal>>(m: &M, e: &M::Edge, a: usize) -> bool
where
    M::InnerNode: HasLevel,
{
    match m.get_node(e) {
        Node::Terminal(_) => is_true(m, e).unwrap(),
        Node::Inner(n) => {
            let v = m.level_to_var(n.level());
            let c = if (a >> v) & 1 != 0 { n.child(0) } else { n.child(1) };
            walk(m, &c, a)
        }
    }
}

fn parse_tt(hex: &str, n: u32) -> Option<Vec<bool>> {
    let len = 1usize << n;
    let mut tt = vec![false; len];
    for (i, c) in hex.chars().enumerate() {
        let d = c.to_digit(16)? as usize;
        for j in 0..4 {
            let a = 4 * i + j;
            if a < len {
                tt[a] = (d >> j) & 1 != 0;
            } else if (d >> j) & 1 != 0 {
                return None;
            }
        }
    }
    if hex.len() * 4 < len {
        return None;
    }
    Some(tt)
}

fn tt_hex(tt: &[bool]) -> String {
    let mut s = String::new();
    let mut i = 0;
    while i < tt.len() {
        let mut d = 0;
        for j in 0..4 {
            if i + j < tt.len() && tt[i + j] {
                d |= 1 << j;
            }
        }
        s.push(std::char::from_digit(d, 16).unwrap());
        i += 4;
    }
    s
}

fn build(m: &<BDDFunction as Function>::Manager<'_>, tt: &[bool], l2v: &[u32], level: usize, assign: usize) -> BDDFunction {
    if level == l2v.len() {
        return if tt[assign] { BDDFunction::t(m) } else { BDDFunction::f(m) };
    }
    let v = l2v[level];
    let hi = build(m, tt, l2v, level + 1, assign | (1 << v));
    let lo = build(m, tt, l2v, level + 1, assign);
    if hi == lo {
        return hi;
    }
    BDDFunction::var(m, v).unwrap().ite(&hi, &lo).unwrap()
}


/// `racegc <pairs> <rounds>`: the interleaving of `count_during_collection_wrong`
/// (PropertiesC12S.lean) on the real code, on a manager of its own. A ballast of more than
/// `2^(pairs+1)` dead nodes on the upper levels keeps the collector (second thread, manager held
/// shared) busy; as soon as `gc_count` has advanced this thread counts `g` = AND of the four bottom
/// variables with a `cache_all` cache and drops it; the collector then reaches the bottom levels and
/// frees `g`; afterwards `h` = OR of the same variables is built in the recycled slots and counted
/// through the same cache. Oracle: `count(h) = 15 * 2^(2*pairs)`.
fn race_gc(pairs: u32, rounds: u32, ctx: &mut Ctx) {
    let top = 2 * pairs;
    let vars = top + 4;
    let mref = oxidd::bdd::new_manager(1 << 23, 1 << 16, 1);
    mref.with_manager_exclusive(|m| {
        m.add_vars(vars);
    });
    let xs: Vec<BDDFunction> = mref.with_manager_shared(|m| (0..vars).map(|v| BDDFunction::var(m, v).unwrap()).collect());
    for round in 0..rounds {
        let mut cache: Cache = Cache::default();
        cache.cache_all = true;
        let mut b = xs[0].and(&xs[pairs as usize]).unwrap();
        for i in 1..pairs as usize {
            b = b.or(&xs[i].and(&xs[i + pairs as usize]).unwrap()).unwrap();
        }
        let t = top as usize;
        let g = xs[t].and(&xs[t + 1]).unwrap().and(&xs[t + 2]).unwrap().and(&xs[t + 3]).unwrap();
        drop(b);
        let e0 = mref.with_manager_shared(|m| m.gc_count());
        let done = std::sync::atomic::AtomicBool::new(false);
        let (cg, in_window) = std::thread::scope(|sc| {
            let doner = &done;
            let mr = &mref;
            let h = sc.spawn(move || {
                mr.with_manager_shared(|m| m.gc());
                doner.store(true, std::sync::atomic::Ordering::SeqCst);
            });
            while mref.with_manager_shared(|m| m.gc_count()) == e0 && !done.load(std::sync::atomic::Ordering::SeqCst) {
                std::hint::spin_loop();
            }
            let cg = g.sat_count(vars, &mut cache).0;
            drop(g);
            let in_window = !done.load(std::sync::atomic::Ordering::SeqCst);
            h.join().unwrap();
            (cg, in_window)
        });
        ctx.count(if in_window { "race_count_during_collection" } else { "race_count_after_collection" });
        if cg != 1u64 << top {
            ctx.fail("count-during-collection", &format!("round {round}: sat_count(AND of 4 variables, {vars}) = {cg}, expected {}", 1u64 << top));
        }
        let h = xs[t].or(&xs[t + 1]).unwrap().or(&xs[t + 2]).unwrap().or(&xs[t + 3]).unwrap();
        let ch = h.sat_count(vars, &mut cache).0;
        if ch != 15u64 << top {
            ctx.fail(
                "count-during-collection",
                &format!("round {round}: a count ran while a collection on another thread was between its gc_count increment and the sweep of the counted nodes (in window: {in_window}); the handle was dropped, the collection freed its nodes, OR of 4 variables was built in the recycled slots: sat_count through the same cache = {ch}, expected {}", 15u64 << top),
            );
        }
        drop(h);
        mref.with_manager_shared(|m| m.gc());
    }
}

impl Sc {
    fn mref(&self) -> &BDDManagerRef {
        self.mref.as_ref().expect("no manager")
    }
    fn nodes(&self) -> usize {
        self.mref().with_manager_shared(|m| m.num_inner_nodes())
    }
    /// did `gc_count` advance since the last line that asked?
    fn bump(&mut self) -> u32 {
        let g = self.mref().with_manager_shared(|m| m.gc_count());
        let b = (g != self.last_gc_count) as u32;
        self.last_gc_count = g;
        b
    }
}

impl Scenario for Sc {
    fn reset(&mut self) {
        self.h.clear();
        self.mref = None;
        self.n = 0;
        self.cache = Cache::default();
        self.last_gc_count = 0;
    }

    fn step(&mut self, line: &str, ctx: &mut Ctx) -> String {
        let w = words(line);
        match w[0] {
            "mgr" if w.len() == 2 => {
                let Ok(n) = w[1].parse::<u32>() else { return "bad-op".into() };
                if self.mref.is_some() || n > 12 {
                    return "bad-op".into();
                }
                let mref = oxidd::bdd::new_manager(1 << 16, 1 << 10, 1);
                mref.with_manager_exclusive(|m| {
                    m.add_vars(n);
                });
                self.mref = Some(mref);
                self.n = n;
                "ok".into()
            }
            "racegc" if w.len() == 3 => {
                let (Ok(pairs), Ok(rounds)) = (w[1].parse::<u32>(), w[2].parse::<u32>()) else { return "bad-op".into() };
                if pairs < 2 || pairs > 20 {
                    return "bad-op".into();
                }
                race_gc(pairs, rounds, ctx);
                "ok".into()
            }
            _ if self.mref.is_none() => "bad-op".into(),
            "build" if w.len() == 3 => {
                let Some(tt) = parse_tt(w[2], self.n) else { return "bad-op".into() };
                if self.h.contains_key(w[1]) {
                    return "bad-op".into();
                }
                let (f, t) = self.mref().with_manager_shared(|m| {
                    let l2v: Vec<u32> = (0..m.num_levels()).map(|l| m.level_to_var(l)).collect();
                    let f = build(m, &tt, &l2v, 0, 0);
                    let t = tree(m, f.as_edge(m));
                    for a in 0..tt.len() {
                        if walk(m, f.as_edge(m), a) != tt[a] {
                            ctx.fail("build", &format!("{}: the built diagram differs from the table at assignment {:#b}", line, a));
                            break;
                        }
                    }
                    (f, t)
                });
                ctx.count("build");
                self.h.insert(w[1].to_string(), (f, tt));
                format!("{} nodes={}", t, self.nodes())
            }
            "clone" if w.len() == 3 => {
                let Some((f, tt)) = self.h.get(w[1]).cloned() else { return "bad-op".into() };
                if self.h.contains_key(w[2]) {
                    return "bad-op".into();
                }
                self.h.insert(w[2].to_string(), (f, tt));
                "ok".into()
            }
            "drop" if w.len() == 2 => {
                if self.h.remove(w[1]).is_none() {
                    return "bad-op".into();
                }
                ctx.count("drop");
                "ok".into()
            }
            "gc" if w.len() == 1 => {
                let before = self.nodes();
                self.mref().with_manager_shared(|m| m.gc());
                let after = self.nodes();
                if after < before {
                    ctx.count("gc_freed_nodes");
                }
                ctx.count("gc");
                let b = self.bump();
                format!("nodes={} bump={}", after, b)
            }
            "reorder" if w.len() == 2 => {
                let order: Vec<u32> = match w[1].split(',').map(|s| s.parse::<u32>()).collect() {
                    Ok(o) => o,
                    Err(_) => return "bad-op".into(),
                };
                let mut chk = order.clone();
                chk.sort();
                if chk != (0..self.n).collect::<Vec<_>>() {
                    return "bad-op".into();
                }
                self.bump();
                self.mref().with_manager_exclusive(|m| oxidd_reorder::set_var_order(m, &order));
                let b = self.bump();
                if b == 1 {
                    ctx.count("reorder_changed");
                } else {
                    ctx.count("reorder_same");
                }
                // the handles must still denote their functions
                for (k, (f, tt)) in &self.h {
                    let ok = f.with_manager_shared(|m, e| (0..tt.len()).all(|a| walk(m, e, a) == tt[a]));
                    if !ok {
                        ctx.fail("reorder-changed-function", &format!("handle {} denotes another function after {}", k, line));
                    }
                }
                let l2v: Vec<String> = self.mref().with_manager_shared(|m| (0..m.num_levels()).map(|l| m.level_to_var(l).to_string()).collect());
                format!("nodes={} bump={} order={}", self.nodes(), b, l2v.join(","))
            }
            "addvars" if w.len() == 2 => {
                let Ok(k) = w[1].parse::<u32>() else { return "bad-op".into() };
                if self.n + k > 12 {
                    return "bad-op".into();
                }
                self.mref().with_manager_exclusive(|m| {
                    m.add_vars(k);
                });
                let old = 1usize << self.n;
                self.n += k;
                let new = 1usize << self.n;
                for (_, tt) in self.h.values_mut() {
                    let t2: Vec<bool> = (0..new).map(|a| tt[a % old]).collect();
                    *tt = t2;
                }
                ctx.count("addvars");
                let b = self.bump();
                format!("n={} bump={}", self.n, b)
            }
            "cacheall" if w.len() == 2 => {
                self.cache.cache_all = w[1] == "1";
                "ok".into()
            }
            "newcache" if w.len() == 1 => {
                let all = self.cache.cache_all;
                self.cache = Cache::default();
                self.cache.cache_all = all;
                ctx.count("newcache");
                "ok".into()
            }
            "count" if w.len() == 3 => {
                // (no clone of the handle: it would change the reference count of the root)
                let Some((f, tt)) = self.h.get(w[1]) else { return "bad-op".into() };
                let tt = tt.clone();
                let Ok(vars) = w[2].parse::<u32>() else { return "bad-op".into() };
                if vars < self.n || vars > 40 {
                    return "bad-op".into();
                }
                let before = self.cache.map.len();
                let c = f.sat_count(vars, &mut self.cache).0;
                let after = self.cache.map.len();
                // oracle 1: the count
                let ones = tt.iter().filter(|&&b| b).count() as u64;
                let expected = ones << (vars - self.n);
                if c != expected {
                    ctx.fail("count", &format!("sat_count({} = {}, {}) through the long-lived cache = {}, expected {}", w[1], tt_hex(&tt), vars, c, expected));
                }
                ctx.count("count");
                ctx.count(if self.cache.cache_all { "count_cache_all" } else { "count_indegree_rule" });
                if before > 0 && after >= before && before != after {
                    ctx.count("count_cache_grown");
                }
                if before > 0 && after < before {
                    ctx.count("count_cache_cleared_visibly");
                }
                if vars > self.n {
                    ctx.count("count_vars_gt_n");
                }
                // the cache content
                let n = self.n;
                let mut entries: Vec<String> = Vec::new();
                let cache = &self.cache;
                self.mref().with_manager_shared(|m| {
                    let mut by_id: HashMap<usize, <<BDDFunction as Function>::Manager<'_> as Manager>::Edge> = HashMap::new();
                    for view in m.levels() {
                        for e in view.iter() {
                            by_id.insert(e.node_id(), m.clone_edge(e));
                        }
                    }
                    let mut memo = HashMap::new();
                    for (id, num) in cache.map.iter() {
                        match by_id.get(&(*id as usize)) {
                            None => {
                                ctx.fail("cache-entry-dangling", &format!("after `{}` the cache holds node id {} which is in no unique table", line, id));
                                entries.push(format!("dangling={}", num.0));
                            }
                            Some(e) => {
                                // oracle 2: the entry is the count of the node's function
                                let ones = (0..(1usize << n)).filter(|&a| walk(m, e, a)).count() as u64;
                                let exp = ones << (vars - n);
                                if num.0 != exp {
                                    ctx.fail("cache-entry", &format!("after `{}` the cache maps the node {} to {}, its function has {} models", line, tree(m, e), num.0, exp));
                                }
                                let lvl = match m.get_node(e) {
                                    Node::Inner(nd) => nd.level(),
                                    _ => u32::MAX,
                                };
                                entries.push(format!("{}:{:016x}={}", lvl, hash(m, e, &mut memo), num.0));
                            }
                        }
                    }
                    for (_, e) in by_id.drain() {
                        m.drop_edge(e);
                    }
                });
                entries.sort();
                if entries.len() > 1 {
                    ctx.count("count_cache_multi_entry");
                }
                format!("count={} before={} after={} cache={}", c, before, after, entries.join(","))
            }
            _ => "bad-op".into(),
        }
    }
}

// ------------------------------------------------------------------------------------------------
// generator

fn rand_tt(rng: &mut Rng, n: u32, style: u64) -> Vec<bool> {
    let len = 1usize << n;
    match style {
        // uniformly random
        0 => (0..len).map(|_| rng.chance(1, 2)).collect(),
        // sparse / dense
        1 => (0..len).map(|_| rng.chance(1, 6)).collect(),
        2 => (0..len).map(|_| rng.chance(5, 6)).collect(),
        // parity of a random subset (every node shared)
        3 => {
            let mask = rng.below(len as u64) as usize | 1;
            (0..len).map(|a| (a & mask).count_ones() % 2 == 1).collect()
        }
        // threshold
        4 => {
            let k = rng.range(1, n as u64) as u32;
            (0..len).map(|a| (a as u32).count_ones() >= k).collect()
        }
        // conjunction / disjunction of a subset
        5 => {
            let mask = rng.below(len as u64) as usize | 1;
            (0..len).map(|a| a & mask == mask).collect()
        }
        6 => {
            let mask = rng.below(len as u64) as usize | 1;
            (0..len).map(|a| a & mask != 0).collect()
        }
        // depends on few variables only
        _ => {
            let mask = rng.below(len as u64) as usize & rng.below(len as u64) as usize;
            let t: Vec<bool> = (0..len).map(|_| rng.chance(1, 2)).collect();
            (0..len).map(|a| t[a & mask]).collect()
        }
    }
}

struct Gen {
    n: u32,
    live: Vec<(String, Vec<bool>)>,
    next: u32,
    garbage: bool,
    order: Vec<u32>,
}

impl Gen {
    fn new_name(&mut self) -> String {
        self.next += 1;
        format!("f{}", self.next)
    }
    fn build(&mut self, rng: &mut Rng, w: &mut dyn Write) {
        let style = rng.below(8);
        let mut tt = rand_tt(rng, self.n, style);
        // sometimes a relative of a live function: same table with one cofactor replaced
        if !self.live.is_empty() && rng.chance(1, 3) {
            let base = rng.pick(&self.live).1.clone();
            let v = rng.below(self.n as u64) as usize;
            let b = rng.chance(1, 2);
            tt = (0..base.len()).map(|a| if ((a >> v) & 1 != 0) == b { base[a] } else { tt[a] }).collect();
        }
        let name = self.new_name();
        writeln!(w, "build {} {}", name, tt_hex(&tt)).unwrap();
        self.live.push((name, tt));
        self.garbage = true; // variable nodes may be left behind
    }
    fn count(&mut self, rng: &mut Rng, w: &mut dyn Write) {
        if self.live.is_empty() {
            return;
        }
        let name = rng.pick(&self.live).0.clone();
        let vars = self.n + *rng.pick(&[0u32, 0, 0, 1, 5]);
        writeln!(w, "count {} {}", name, vars).unwrap();
    }
    fn gc(&mut self, w: &mut dyn Write) {
        writeln!(w, "gc").unwrap();
        self.garbage = false;
    }
    fn reorder(&mut self, rng: &mut Rng, w: &mut dyn Write) {
        if self.garbage {
            self.gc(w);
            // counts between the collection and the reordering: the cache is current when the
            // reordering re-issues node ids
            for _ in 0..rng.range(1, 3) {
                self.count(rng, w);
            }
        }
        let mut o = self.order.clone();
        if rng.chance(1, 8) {
            // same order: no reordering takes place, the cache stays
        } else if rng.chance(1, 2) {
            let i = rng.below(o.len() as u64 - 1) as usize;
            o.swap(i, i + 1);
        } else {
            rng.shuffle(&mut o);
        }
        writeln!(w, "reorder {}", o.iter().map(|v| v.to_string()).collect::<Vec<_>>().join(",")).unwrap();
        self.order = o;
    }
}

fn generate(cfg: &GenCfg, rng: &mut Rng, w: &mut dyn Write) {
    if cfg.extra.get("suite").map(|s| s == "race").unwrap_or(false) {
        // oracle-only: a count inside a collection that runs on another thread
        writeln!(w, "case race-count-during-collection").unwrap();
        writeln!(w, "racegc 17 {}", if cfg.thorough { 12 } else { 4 }).unwrap();
        return;
    }
    // fixed cases: the patterns of the negative witnesses of PropertiesC12S.lean
    // (b) ids recycled by a collection
    writeln!(w, "case fixed-recycle").unwrap();
    writeln!(w, "mgr 3").unwrap();
    writeln!(w, "cacheall 1").unwrap();
    writeln!(w, "build g 08").unwrap(); // x0 & x1 & x2
    writeln!(w, "count g 3").unwrap();
    writeln!(w, "drop g").unwrap();
    writeln!(w, "gc").unwrap();
    writeln!(w, "build h ef").unwrap(); // x0 | x1 | x2
    writeln!(w, "count h 3").unwrap();
    // (a) vars changed, then back, with a collection in between
    writeln!(w, "case fixed-vars").unwrap();
    writeln!(w, "mgr 3").unwrap();
    writeln!(w, "cacheall 1").unwrap();
    writeln!(w, "build g 8e").unwrap(); // majority
    writeln!(w, "count g 3").unwrap();
    writeln!(w, "gc").unwrap();
    writeln!(w, "count g 8").unwrap();
    writeln!(w, "count g 3").unwrap();
    writeln!(w, "count g 4").unwrap();
    writeln!(w, "count g 4").unwrap();
    // reordering between two counts, no collection in between
    writeln!(w, "case fixed-reorder").unwrap();
    writeln!(w, "mgr 4").unwrap();
    writeln!(w, "build g 8888").unwrap(); // x0 & x1
    writeln!(w, "build k 888f").unwrap(); // x0 & x1 | x2 & x3
    writeln!(w, "gc").unwrap();
    writeln!(w, "cacheall 1").unwrap();
    writeln!(w, "count k 4").unwrap();
    writeln!(w, "reorder 0,2,1,3").unwrap();
    writeln!(w, "count k 4").unwrap();
    writeln!(w, "count g 4").unwrap();
    writeln!(w, "reorder 3,2,1,0").unwrap();
    writeln!(w, "count g 4").unwrap();
    writeln!(w, "count k 9").unwrap();
    // in-degree rule: a node shared by two handles is cached, an unshared one is not
    writeln!(w, "case fixed-indegree").unwrap();
    writeln!(w, "mgr 3").unwrap();
    writeln!(w, "build a 08").unwrap(); // x0 & x1 & x2
    writeln!(w, "count a 3").unwrap();
    writeln!(w, "clone a b").unwrap();
    writeln!(w, "count a 3").unwrap();
    writeln!(w, "build c 0c").unwrap(); // x1 & x2: a node of `a`
    writeln!(w, "count a 3").unwrap();
    writeln!(w, "drop b").unwrap();
    writeln!(w, "drop c").unwrap();
    writeln!(w, "count a 4").unwrap();
    writeln!(w, "newcache").unwrap();
    writeln!(w, "count a 4").unwrap();
    // malformed lines
    writeln!(w, "case fixed-bad").unwrap();
    writeln!(w, "count a 3").unwrap();
    writeln!(w, "mgr 3").unwrap();
    writeln!(w, "mgr 3").unwrap();
    writeln!(w, "build a 1ff").unwrap();
    writeln!(w, "build a 8").unwrap();
    writeln!(w, "count a 2").unwrap();
    writeln!(w, "drop a").unwrap();
    writeln!(w, "reorder 0,1").unwrap();
    writeln!(w, "frobnicate").unwrap();

    let cases = (if cfg.thorough { 400 } else { 60 }) * cfg.scale;
    for ci in 0..cases {
        let n = rng.range(3, if cfg.thorough { 8 } else { 7 }) as u32;
        writeln!(w, "case rnd-{}-n{}", ci, n).unwrap();
        writeln!(w, "mgr {}", n).unwrap();
        let mut g = Gen { n, live: Vec::new(), next: 0, garbage: false, order: (0..n).collect() };
        if rng.chance(1, 2) {
            writeln!(w, "cacheall 1").unwrap();
        }
        let steps = rng.range(15, if cfg.thorough { 60 } else { 40 });
        for _ in 0..steps {
            let r = rng.below(100);
            if g.live.is_empty() || r < 22 {
                if g.live.len() < 6 {
                    g.build(rng, w);
                } else {
                    g.count(rng, w);
                }
            } else if r < 60 {
                g.count(rng, w);
            } else if r < 70 {
                let i = rng.below(g.live.len() as u64) as usize;
                let (name, _) = g.live.remove(i);
                writeln!(w, "drop {}", name).unwrap();
                g.garbage = true;
            } else if r < 75 {
                let (name, tt) = rng.pick(&g.live).clone();
                let n2 = g.new_name();
                writeln!(w, "clone {} {}", name, n2).unwrap();
                g.live.push((n2, tt));
            } else if r < 83 {
                g.gc(w);
            } else if r < 89 {
                g.reorder(rng, w);
            } else if r < 92 {
                if g.n < 10 {
                    let k = rng.range(1, 2) as u32;
                    writeln!(w, "addvars {}", k).unwrap();
                    let old = 1usize << g.n;
                    g.n += k;
                    for v in g.order.len() as u32..g.n {
                        g.order.push(v);
                    }
                    let new = 1usize << g.n;
                    for (_, tt) in g.live.iter_mut() {
                        *tt = (0..new).map(|a| tt[a % old]).collect();
                    }
                }
            } else if r < 98 {
                writeln!(w, "cacheall {}", rng.below(2)).unwrap();
            } else {
                writeln!(w, "newcache").unwrap();
            }
        }
    }
}

fn make(_f: &BTreeMap<String, String>) -> Box<dyn Scenario> {
    Box::new(Sc { mref: None, n: 0, h: BTreeMap::new(), cache: Cache::default(), last_gc_count: 0 })
}

fn main() {
    harness_main(generate, make)
}
