//! C12, cache half, for the other two Boolean kinds: ONE long-lived `SatCountCache` driven through
//! histories of builds, clones, drops, collections, reorderings (BCDD), `add_vars`, flips of
//! `cache_all` and counts with varying `vars`, on the real index-based managers (one worker thread).
//!
//! `--kind bcdd` (protocol `countcache-bcdd`, Lean side `OxiddModel/Bcdd/DriverCountS.lean`, model
//! `Bcdd/CountS.lean` + `Bcdd/CountSHistory.lean`) and `--kind zbdd` (protocol `countcache-zbdd`,
//! `OxiddModel/Zbdd/DriverCountS.lean`, model `Zbdd/CountS.lean`). The flag is needed by `gen` and
//! by `run`.
//!
//! After every `count` line the result AND the content of the (public) cache map are printed: the
//! map size before and after the call and, for every key, the level and a structural hash of the
//! canonical tree of the node, (BCDD) the tag bit of the key, and the stored number, sorted. Which
//! nodes get cached depends on `cache_all || ref_count() > 1`, so the model has to predict the
//! reference counts (live handles + stored parents, dead parents included until collected, for
//! ZBDDs also the manager's tautology chain) exactly.
//!
//! BCDD: functions are built from truth tables by Shannon expansion in the current level order
//! (`var(v).ite(hi, lo)` bottom-up, skipping equal cofactors): creates exactly the nodes of the
//! result plus the variable nodes `(l, T, ~T)` of the levels it mentions. `not h h2` makes a
//! complemented handle on the same node.
//! ZBDD: families are built from membership tables (bit `a` of the table = "the set `a` is in the
//! family") by `make_node(singleton(v), hi, lo)` bottom-up in the level order (`hi` empty: `lo`):
//! creates exactly the nodes of the result plus the singleton nodes `(l, B, E)` of the levels it
//! mentions. ZBDDs are not reordered with live nodes (known defect `KF-zbdd-reorder`);
//! `reordernop` is `Manager::reorder(|_| ())`, which tears the tautology chain down, rebuilds it and
//! advances `gc_count`.
//!
//! Oracles (independent of the model):
//!  * `count`: BCDD: ones of the handle's table times `2^(vars-n)`; ZBDD: members of the family,
//!    shifted left by `vars - n` or right by `n - vars`;
//!  * `cache-entry`: after the call every entry of the map is the count of the function of the node
//!    with that id under the key's tag (BCDD) / the number of members of the family of that node
//!    (ZBDD), obtained by evaluating the node under all assignments;
//!  * `cache-entry-dangling`: every cached id names a node of the unique tables;
//!  * `build`: the built diagram has the expected table (node-by-node walk);
//!  * `reorder-changed-function`, `addvars-changed-family`.
use oxidd::bcdd::{BCDDFunction, BCDDManagerRef};
use oxidd::util::SatCountCache;
use oxidd::zbdd::{ZBDDFunction, ZBDDManagerRef};
use oxidd::{BooleanFunction, BooleanVecSet, Edge, Function, HasLevel, InnerNode, Manager, ManagerRef, Node};
use oxidd_core::LevelView;
use oxidd_core::util::num::Saturating;
use oxidd_rules_bdd::complement_edge::EdgeTag;
use oxidd_rules_zbdd::ZBDDTerminal;
use oxv::*;
use std::collections::{BTreeMap, HashMap};
use std::io::Write;

type Cache = SatCountCache<Saturating<u64>, std::hash::RandomState>;
type BM<'id> = <BCDDFunction as Function>::Manager<'id>;
type BE<'id> = <BM<'id> as Manager>::Edge;
type ZM<'id> = <ZBDDFunction as Function>::Manager<'id>;
type ZE<'id> = <ZM<'id> as Manager>::Edge;

const TAG_BIT: usize = 1usize << (usize::BITS - 1);

fn mix(l: u64, a: u64, b: u64) -> u64 {
    let mut h = (l + 3).wrapping_mul(0x0000_0100_0000_01B3);
    h = (h ^ a).wrapping_mul(0x9E37_79B9_7F4A_7C15);
    h = (h ^ (b >> 7) ^ (b << 13)).wrapping_mul(0xC2B2_AE3D_27D4_EB4F);
    h ^ (h >> 29)
}

fn parse_tt(hex: &str, n: u32) -> Option<Vec<bool>> {
    let len = 1usize << n;
    let mut tt = vec![false; len];
    for (i, c) in hex.chars().enumerate() {
        let d = c.to_digit(16)? as usize;
        for j in 0..4 {
            let a = 4 * i + j;
            if a < len {
                tt[a] = (d >> j) & 1 != 0;
            } else if (d >> j) & 1 != 0 {
                return None;
            }
        }
    }
    if hex.len() * 4 < len {
        return None;
    }
    Some(tt)
}

fn tt_hex(tt: &[bool]) -> String {
    let mut s = String::new();
    let mut i = 0;
    while i < tt.len() {
        let mut d = 0;
        for j in 0..4 {
            if i + j < tt.len() && tt[i + j] {
                d |= 1 << j;
            }
        }
        s.push(std::char::from_digit(d, 16).unwrap());
        i += 4;
    }
    s
}

// ------------------------------------------------------------------------------------------------
// BCDD

fn b_neg<'id>(e: &BE<'id>) -> bool {
    e.tag() == EdgeTag::Complemented
}

fn b_tree<'id>(m: &BM<'id>, e: &BE<'id>) -> String {
    let neg = if b_neg(e) { "~" } else { "" };
    match m.get_node(e) {
        Node::Terminal(_) => format!("{neg}T"),
        Node::Inner(n) => format!("{neg}({} {} {})", n.level(), b_tree(m, &n.child(0)), b_tree(m, &n.child(1))),
    }
}

/// structural hash of the *node* an edge points to (the tag of `e` itself is ignored)
fn b_hash<'id>(m: &BM<'id>, e: &BE<'id>, memo: &mut HashMap<usize, u64>) -> u64 {
    match m.get_node(e) {
        Node::Terminal(_) => 1,
        Node::Inner(n) => {
            let id = e.node_id();
            if let Some(&h) = memo.get(&id) {
                return h;
            }
            let (t, el) = (n.child(0), n.child(1));
            let a = b_hash(m, &t, memo);
            let b = b_hash(m, &el, memo);
            let h = mix(2 * n.level() as u64 + b_neg(&el) as u64, a, b);
            memo.insert(id, h);
            h
        }
    }
}

/// value of the function of edge `e` (tag included) under assignment `a` (bit `v` = variable `v`)
fn b_walk<'id>(m: &BM<'id>, e: &BE<'id>, a: usize) -> bool {
    let neg = b_neg(e);
    match m.get_node(e) {
        Node::Terminal(_) => !neg,
        Node::Inner(n) => {
            let v = m.level_to_var(n.level());
            let c = if (a >> v) & 1 != 0 { n.child(0) } else { n.child(1) };
            b_walk(m, &c, a) != neg
        }
    }
}

fn b_build(m: &BM<'_>, tt: &[bool], l2v: &[u32], level: usize, assign: usize) -> BCDDFunction {
    if level == l2v.len() {
        return if tt[assign] { BCDDFunction::t(m) } else { BCDDFunction::f(m) };
    }
    let v = l2v[level];
    let hi = b_build(m, tt, l2v, level + 1, assign | (1 << v));
    let lo = b_build(m, tt, l2v, level + 1, assign);
    if hi == lo {
        return hi;
    }
    BCDDFunction::var(m, v).unwrap().ite(&hi, &lo).unwrap()
}


// ------------------------------------------------------------------------------------------------
// `racegc <pairs> <rounds>`: the interleaving of `count_during_collection_wrong` on the real code
// (known finding `KF-countcache-during-collection`; `Manager::gc` and `SatCountCache` are shared by
// all rule sets), on a manager of its own. A ballast of dead nodes on the upper levels keeps the
// collector (second thread, manager held shared) busy; as soon as `gc_count` has advanced this
// thread counts `g` (nodes on the four bottom levels only) with a `cache_all` cache and drops it;
// the collector then reaches the bottom levels and frees `g`; afterwards `h` is built in the
// recycled slots and counted through the same cache.

/// BCDD: `g` = AND, `h` = OR of the four bottom variables; `count(h) = 15 * 2^(2*pairs)`
fn race_gc_bcdd(pairs: u32, rounds: u32, ctx: &mut Ctx) {
    let top = 2 * pairs;
    let vars = top + 4;
    let mref = oxidd::bcdd::new_manager(1 << 23, 1 << 16, 1);
    mref.with_manager_exclusive(|m| {
        m.add_vars(vars);
    });
    let xs: Vec<BCDDFunction> = mref.with_manager_shared(|m| (0..vars).map(|v| BCDDFunction::var(m, v).unwrap()).collect());
    for round in 0..rounds {
        let mut cache: Cache = Cache::default();
        cache.cache_all = true;
        let mut b = xs[0].and(&xs[pairs as usize]).unwrap();
        for i in 1..pairs as usize {
            b = b.or(&xs[i].and(&xs[i + pairs as usize]).unwrap()).unwrap();
        }
        let t = top as usize;
        let g = xs[t].and(&xs[t + 1]).unwrap().and(&xs[t + 2]).unwrap().and(&xs[t + 3]).unwrap();
        drop(b);
        let e0 = mref.with_manager_shared(|m| m.gc_count());
        let done = std::sync::atomic::AtomicBool::new(false);
        let (cg, in_window) = std::thread::scope(|sc| {
            let doner = &done;
            let mr = &mref;
            let h = sc.spawn(move || {
                mr.with_manager_shared(|m| m.gc());
                doner.store(true, std::sync::atomic::Ordering::SeqCst);
            });
            while mref.with_manager_shared(|m| m.gc_count()) == e0 && !done.load(std::sync::atomic::Ordering::SeqCst) {
                std::hint::spin_loop();
            }
            let cg = g.sat_count(vars, &mut cache).0;
            drop(g);
            let in_window = !done.load(std::sync::atomic::Ordering::SeqCst);
            h.join().unwrap();
            (cg, in_window)
        });
        ctx.count(if in_window { "race_count_during_collection" } else { "race_count_after_collection" });
        if cg != 1u64 << top {
            ctx.fail("count-during-collection", &format!("round {round}: sat_count(AND of 4 variables, {vars}) = {cg}, expected {}", 1u64 << top));
        }
        let h = xs[t].or(&xs[t + 1]).unwrap().or(&xs[t + 2]).unwrap().or(&xs[t + 3]).unwrap();
        let ch = h.sat_count(vars, &mut cache).0;
        if ch != 15u64 << top {
            ctx.count("race_wrong_count");
            ctx.fail(
                "count-during-collection",
                &format!("bcdd round {round}: a count ran while a collection on another thread was between its gc_count increment and the sweep of the counted nodes (in window: {in_window}); the handle was dropped, the collection freed its nodes, OR of 4 variables was built in the recycled slots: sat_count through the same cache = {ch}, expected {}", 15u64 << top),
            );
        }
        drop(h);
        mref.with_manager_shared(|m| m.gc());
    }
}

/// ZBDD: `g` = `{{a,b,c,d}}`, `h` = `{{a},{b},{c},{d}}` over the four bottom variables, built with
/// `make_node` (nodes on the four bottom levels only); counted with `vars = num_levels`: 1 and 4
fn race_gc_zbdd(pairs: u32, rounds: u32, ctx: &mut Ctx) {
    let top = 2 * pairs;
    let vars = top + 4;
    let mref = oxidd::zbdd::new_manager(1 << 23, 1 << 16, 1);
    mref.with_manager_exclusive(|m| {
        m.add_vars(vars);
    });
    // Boolean variables (don't-care chains) for the ballast only
    let xs: Vec<ZBDDFunction> = mref.with_manager_shared(|m| (0..top).map(|v| <ZBDDFunction as BooleanFunction>::var(m, v).unwrap()).collect());
    let chain = |one_set: bool| -> ZBDDFunction {
        mref.with_manager_shared(|m| {
            let mut acc = if one_set { ZBDDFunction::base(m) } else { ZBDDFunction::empty(m) };
            for v in (top..vars).rev() {
                let var = ZBDDFunction::singleton(m, v).unwrap();
                let (hi, lo) = if one_set { (acc.clone(), ZBDDFunction::empty(m)) } else { (ZBDDFunction::base(m), acc.clone()) };
                let e = oxidd::zbdd::make_node(m, var.as_edge(m), m.clone_edge(hi.as_edge(m)), m.clone_edge(lo.as_edge(m))).unwrap();
                acc = ZBDDFunction::from_edge(m, e);
            }
            acc
        })
    };
    for round in 0..rounds {
        let mut cache: Cache = Cache::default();
        cache.cache_all = true;
        let mut b = xs[0].and(&xs[pairs as usize]).unwrap();
        for i in 1..pairs as usize {
            b = b.or(&xs[i].and(&xs[i + pairs as usize]).unwrap()).unwrap();
        }
        let g = chain(true);
        drop(b);
        let e0 = mref.with_manager_shared(|m| m.gc_count());
        let done = std::sync::atomic::AtomicBool::new(false);
        let (cg, in_window) = std::thread::scope(|sc| {
            let doner = &done;
            let mr = &mref;
            let h = sc.spawn(move || {
                mr.with_manager_shared(|m| m.gc());
                doner.store(true, std::sync::atomic::Ordering::SeqCst);
            });
            while mref.with_manager_shared(|m| m.gc_count()) == e0 && !done.load(std::sync::atomic::Ordering::SeqCst) {
                std::hint::spin_loop();
            }
            let cg = g.sat_count(vars, &mut cache).0;
            drop(g);
            let in_window = !done.load(std::sync::atomic::Ordering::SeqCst);
            h.join().unwrap();
            (cg, in_window)
        });
        ctx.count(if in_window { "race_count_during_collection" } else { "race_count_after_collection" });
        if cg != 1 {
            ctx.fail("count-during-collection", &format!("round {round}: sat_count of a one-set family = {cg}, expected 1"));
        }
        let h = chain(false);
        let ch = h.sat_count(vars, &mut cache).0;
        if ch != 4 {
            ctx.count("race_wrong_count");
            ctx.fail(
                "count-during-collection",
                &format!("zbdd round {round}: a count ran while a collection on another thread was between its gc_count increment and the sweep of the counted nodes (in window: {in_window}); the handle was dropped, the collection freed its nodes, the family of the 4 singletons was built in the recycled slots: sat_count through the same cache = {ch}, expected 4"),
            );
        }
        drop(h);
        mref.with_manager_shared(|m| m.gc());
    }
}

struct ScB {
    mref: Option<BCDDManagerRef>,
    n: u32,
    h: BTreeMap<String, (BCDDFunction, Vec<bool>)>,
    cache: Cache,
    last_gc_count: u64,
}

impl ScB {
    fn mref(&self) -> &BCDDManagerRef {
        self.mref.as_ref().expect("no manager")
    }
    fn nodes(&self) -> usize {
        self.mref().with_manager_shared(|m| m.num_inner_nodes())
    }
    fn bump(&mut self) -> u32 {
        let g = self.mref().with_manager_shared(|m| m.gc_count());
        let b = (g != self.last_gc_count) as u32;
        self.last_gc_count = g;
        b
    }
}

impl Scenario for ScB {
    fn reset(&mut self) {
        self.h.clear();
        self.mref = None;
        self.n = 0;
        self.cache = Cache::default();
        self.last_gc_count = 0;
    }

    fn step(&mut self, line: &str, ctx: &mut Ctx) -> String {
        let w = words(line);
        match w[0] {
            "mgr" if w.len() == 2 => {
                let Ok(n) = w[1].parse::<u32>() else { return "bad-op".into() };
                if self.mref.is_some() || n > 12 {
                    return "bad-op".into();
                }
                let mref = oxidd::bcdd::new_manager(1 << 16, 1 << 10, 1);
                mref.with_manager_exclusive(|m| {
                    m.add_vars(n);
                });
                self.mref = Some(mref);
                self.n = n;
                "ok".into()
            }
            "racegc" if w.len() == 3 => {
                let (Ok(pairs), Ok(rounds)) = (w[1].parse::<u32>(), w[2].parse::<u32>()) else { return "bad-op".into() };
                if pairs < 2 || pairs > 20 {
                    return "bad-op".into();
                }
                race_gc_bcdd(pairs, rounds, ctx);
                "ok".into()
            }
            _ if self.mref.is_none() => "bad-op".into(),
            "build" if w.len() == 3 => {
                let Some(tt) = parse_tt(w[2], self.n) else { return "bad-op".into() };
                if self.h.contains_key(w[1]) {
                    return "bad-op".into();
                }
                let (f, t) = self.mref().with_manager_shared(|m| {
                    let l2v: Vec<u32> = (0..m.num_levels()).map(|l| m.level_to_var(l)).collect();
                    let f = b_build(m, &tt, &l2v, 0, 0);
                    let t = b_tree(m, f.as_edge(m));
                    for a in 0..tt.len() {
                        if b_walk(m, f.as_edge(m), a) != tt[a] {
                            ctx.fail("build", &format!("{}: the built diagram differs from the table at assignment {:#b}", line, a));
                            break;
                        }
                    }
                    if b_neg(f.as_edge(m)) {
                        ctx.count("build_complemented_root");
                    }
                    (f, t)
                });
                ctx.count("build");
                self.h.insert(w[1].to_string(), (f, tt));
                format!("{} nodes={}", t, self.nodes())
            }
            "not" if w.len() == 3 => {
                let Some((f, tt)) = self.h.get(w[1]).cloned() else { return "bad-op".into() };
                if self.h.contains_key(w[2]) {
                    return "bad-op".into();
                }
                let g = f.not().unwrap();
                drop(f);
                let t2: Vec<bool> = tt.iter().map(|b| !b).collect();
                self.h.insert(w[2].to_string(), (g, t2));
                ctx.count("not");
                "ok".into()
            }
            "clone" if w.len() == 3 => {
                let Some((f, tt)) = self.h.get(w[1]).cloned() else { return "bad-op".into() };
                if self.h.contains_key(w[2]) {
                    return "bad-op".into();
                }
                self.h.insert(w[2].to_string(), (f, tt));
                "ok".into()
            }
            "drop" if w.len() == 2 => {
                if self.h.remove(w[1]).is_none() {
                    return "bad-op".into();
                }
                ctx.count("drop");
                "ok".into()
            }
            "gc" if w.len() == 1 => {
                let before = self.nodes();
                self.mref().with_manager_shared(|m| m.gc());
                let after = self.nodes();
                if after < before {
                    ctx.count("gc_freed_nodes");
                }
                ctx.count("gc");
                let b = self.bump();
                format!("nodes={} bump={}", after, b)
            }
            "reorder" if w.len() == 2 => {
                let order: Vec<u32> = match w[1].split(',').map(|s| s.parse::<u32>()).collect() {
                    Ok(o) => o,
                    Err(_) => return "bad-op".into(),
                };
                let mut chk = order.clone();
                chk.sort();
                if chk != (0..self.n).collect::<Vec<_>>() {
                    return "bad-op".into();
                }
                self.bump();
                self.mref().with_manager_exclusive(|m| oxidd_reorder::set_var_order(m, &order));
                let b = self.bump();
                ctx.count(if b == 1 { "reorder_changed" } else { "reorder_same" });
                for (k, (f, tt)) in &self.h {
                    let ok = f.with_manager_shared(|m, e| (0..tt.len()).all(|a| b_walk(m, e, a) == tt[a]));
                    if !ok {
                        ctx.fail("reorder-changed-function", &format!("handle {} denotes another function after {}", k, line));
                    }
                }
                let l2v: Vec<String> = self.mref().with_manager_shared(|m| (0..m.num_levels()).map(|l| m.level_to_var(l).to_string()).collect());
                format!("nodes={} bump={} order={}", self.nodes(), b, l2v.join(","))
            }
            "addvars" if w.len() == 2 => {
                let Ok(k) = w[1].parse::<u32>() else { return "bad-op".into() };
                if self.n + k > 12 {
                    return "bad-op".into();
                }
                self.mref().with_manager_exclusive(|m| {
                    m.add_vars(k);
                });
                let old = 1usize << self.n;
                self.n += k;
                let new = 1usize << self.n;
                for (_, tt) in self.h.values_mut() {
                    let t2: Vec<bool> = (0..new).map(|a| tt[a % old]).collect();
                    *tt = t2;
                }
                ctx.count("addvars");
                let b = self.bump();
                format!("n={} bump={}", self.n, b)
            }
            "cacheall" if w.len() == 2 => {
                self.cache.cache_all = w[1] == "1";
                "ok".into()
            }
            "newcache" if w.len() == 1 => {
                let all = self.cache.cache_all;
                self.cache = Cache::default();
                self.cache.cache_all = all;
                ctx.count("newcache");
                "ok".into()
            }
            "count" if w.len() == 3 => {
                // (no clone of the handle: it would change the reference count of the root)
                let Some((f, tt)) = self.h.get(w[1]) else { return "bad-op".into() };
                let tt = tt.clone();
                let Ok(vars) = w[2].parse::<u32>() else { return "bad-op".into() };
                if vars < self.n || vars > 40 {
                    return "bad-op".into();
                }
                let before = self.cache.map.len();
                let c = f.sat_count(vars, &mut self.cache).0;
                let root_neg = f.with_manager_shared(|_, e| b_neg(e));
                let after = self.cache.map.len();
                let ones = tt.iter().filter(|&&b| b).count() as u64;
                let expected = ones << (vars - self.n);
                if c != expected {
                    ctx.fail("count", &format!("sat_count({} = {}, {}) through the long-lived cache = {}, expected {}", w[1], tt_hex(&tt), vars, c, expected));
                }
                ctx.count("count");
                ctx.count(if self.cache.cache_all { "count_cache_all" } else { "count_indegree_rule" });
                if root_neg {
                    ctx.count("count_complemented_handle");
                }
                if before > 0 && after > before {
                    ctx.count("count_cache_grown");
                }
                if before > 0 && after < before {
                    ctx.count("count_cache_cleared_visibly");
                }
                if vars > self.n {
                    ctx.count("count_vars_gt_n");
                }
                let n = self.n;
                let mut entries: Vec<String> = Vec::new();
                let cache = &self.cache;
                let mut both_tags = false;
                self.mref().with_manager_shared(|m| {
                    let mut by_id: HashMap<usize, BE<'_>> = HashMap::new();
                    for view in m.levels() {
                        for e in view.iter() {
                            by_id.insert(e.node_id(), m.clone_edge(e));
                        }
                    }
                    let mut memo = HashMap::new();
                    for (key, num) in cache.map.iter() {
                        let key = *key as usize;
                        let (id, tag) = (key & !TAG_BIT, key & TAG_BIT != 0);
                        if tag && cache.map.contains_key(&(id as _)) {
                            both_tags = true;
                        }
                        match by_id.get(&id) {
                            None => {
                                ctx.fail("cache-entry-dangling", &format!("after `{}` the cache holds node id {} which is in no unique table", line, id));
                                entries.push(format!("dangling={}", num.0));
                            }
                            Some(e) => {
                                // the edges of the unique table are regular: the function of the node
                                let ones = (0..(1usize << n)).filter(|&a| b_walk(m, e, a) != (b_neg(e) != tag)).count() as u64;
                                let exp = ones << (vars - n);
                                if num.0 != exp {
                                    ctx.fail("cache-entry", &format!("after `{}` the cache maps (tag {}, node {}) to {}, that function has {} models", line, tag as u8, b_tree(m, e), num.0, exp));
                                }
                                let lvl = match m.get_node(e) {
                                    Node::Inner(nd) => nd.level(),
                                    _ => u32::MAX,
                                };
                                entries.push(format!("{}:{:016x}:{}={}", lvl, b_hash(m, e, &mut memo), tag as u8, num.0));
                            }
                        }
                    }
                    for (_, e) in by_id.drain() {
                        m.drop_edge(e);
                    }
                });
                entries.sort();
                if entries.len() > 1 {
                    ctx.count("count_cache_multi_entry");
                }
                if both_tags {
                    ctx.count("count_cache_node_under_both_tags");
                }
                format!("count={} before={} after={} cache={}", c, before, after, entries.join(","))
            }
            _ => "bad-op".into(),
        }
    }
}

// ------------------------------------------------------------------------------------------------
// ZBDD

fn z_term<'id>(m: &ZM<'id>, e: &ZE<'id>) -> Option<bool> {
    match m.get_node(e) {
        Node::Terminal(t) => Some(*std::borrow::Borrow::<ZBDDTerminal>::borrow(&t) == ZBDDTerminal::Base),
        Node::Inner(_) => None,
    }
}

fn z_tree<'id>(m: &ZM<'id>, e: &ZE<'id>) -> String {
    match m.get_node(e) {
        Node::Terminal(_) => (if z_term(m, e).unwrap() { "B" } else { "E" }).into(),
        Node::Inner(n) => format!("({} {} {})", n.level(), z_tree(m, &n.child(0)), z_tree(m, &n.child(1))),
    }
}

fn z_hash<'id>(m: &ZM<'id>, e: &ZE<'id>, memo: &mut HashMap<usize, u64>) -> u64 {
    match m.get_node(e) {
        Node::Terminal(_) => if z_term(m, e).unwrap() { 1 } else { 2 },
        Node::Inner(n) => {
            let id = e.node_id();
            if let Some(&h) = memo.get(&id) {
                return h;
            }
            let a = z_hash(m, &n.child(0), memo);
            let b = z_hash(m, &n.child(1), memo);
            let h = mix(n.level() as u64, a, b);
            memo.insert(id, h);
            h
        }
    }
}

/// is the set `a` (bit `v` = variable `v`), restricted to the levels `from..`, a member of the
/// family of `e` read as a family over the levels `from..n`? (variables on skipped levels must be 0)
fn z_member<'id>(m: &ZM<'id>, e: &ZE<'id>, a: usize, from: u32, n: u32) -> bool {
    let (node_level, node) = match m.get_node(e) {
        Node::Terminal(_) => (n, Err(z_term(m, e).unwrap())),
        Node::Inner(nd) => (nd.level(), Ok(nd)),
    };
    for l in from..node_level.min(n) {
        if (a >> m.level_to_var(l)) & 1 != 0 {
            return false;
        }
    }
    match node {
        Err(base) => base,
        Ok(nd) => {
            let v = m.level_to_var(node_level);
            let c = if (a >> v) & 1 != 0 { nd.child(0) } else { nd.child(1) };
            z_member(m, &c, a, node_level + 1, n)
        }
    }
}

fn z_build(m: &ZM<'_>, tt: &[bool], l2v: &[u32], level: usize, assign: usize) -> ZBDDFunction {
    if level == l2v.len() {
        return if tt[assign] { ZBDDFunction::base(m) } else { ZBDDFunction::empty(m) };
    }
    let v = l2v[level];
    let hi = z_build(m, tt, l2v, level + 1, assign | (1 << v));
    let lo = z_build(m, tt, l2v, level + 1, assign);
    if z_term(m, hi.as_edge(m)) == Some(false) {
        return lo;
    }
    let var = ZBDDFunction::singleton(m, v).unwrap();
    let e = oxidd::zbdd::make_node(m, var.as_edge(m), m.clone_edge(hi.as_edge(m)), m.clone_edge(lo.as_edge(m))).unwrap();
    ZBDDFunction::from_edge(m, e)
}

struct ScZ {
    mref: Option<ZBDDManagerRef>,
    n: u32,
    h: BTreeMap<String, (ZBDDFunction, Vec<bool>)>,
    cache: Cache,
    last_gc_count: u64,
    /// (vars, gc_count, cache object generation) of the last count; `add_vars` since then?
    last_count: Option<(u32, u64)>,
    addvars_pending: bool,
}

impl ScZ {
    fn mref(&self) -> &ZBDDManagerRef {
        self.mref.as_ref().expect("no manager")
    }
    fn nodes(&self) -> usize {
        self.mref().with_manager_shared(|m| m.num_inner_nodes())
    }
    fn bump(&mut self) -> u32 {
        let g = self.mref().with_manager_shared(|m| m.gc_count());
        let b = (g != self.last_gc_count) as u32;
        self.last_gc_count = g;
        b
    }
    fn check_handles(&self, line: &str, sig: &str, ctx: &mut Ctx) {
        for (k, (f, tt)) in &self.h {
            let ok = f.with_manager_shared(|m, e| (0..tt.len()).all(|a| z_member(m, e, a, 0, m.num_levels()) == tt[a]));
            if !ok {
                ctx.fail(sig, &format!("handle {} denotes another family after {}", k, line));
            }
        }
    }
}

fn z_expected(members: u64, vars: u32, n: u32) -> u64 {
    if vars >= n { members << (vars - n) } else { members >> (n - vars) }
}

impl Scenario for ScZ {
    fn reset(&mut self) {
        self.h.clear();
        self.mref = None;
        self.n = 0;
        self.cache = Cache::default();
        self.last_gc_count = 0;
        self.last_count = None;
        self.addvars_pending = false;
    }

    fn step(&mut self, line: &str, ctx: &mut Ctx) -> String {
        let w = words(line);
        match w[0] {
            "mgr" if w.len() == 2 => {
                let Ok(n) = w[1].parse::<u32>() else { return "bad-op".into() };
                if self.mref.is_some() || n > 10 {
                    return "bad-op".into();
                }
                let mref = oxidd::zbdd::new_manager(1 << 16, 1 << 10, 1);
                mref.with_manager_exclusive(|m| {
                    m.add_vars(n);
                });
                self.mref = Some(mref);
                self.n = n;
                format!("ok nodes={}", self.nodes())
            }
            "racegc" if w.len() == 3 => {
                let (Ok(pairs), Ok(rounds)) = (w[1].parse::<u32>(), w[2].parse::<u32>()) else { return "bad-op".into() };
                if pairs < 2 || pairs > 20 {
                    return "bad-op".into();
                }
                race_gc_zbdd(pairs, rounds, ctx);
                "ok".into()
            }
            _ if self.mref.is_none() => "bad-op".into(),
            "build" if w.len() == 3 => {
                let Some(tt) = parse_tt(w[2], self.n) else { return "bad-op".into() };
                if self.h.contains_key(w[1]) {
                    return "bad-op".into();
                }
                let (f, t) = self.mref().with_manager_shared(|m| {
                    let l2v: Vec<u32> = (0..m.num_levels()).map(|l| m.level_to_var(l)).collect();
                    let f = z_build(m, &tt, &l2v, 0, 0);
                    let t = z_tree(m, f.as_edge(m));
                    for a in 0..tt.len() {
                        if z_member(m, f.as_edge(m), a, 0, m.num_levels()) != tt[a] {
                            ctx.fail("build", &format!("{}: the built diagram differs from the table at the set {:#b}", line, a));
                            break;
                        }
                    }
                    (f, t)
                });
                ctx.count("build");
                self.h.insert(w[1].to_string(), (f, tt));
                format!("{} nodes={}", t, self.nodes())
            }
            "clone" if w.len() == 3 => {
                let Some((f, tt)) = self.h.get(w[1]).cloned() else { return "bad-op".into() };
                if self.h.contains_key(w[2]) {
                    return "bad-op".into();
                }
                self.h.insert(w[2].to_string(), (f, tt));
                "ok".into()
            }
            "drop" if w.len() == 2 => {
                if self.h.remove(w[1]).is_none() {
                    return "bad-op".into();
                }
                ctx.count("drop");
                "ok".into()
            }
            "gc" if w.len() == 1 => {
                let before = self.nodes();
                self.mref().with_manager_shared(|m| m.gc());
                let after = self.nodes();
                if after < before {
                    ctx.count("gc_freed_nodes");
                }
                ctx.count("gc");
                let b = self.bump();
                format!("nodes={} bump={}", after, b)
            }
            "reordernop" if w.len() == 1 => {
                self.bump();
                self.mref().with_manager_exclusive(|m| m.reorder(|_| ()));
                let b = self.bump();
                ctx.count("reordernop");
                self.check_handles(line, "reorder-changed-function", ctx);
                format!("nodes={} bump={}", self.nodes(), b)
            }
            "addvars" if w.len() == 2 => {
                let Ok(k) = w[1].parse::<u32>() else { return "bad-op".into() };
                if k == 0 || self.n + k > 10 {
                    return "bad-op".into();
                }
                self.mref().with_manager_exclusive(|m| {
                    m.add_vars(k);
                });
                self.n += k;
                let new = 1usize << self.n;
                // the family stays: no set contains a new variable
                for (_, tt) in self.h.values_mut() {
                    tt.resize(new, false);
                }
                ctx.count("addvars");
                self.addvars_pending = true;
                self.check_handles(line, "addvars-changed-family", ctx);
                let b = self.bump();
                format!("n={} nodes={} bump={}", self.n, self.nodes(), b)
            }
            "cacheall" if w.len() == 2 => {
                self.cache.cache_all = w[1] == "1";
                "ok".into()
            }
            "newcache" if w.len() == 1 => {
                let all = self.cache.cache_all;
                self.cache = Cache::default();
                self.cache.cache_all = all;
                self.last_count = None;
                ctx.count("newcache");
                "ok".into()
            }
            "count" if w.len() == 3 => {
                let Some((f, tt)) = self.h.get(w[1]) else { return "bad-op".into() };
                let tt = tt.clone();
                let Ok(vars) = w[2].parse::<u32>() else { return "bad-op".into() };
                if vars > 40 {
                    return "bad-op".into();
                }
                let before = self.cache.map.len();
                let c = f.sat_count(vars, &mut self.cache).0;
                let after = self.cache.map.len();
                let members = tt.iter().filter(|&&b| b).count() as u64;
                let expected = z_expected(members, vars, self.n);
                if c != expected {
                    ctx.fail("count", &format!("sat_count({} = {}, {}) with {} levels through the long-lived cache = {}, expected {}", w[1], tt_hex(&tt), vars, self.n, c, expected));
                }
                ctx.count("count");
                ctx.count(if self.cache.cache_all { "count_cache_all" } else { "count_indegree_rule" });
                if before > 0 && after > before {
                    ctx.count("count_cache_grown");
                }
                if before > 0 && after < before {
                    ctx.count("count_cache_cleared_visibly");
                }
                ctx.count(if vars > self.n { "count_vars_gt_n" } else if vars == self.n { "count_vars_eq_n" } else { "count_vars_lt_n" });
                // a count whose map was filled before an `add_vars` and is used again (same `vars`,
                // same epoch): the situation of `addVars_cache_kept`
                let g = self.mref().with_manager_shared(|m| m.gc_count());
                if self.addvars_pending && before > 0 && self.last_count == Some((vars, g)) {
                    ctx.count("count_same_vars_after_addvars_map_kept");
                }
                self.last_count = Some((vars, g));
                self.addvars_pending = false;
                let n = self.n;
                let mut entries: Vec<String> = Vec::new();
                let cache = &self.cache;
                self.mref().with_manager_shared(|m| {
                    let mut by_id: HashMap<usize, ZE<'_>> = HashMap::new();
                    for view in m.levels() {
                        for e in view.iter() {
                            by_id.insert(e.node_id(), m.clone_edge(e));
                        }
                    }
                    let mut memo = HashMap::new();
                    for (id, num) in cache.map.iter() {
                        match by_id.get(&(*id as usize)) {
                            None => {
                                ctx.fail("cache-entry-dangling", &format!("after `{}` the cache holds node id {} which is in no unique table", line, id));
                                entries.push(format!("dangling={}", num.0));
                            }
                            Some(e) => {
                                let lvl = match m.get_node(e) {
                                    Node::Inner(nd) => nd.level(),
                                    _ => u32::MAX,
                                };
                                // the members of the node's family: sets over the variables of the
                                // levels lvl.. (enumerate all sets, keep those without upper variables)
                                let upper: usize = (0..lvl.min(n)).map(|l| 1usize << m.level_to_var(l)).sum();
                                let exp = (0..(1usize << n)).filter(|&a| a & upper == 0 && z_member(m, e, a, lvl, n)).count() as u64;
                                if num.0 != exp {
                                    ctx.fail("cache-entry", &format!("after `{}` the cache maps the node {} to {}, its family has {} members", line, z_tree(m, e), num.0, exp));
                                }
                                entries.push(format!("{}:{:016x}={}", lvl, z_hash(m, e, &mut memo), num.0));
                            }
                        }
                    }
                    for (_, e) in by_id.drain() {
                        m.drop_edge(e);
                    }
                });
                entries.sort();
                if entries.len() > 1 {
                    ctx.count("count_cache_multi_entry");
                }
                format!("count={} before={} after={} cache={}", c, before, after, entries.join(","))
            }
            _ => "bad-op".into(),
        }
    }
}

// ------------------------------------------------------------------------------------------------
// generator

fn rand_tt(rng: &mut Rng, n: u32, style: u64) -> Vec<bool> {
    let len = 1usize << n;
    match style {
        0 => (0..len).map(|_| rng.chance(1, 2)).collect(),
        1 => (0..len).map(|_| rng.chance(1, 6)).collect(),
        2 => (0..len).map(|_| rng.chance(5, 6)).collect(),
        // parity of a random subset (every node shared; BCDD: one node per level)
        3 => {
            let mask = rng.below(len as u64) as usize | 1;
            (0..len).map(|a| (a & mask).count_ones() % 2 == 1).collect()
        }
        // threshold
        4 => {
            let k = rng.range(1, n as u64) as u32;
            (0..len).map(|a| (a as u32).count_ones() >= k).collect()
        }
        // conjunction / disjunction of a subset
        5 => {
            let mask = rng.below(len as u64) as usize | 1;
            (0..len).map(|a| a & mask == mask).collect()
        }
        6 => {
            let mask = rng.below(len as u64) as usize | 1;
            (0..len).map(|a| a & mask != 0).collect()
        }
        // depends on few variables only (ZBDD: don't-care nodes with two equal children)
        7 => {
            let mask = rng.below(len as u64) as usize & rng.below(len as u64) as usize;
            let t: Vec<bool> = (0..len).map(|_| rng.chance(1, 2)).collect();
            (0..len).map(|a| t[a & mask]).collect()
        }
        // everything (ZBDD: the tautology chain itself)
        8 => vec![true; len],
        // all subsets of a subset of the variables (ZBDD: shares the lower part of the chain)
        _ => {
            let mask = rng.below(len as u64) as usize;
            (0..len).map(|a| a & !mask == 0).collect()
        }
    }
}

struct Gen {
    zbdd: bool,
    n: u32,
    nmax: u32,
    live: Vec<(String, Vec<bool>)>,
    next: u32,
    garbage: bool,
    order: Vec<u32>,
}

impl Gen {
    fn new_name(&mut self) -> String {
        self.next += 1;
        format!("f{}", self.next)
    }
    fn build(&mut self, rng: &mut Rng, w: &mut dyn Write) {
        let style = rng.below(if self.zbdd { 10 } else { 8 });
        let mut tt = rand_tt(rng, self.n, style);
        // sometimes a relative of a live function: same table with one cofactor replaced
        if !self.live.is_empty() && rng.chance(1, 3) {
            let base = rng.pick(&self.live).1.clone();
            let v = rng.below(self.n as u64) as usize;
            let b = rng.chance(1, 2);
            tt = (0..base.len()).map(|a| if ((a >> v) & 1 != 0) == b { base[a] } else { tt[a] }).collect();
        }
        let name = self.new_name();
        writeln!(w, "build {} {}", name, tt_hex(&tt)).unwrap();
        self.live.push((name, tt));
        self.garbage = true;
    }
    fn count(&mut self, rng: &mut Rng, w: &mut dyn Write) {
        if self.live.is_empty() {
            return;
        }
        let name = rng.pick(&self.live).0.clone();
        let vars = if self.zbdd {
            match rng.below(10) {
                0..=3 => self.n,
                4 => self.n + 1,
                5 => self.n + 5,
                6 => self.n.saturating_sub(1),
                7 => self.n.saturating_sub(2),
                8 => rng.below(self.n as u64 + 1) as u32,
                _ => 0,
            }
        } else {
            self.n + *rng.pick(&[0u32, 0, 0, 1, 5])
        };
        writeln!(w, "count {} {}", name, vars).unwrap();
    }
    fn gc(&mut self, w: &mut dyn Write) {
        writeln!(w, "gc").unwrap();
        self.garbage = false;
    }
    fn reorder(&mut self, rng: &mut Rng, w: &mut dyn Write) {
        if self.zbdd {
            // no level swaps with live ZBDD nodes (KF-zbdd-reorder): the empty reordering only
            for _ in 0..rng.range(0, 2) {
                self.count(rng, w);
            }
            writeln!(w, "reordernop").unwrap();
            return;
        }
        if self.garbage {
            self.gc(w);
            for _ in 0..rng.range(1, 3) {
                self.count(rng, w);
            }
        }
        let mut o = self.order.clone();
        if rng.chance(1, 8) {
            // same order: no reordering takes place, the cache stays
        } else if rng.chance(1, 2) {
            let i = rng.below(o.len() as u64 - 1) as usize;
            o.swap(i, i + 1);
        } else {
            rng.shuffle(&mut o);
        }
        writeln!(w, "reorder {}", o.iter().map(|v| v.to_string()).collect::<Vec<_>>().join(",")).unwrap();
        self.order = o;
    }
    fn addvars(&mut self, rng: &mut Rng, w: &mut dyn Write) {
        if self.n >= self.nmax {
            return;
        }
        let k = rng.range(1, 2).min((self.nmax - self.n) as u64) as u32;
        // ZBDD: the same `vars` before and after `add_vars` (num_levels changes, gc_count does
        // not: the map filled before is used afterwards)
        let around = if self.zbdd && !self.live.is_empty() && rng.chance(2, 3) {
            let name = rng.pick(&self.live).0.clone();
            let vars = self.n + *rng.pick(&[0u32, 1, 2, 3, 6]);
            writeln!(w, "count {} {}", name, vars).unwrap();
            Some((name, vars))
        } else {
            None
        };
        writeln!(w, "addvars {}", k).unwrap();
        if let Some((name, vars)) = &around {
            writeln!(w, "count {} {}", name, vars).unwrap();
            if rng.chance(1, 2) {
                let other = rng.pick(&self.live).0.clone();
                writeln!(w, "count {} {}", other, vars).unwrap();
            }
        }
        let old = 1usize << self.n;
        self.n += k;
        for v in self.order.len() as u32..self.n {
            self.order.push(v);
        }
        let new = 1usize << self.n;
        let z = self.zbdd;
        for (_, tt) in self.live.iter_mut() {
            *tt = (0..new).map(|a| if z { a < old && tt[a] } else { tt[a % old] }).collect();
        }
    }
}

fn fixed_bcdd(w: &mut dyn Write) {
    // ids recycled by a collection
    writeln!(w, "case fixed-recycle").unwrap();
    for l in ["mgr 3", "cacheall 1", "build g 08", "count g 3", "not g ng", "count ng 3", "drop g", "drop ng", "gc", "build h ef", "count h 3", "not h nh", "count nh 3"] {
        writeln!(w, "{}", l).unwrap();
    }
    // vars changed, then back, with a collection in between; complemented handle
    writeln!(w, "case fixed-vars").unwrap();
    for l in ["mgr 3", "cacheall 1", "build g 8e", "not g ng", "count ng 3", "gc", "count ng 8", "count ng 3", "count g 4", "count ng 4"] {
        writeln!(w, "{}", l).unwrap();
    }
    // the same node under both tags in one map (negative witness (d) of PropertiesC12S.lean)
    writeln!(w, "case fixed-tags").unwrap();
    for l in ["mgr 2", "cacheall 1", "build f 8", "not f nf", "count f 2", "count nf 2", "count f 2", "newcache", "count nf 2", "count f 2", "cacheall 0", "newcache", "count f 2", "count nf 2"] {
        writeln!(w, "{}", l).unwrap();
    }
    // reordering between two counts, no collection in between
    writeln!(w, "case fixed-reorder").unwrap();
    for l in ["mgr 4", "build g 8888", "build k 888f", "gc", "cacheall 1", "count k 4", "reorder 0,2,1,3", "count k 4", "count g 4", "reorder 3,2,1,0", "count g 4", "count k 9"] {
        writeln!(w, "{}", l).unwrap();
    }
    // in-degree rule: a node shared by two handles is cached, an unshared one is not
    writeln!(w, "case fixed-indegree").unwrap();
    for l in ["mgr 3", "build a 08", "count a 3", "clone a b", "count a 3", "build c 0c", "count a 3", "not a na", "count na 3", "drop b", "drop c", "drop na", "count a 4", "newcache", "count a 4"] {
        writeln!(w, "{}", l).unwrap();
    }
    writeln!(w, "case fixed-bad").unwrap();
    for l in ["count a 3", "mgr 3", "mgr 3", "build a 1ff", "build a 8", "count a 2", "not a a", "not b c", "drop a", "reorder 0,1", "reordernop", "frobnicate"] {
        writeln!(w, "{}", l).unwrap();
    }
}

fn fixed_zbdd(w: &mut dyn Write) {
    // ids recycled by a collection
    writeln!(w, "case fixed-recycle").unwrap();
    for l in ["mgr 3", "cacheall 1", "build g 80", "count g 3", "drop g", "gc", "build h fe", "count h 3"] {
        writeln!(w, "{}", l).unwrap();
    }
    // vars below / equal / above num_levels; the map survives every change of `vars`? (it is cleared)
    writeln!(w, "case fixed-vars").unwrap();
    for l in ["mgr 3", "cacheall 1", "build g e8", "count g 3", "count g 2", "count g 1", "count g 0", "count g 8", "gc", "count g 8", "count g 3"] {
        writeln!(w, "{}", l).unwrap();
    }
    // add_vars between two counts with the SAME vars: num_levels changes, gc_count does not, the
    // map is kept (path counts do not depend on num_levels), the result is rescaled
    writeln!(w, "case fixed-addvars").unwrap();
    for l in ["mgr 2", "cacheall 1", "build g e", "build t f", "count g 4", "count t 4", "addvars 1", "count g 4", "count t 4", "addvars 2", "count g 4", "count t 4", "count g 5", "count g 7", "build u ffffffff", "count u 5", "count u 4", "count t 5"] {
        writeln!(w, "{}", l).unwrap();
    }
    // the tautology chain: rc > 1 without cache_all
    writeln!(w, "case fixed-chain").unwrap();
    for l in ["mgr 3", "build t ff", "count t 3", "build p 0f", "count p 3", "count t 3", "drop t", "count p 3", "gc", "count p 3", "reordernop", "count p 3", "count p 3"] {
        writeln!(w, "{}", l).unwrap();
    }
    // `add_vars` while chain nodes are in the map and partly unreferenced: the old chain must stay
    // in the store (no id may be re-issued, `gc_count` does not advance); `p` = `(2 B B)` is the
    // bottom chain node itself
    writeln!(w, "case fixed-addvars-chain").unwrap();
    for l in ["mgr 3", "cacheall 1", "build t ff", "build p 11", "count t 5", "drop t", "addvars 1", "build u ffff", "count u 5", "count p 5", "gc", "count u 5", "addvars 2", "count u 5", "count p 5"] {
        writeln!(w, "{}", l).unwrap();
    }
    writeln!(w, "case fixed-bad").unwrap();
    for l in ["count a 3", "mgr 3", "mgr 3", "build a 1ff", "build a 8", "count a 41", "addvars 0", "addvars 9", "not a b", "drop a", "reorder 0,1,2", "frobnicate"] {
        writeln!(w, "{}", l).unwrap();
    }
}

fn generate(cfg: &GenCfg, rng: &mut Rng, w: &mut dyn Write) {
    let zbdd = match cfg.extra.get("kind").map(|s| s.as_str()) {
        Some("bcdd") => false,
        Some("zbdd") => true,
        _ => panic!("--kind bcdd|zbdd"),
    };
    if cfg.extra.get("suite").map(|s| s == "race").unwrap_or(false) {
        // oracle-only: a count inside a collection that runs on another thread (known finding)
        writeln!(w, "case race-count-during-collection").unwrap();
        writeln!(w, "racegc 17 {}", if cfg.thorough { 12 } else { 4 }).unwrap();
        return;
    }
    if zbdd { fixed_zbdd(w) } else { fixed_bcdd(w) }
    let cases = (if cfg.thorough { 400 } else { 60 }) * cfg.scale;
    for ci in 0..cases {
        let n = if zbdd { rng.range(2, if cfg.thorough { 6 } else { 5 }) } else { rng.range(3, if cfg.thorough { 8 } else { 7 }) } as u32;
        writeln!(w, "case rnd-{}-n{}", ci, n).unwrap();
        writeln!(w, "mgr {}", n).unwrap();
        let mut g = Gen { zbdd, n, nmax: if zbdd { 8 } else { 10 }, live: Vec::new(), next: 0, garbage: false, order: (0..n).collect() };
        if rng.chance(1, 2) {
            writeln!(w, "cacheall 1").unwrap();
        }
        let steps = rng.range(15, if cfg.thorough { 60 } else { 40 });
        for _ in 0..steps {
            let r = rng.below(100);
            if g.live.is_empty() || r < 20 {
                if g.live.len() < 6 {
                    g.build(rng, w);
                } else {
                    g.count(rng, w);
                }
            } else if r < 58 {
                g.count(rng, w);
            } else if r < 67 {
                let i = rng.below(g.live.len() as u64) as usize;
                let (name, _) = g.live.remove(i);
                writeln!(w, "drop {}", name).unwrap();
                g.garbage = true;
            } else if r < 71 {
                let (name, tt) = rng.pick(&g.live).clone();
                let n2 = g.new_name();
                writeln!(w, "clone {} {}", name, n2).unwrap();
                g.live.push((n2, tt));
            } else if r < 76 {
                if zbdd {
                    g.count(rng, w);
                } else if g.live.len() < 7 {
                    let (name, tt) = rng.pick(&g.live).clone();
                    let n2 = g.new_name();
                    writeln!(w, "not {} {}", name, n2).unwrap();
                    g.live.push((n2, tt.iter().map(|b| !b).collect()));
                }
            } else if r < 84 {
                g.gc(w);
            } else if r < 89 {
                g.reorder(rng, w);
            } else if r < (if zbdd { 94 } else { 92 }) {
                g.addvars(rng, w);
            } else if r < 98 {
                writeln!(w, "cacheall {}", rng.below(2)).unwrap();
            } else {
                writeln!(w, "newcache").unwrap();
            }
        }
    }
}

fn make(f: &BTreeMap<String, String>) -> Box<dyn Scenario> {
    match f.get("kind").map(|s| s.as_str()) {
        Some("bcdd") => Box::new(ScB { mref: None, n: 0, h: BTreeMap::new(), cache: Cache::default(), last_gc_count: 0 }),
        Some("zbdd") => Box::new(ScZ { mref: None, n: 0, h: BTreeMap::new(), cache: Cache::default(), last_gc_count: 0, last_count: None, addvars_pending: false }),
        _ => panic!("--kind bcdd|zbdd"),
    }
}

fn main() {
    harness_main(generate, make)
}
