//! C12, floating-point half: `sat_count::<F64>` of the three Boolean diagram kinds and the number
//! type `oxidd_core::util::num::F64` itself, compared **bit for bit** with the dyadic model of
//! `OxiddModel/Num/F64Count.lean` (protocol `f64count`, driver `Num/DriverF64Count.lean`).
//!
//! Lines:
//!  * `count bdd|bcdd|zbdd <n> <tt-hex> <vars>`: the function with that truth table over `n`
//!    variables (built by Shannon expansion with `ite`), counted over `vars` variables with a
//!    fresh `SatCountCache<F64>` with `cache_all = true`. Output: the bit pattern of the result,
//!    and the sorted duplicate-free bit patterns of **every memoised intermediate value**
//!    (`cache.map` is public): number, hash, and the list itself if it has at most 24 entries.
//!  * `dag bdd|bcdd|zbdd <n> <vars> <l,t,e> …`: the same for a function given as a diagram: node `i`
//!    is `ite(x_l, t, e)` with `t`, `e` earlier nodes (index) or `T`/`F`; levels strictly increase
//!    towards the children. Used for functions over 54 … 120 variables whose counts have more
//!    than 53 significant bits, so that the rounding of every addition is exercised.
//!  * `scalar from|add|shl|shr …`: the operations of `F64` on bit patterns.
//!
//! Oracles (independent of the model): the exact count is computed with the number type `Natural`
//! (arbitrary precision) on the same diagram; the `f64` result must be `0` iff the exact count is
//! `0`, must not be NaN, must be `inf` only if `exact * (1 + depth * 2^-52) >= 2^1024`, must
//! satisfy `|result - exact| * 2^52 <= depth * exact` (the proven bound, `depth` = number of
//! variables of the manager), and must be *equal* to the exact count when the manager has at most
//! 53 variables (`f64count_exact_small`). All in integer arithmetic (a few-line bignum below).
use oxidd::bcdd::BCDDFunction;
use oxidd::bdd::BDDFunction;
use oxidd::util::SatCountCache;
use oxidd::zbdd::ZBDDFunction;
use oxidd::{BooleanFunction, Function, Manager, ManagerRef};
use oxidd_core::util::num::{F64, Natural};
use oxv::*;
use std::collections::BTreeMap;
use std::io::Write;

// ------------------------------------------------------------------------------------------------
// minimal big naturals (little-endian u32 limbs) for the oracle

#[derive(Clone, PartialEq, Eq, Debug)]
struct Big(Vec<u32>);

impl Big {
    fn norm(mut self) -> Big {
        while self.0.last() == Some(&0) {
            self.0.pop();
        }
        self
    }
    fn from_hex(s: &str) -> Big {
        let s = s.trim_start_matches("0x");
        let cs: Vec<u32> = s.chars().rev().map(|c| c.to_digit(16).unwrap()).collect();
        let mut v = vec![0u32; cs.len() / 8 + 1];
        for (i, d) in cs.iter().enumerate() {
            v[i / 8] |= d << (4 * (i % 8));
        }
        Big(v).norm()
    }
    fn from_u64(x: u64) -> Big {
        Big(vec![x as u32, (x >> 32) as u32]).norm()
    }
    fn is_zero(&self) -> bool {
        self.0.is_empty()
    }
    fn shl(&self, k: u32) -> Big {
        let (w, b) = ((k / 32) as usize, k % 32);
        let mut v = vec![0u32; w];
        let mut carry = 0u64;
        for &x in &self.0 {
            let y = ((x as u64) << b) | carry;
            v.push(y as u32);
            carry = y >> 32;
        }
        v.push(carry as u32);
        Big(v).norm()
    }
    fn mul_small(&self, k: u32) -> Big {
        let mut v = Vec::with_capacity(self.0.len() + 1);
        let mut carry = 0u64;
        for &x in &self.0 {
            let y = x as u64 * k as u64 + carry;
            v.push(y as u32);
            carry = y >> 32;
        }
        v.push(carry as u32);
        Big(v).norm()
    }
    fn cmp(&self, o: &Big) -> std::cmp::Ordering {
        if self.0.len() != o.0.len() {
            return self.0.len().cmp(&o.0.len());
        }
        for i in (0..self.0.len()).rev() {
            if self.0[i] != o.0[i] {
                return self.0[i].cmp(&o.0[i]);
            }
        }
        std::cmp::Ordering::Equal
    }
    fn add(&self, o: &Big) -> Big {
        let n = self.0.len().max(o.0.len());
        let mut v = Vec::with_capacity(n + 1);
        let mut carry = 0u64;
        for i in 0..n {
            let y = *self.0.get(i).unwrap_or(&0) as u64 + *o.0.get(i).unwrap_or(&0) as u64 + carry;
            v.push(y as u32);
            carry = y >> 32;
        }
        v.push(carry as u32);
        Big(v).norm()
    }
    /// |self - o|
    fn abs_diff(&self, o: &Big) -> Big {
        let (a, b) = if self.cmp(o) == std::cmp::Ordering::Less { (o, self) } else { (self, o) };
        let mut v = Vec::with_capacity(a.0.len());
        let mut borrow = 0i64;
        for i in 0..a.0.len() {
            let mut y = a.0[i] as i64 - *b.0.get(i).unwrap_or(&0) as i64 - borrow;
            if y < 0 {
                y += 1 << 32;
                borrow = 1;
            } else {
                borrow = 0;
            }
            v.push(y as u32);
        }
        Big(v).norm()
    }
}

// ------------------------------------------------------------------------------------------------

fn tok(x: f64) -> String {
    if x.is_nan() { "nan".into() } else { format!("{:016x}", x.to_bits()) }
}
fn key(x: f64) -> u64 {
    if x.is_nan() { u64::MAX } else { x.to_bits() }
}

fn show(r: f64, vals: Vec<f64>) -> String {
    let mut ks: Vec<u64> = vals.into_iter().map(key).collect();
    ks.sort_unstable();
    ks.dedup();
    let mut h: u64 = 0xcbf29ce484222325;
    for &k in &ks {
        h = (h ^ k).wrapping_mul(0x100000001b3);
    }
    let mut s = format!("r={} k={} h={:016x}", tok(r), ks.len(), h);
    if ks.len() <= 24 {
        s.push_str(" v=");
        let l: Vec<String> = ks.iter().map(|&k| if k == u64::MAX { "nan".into() } else { format!("{:016x}", k) }).collect();
        s.push_str(&l.join(","));
    }
    s
}

fn parse_tt(hex: &str, n: u32) -> Option<Vec<bool>> {
    let len = 1usize << n;
    let mut tt = vec![false; len];
    for (i, c) in hex.chars().enumerate() {
        if c.is_ascii_uppercase() {
            return None;
        }
        let d = c.to_digit(16)? as usize;
        for j in 0..4 {
            let a = 4 * i + j;
            if a < len {
                tt[a] = (d >> j) & 1 != 0;
            } else if (d >> j) & 1 != 0 {
                return None;
            }
        }
    }
    if hex.len() * 4 < len {
        return None;
    }
    Some(tt)
}

fn tt_hex(tt: &[bool]) -> String {
    let mut s = String::new();
    let mut i = 0;
    while i < tt.len() {
        let mut d = 0;
        for j in 0..4 {
            if i + j < tt.len() && tt[i + j] {
                d |= 1 << j;
            }
        }
        s.push(std::char::from_digit(d, 16).unwrap());
        i += 4;
    }
    s
}

fn build_tt<F: BooleanFunction>(m: &F::Manager<'_>, tt: &[bool], n: u32, v: u32, a: usize) -> F {
    if v == n {
        return if tt[a] { F::t(m) } else { F::f(m) };
    }
    let hi = build_tt::<F>(m, tt, n, v + 1, a | (1 << v));
    let lo = build_tt::<F>(m, tt, n, v + 1, a);
    if hi == lo {
        return hi;
    }
    F::var(m, v).unwrap().ite(&hi, &lo).unwrap()
}

#[derive(Clone, Copy, PartialEq)]
enum Ref {
    T,
    F,
    N(usize),
}

fn parse_dag(ws: &[&str], n: u32) -> Option<Vec<(u32, Ref, Ref)>> {
    let mut nodes: Vec<(u32, Ref, Ref)> = Vec::new();
    for w in ws {
        let p: Vec<&str> = w.split(',').collect();
        if p.len() != 3 {
            return None;
        }
        let l: u32 = p[0].parse().ok()?;
        if l >= n {
            return None;
        }
        let mut rs = [Ref::T; 2];
        for j in 0..2 {
            rs[j] = match p[j + 1] {
                "T" => Ref::T,
                "F" => Ref::F,
                s => {
                    let i: usize = s.parse().ok()?;
                    if i >= nodes.len() || nodes[i].0 <= l {
                        return None;
                    }
                    Ref::N(i)
                }
            };
        }
        nodes.push((l, rs[0], rs[1]));
    }
    if nodes.is_empty() { None } else { Some(nodes) }
}

fn build_dag<F: BooleanFunction>(m: &F::Manager<'_>, nodes: &[(u32, Ref, Ref)]) -> F {
    let mut fs: Vec<F> = Vec::new();
    for &(l, t, e) in nodes {
        let get = |r: Ref, fs: &Vec<F>| match r {
            Ref::T => F::t(m),
            Ref::F => F::f(m),
            Ref::N(i) => fs[i].clone(),
        };
        let (t, e) = (get(t, &fs), get(e, &fs));
        fs.push(F::var(m, l).unwrap().ite(&t, &e).unwrap());
    }
    fs.pop().unwrap()
}

enum Src {
    TT(Vec<bool>),
    Dag(Vec<(u32, Ref, Ref)>),
    /// the node list read as ZBDD nodes (`make_node`)
    ZDag(Vec<(u32, Ref, Ref)>),
}

fn build_zdag(m: &<ZBDDFunction as oxidd::Function>::Manager<'_>, nodes: &[(u32, Ref, Ref)]) -> ZBDDFunction {
    use oxidd::BooleanVecSet;
    let mut fs: Vec<ZBDDFunction> = Vec::new();
    for &(l, t, e) in nodes {
        let get = |r: Ref, fs: &Vec<ZBDDFunction>| match r {
            Ref::T => ZBDDFunction::base(m),
            Ref::F => ZBDDFunction::empty(m),
            Ref::N(i) => fs[i].clone(),
        };
        let (hi, lo) = (get(t, &fs), get(e, &fs));
        let s = ZBDDFunction::singleton(m, l).unwrap();
        let (hi, lo) = (m.clone_edge(hi.as_edge(m)), m.clone_edge(lo.as_edge(m)));
        let r = oxidd::zbdd::make_node(m, s.as_edge(m), hi, lo).unwrap();
        fs.push(ZBDDFunction::from_edge(m, r));
    }
    fs.pop().unwrap()
}

trait BuildZ: Sized {
    fn build_z(_m: &<Self as oxidd::Function>::Manager<'_>, _nodes: &[(u32, Ref, Ref)]) -> Self
    where
        Self: oxidd::Function,
    {
        unreachable!("zdag is a ZBDD line")
    }
}
impl BuildZ for BDDFunction {}
impl BuildZ for BCDDFunction {}
impl BuildZ for ZBDDFunction {
    fn build_z(m: &<Self as oxidd::Function>::Manager<'_>, nodes: &[(u32, Ref, Ref)]) -> Self {
        build_zdag(m, nodes)
    }
}

/// count on a manager with `n` variables (kept until the next `case` or until `n` changes);
/// evaluates to (f64 result, memoised values, exact count as hex)
macro_rules! run_count {
    ($F:ty, $slot:expr, $new:path, $n:expr, $src:expr, $vars:expr) => {{
        if $slot.as_ref().map(|x| x.0) != Some($n) {
            let mref = $new(if $n > 200 { 1 << 23 } else { 1 << 16 }, 1 << 10, 1);
            mref.with_manager_exclusive(|m| {
                m.add_vars($n);
            });
            *$slot = Some(($n, mref));
        }
        let mref = &$slot.as_ref().unwrap().1;
        mref.with_manager_shared(|m| {
            let f: $F = match $src {
                Src::TT(tt) => build_tt::<$F>(m, tt, $n, 0, 0),
                Src::Dag(d) => build_dag::<$F>(m, d),
                Src::ZDag(d) => <$F as BuildZ>::build_z(m, d),
            };
            let mut cache: SatCountCache<F64, std::hash::RandomState> = SatCountCache::default();
            cache.cache_all = true;
            let r: F64 = f.sat_count($vars, &mut cache);
            let vals: Vec<f64> = cache.map.values().map(|x| x.0).collect();
            // exact count for the oracle (not for absurd `vars`: the hex string of 2^(4e9) has 1e9 digits)
            let exact = if $vars <= 5000 {
                let mut c2: SatCountCache<Natural, std::hash::RandomState> = SatCountCache::default();
                let exact: Natural = f.sat_count($vars, &mut c2);
                format!("{:x}", exact)
            } else {
                String::new()
            };
            (r.0, vals, exact)
        })
    }};
}

#[derive(Default)]
struct Sc {
    bdd: Option<(u32, oxidd::bdd::BDDManagerRef)>,
    bcdd: Option<(u32, oxidd::bcdd::BCDDManagerRef)>,
    zbdd: Option<(u32, oxidd::zbdd::ZBDDManagerRef)>,
}



impl Sc {
    fn oracle(&self, ctx: &mut Ctx, line: &str, kind: &str, n: u32, vars: u32, got: f64, exact_hex: &str) {
        let exact = Big::from_hex(exact_hex);
        let depth = n.max(1);
        if got.is_nan() {
            ctx.fail("f64count-nan", &format!("`{line}`: result is NaN (exact count 0x{exact_hex})"));
            return;
        }
        if exact.is_zero() != (got == 0.0) {
            ctx.fail("f64count-zero", &format!("`{line}`: result {got:e}, exact count 0x{exact_hex}"));
            return;
        }
        if exact.is_zero() {
            ctx.count("oracle_zero");
            return;
        }
        // exact * 2^52 + depth * exact  vs  2^1024 * 2^52
        let hi = exact.shl(52).add(&exact.mul_small(depth));
        let ovf = Big::from_u64(1).shl(1024 + 52);
        if got.is_infinite() {
            // beyond the range of the scaling trick every non-zero count is reported as inf
            // (vars - 1021 >= 1024: the terminal value itself overflows): recorded, judged by the model stream
            if kind != "zbdd" && vars >= 2045 {
                ctx.count("oracle_inf_beyond_range");
                if hi.cmp(&ovf) == std::cmp::Ordering::Less {
                    // the limitation proved as `f64count_beyond_range_wrong`: the count is
                    // representable, the result is inf (reported in REPORT.md, not an oracle failure)
                    ctx.count("observed_inf_beyond_range_although_count_below_2^1024");
                    // a genuine violation of "floats within their precision" (listed finding
                    // KF-f64count-beyond-2044-vars, dedicated case `range-andchain`)
                    ctx.fail("f64count-inf-beyond-2044-vars", &format!("`{line}`: sat_count::<F64> over {vars} variables is inf although the exact count 0x{exact_hex} is far below 2^1024"));
                }
                return;
            }
            if hi.cmp(&ovf) == std::cmp::Ordering::Less {
                ctx.fail("f64count-spurious-inf", &format!("`{line}`: result inf, exact count 0x{exact_hex} is below 2^1024"));
            } else {
                ctx.count("oracle_inf_justified");
            }
            return;
        }
        // finite, positive: got = mant * 2^e
        let bits = got.to_bits();
        let ex = (bits >> 52) as i64;
        let frac = bits & ((1u64 << 52) - 1);
        let (mant, e) = if ex == 0 { (frac, -1074i64) } else { (frac | (1u64 << 52), ex - 1075) };
        // compare got and exact scaled by 2^s with s = max(0, -e)
        let s = if e < 0 { (-e) as u32 } else { 0 };
        let g = Big::from_u64(mant).shl(if e > 0 { e as u32 } else { 0 });
        let x = exact.shl(s);
        let diff = g.abs_diff(&x);
        if n <= 53 && kind != "zbdd" || kind == "zbdd" && n <= 52 {
            if !diff.is_zero() {
                ctx.fail("f64count-inexact-small", &format!("`{line}`: result {got:e} differs from the exact count 0x{exact_hex} although every intermediate value has at most 53 significant bits"));
            } else {
                ctx.count("oracle_exact");
            }
            return;
        }
        // |got - exact| * 2^52 <= depth * exact
        if diff.shl(52).cmp(&x.mul_small(depth)) == std::cmp::Ordering::Greater {
            ctx.fail("f64count-error-bound", &format!("`{line}`: result {got:e} is not within relative error {depth} * 2^-52 of the exact count 0x{exact_hex}"));
        } else if diff.is_zero() {
            ctx.count("oracle_within_bound_exact");
        } else {
            ctx.count("oracle_within_bound_rounded");
        }
    }

    fn count(&mut self, ctx: &mut Ctx, line: &str, kind: &str, n: u32, src: Src, vars: u32) -> String {
        if n > 16 && matches!(src, Src::TT(_)) {
            return "bad-op".into();
        }
        let (r, vals, exact) = match kind {
            "bdd" => {
                if vars < n {
                    return "bad-op".into();
                }
                run_count!(BDDFunction, &mut self.bdd, oxidd::bdd::new_manager, n, &src, vars)
            }
            "bcdd" => {
                if vars < n {
                    return "bad-op".into();
                }
                run_count!(BCDDFunction, &mut self.bcdd, oxidd::bcdd::new_manager, n, &src, vars)
            }
            "zbdd" => run_count!(ZBDDFunction, &mut self.zbdd, oxidd::zbdd::new_manager, n, &src, vars),
            _ => return "bad-op".into(),
        };
        ctx.count(&format!("count_{kind}"));
        if vars >= 1021 && kind != "zbdd" {
            ctx.count("count_scaled");
        }
        if vars >= n && !exact.is_empty() {
            self.oracle(ctx, line, kind, n, vars, r, &exact);
        }
        show(r, vals)
    }
}

fn parse_bits(s: &str) -> Option<f64> {
    if s.is_empty() || s.len() > 16 || s.chars().any(|c| c.is_ascii_uppercase()) {
        return None;
    }
    let b = u64::from_str_radix(s, 16).ok()?;
    if b >> 63 != 0 {
        return None; // negative values are not modelled
    }
    Some(f64::from_bits(b))
}

impl Scenario for Sc {
    fn reset(&mut self) {
        *self = Sc::default();
    }
    fn step(&mut self, line: &str, ctx: &mut Ctx) -> String {
        let w = words(line);
        match w.as_slice() {
            ["count", kind, n, tt, vars] => {
                let (Ok(n), Ok(vars)) = (n.parse::<u32>(), vars.parse::<u32>()) else {
                    return "bad-op".into();
                };
                if n > 16 {
                    return "bad-op".into();
                }
                let Some(tt) = parse_tt(tt, n) else {
                    return "bad-op".into();
                };
                self.count(ctx, line, kind, n, Src::TT(tt), vars)
            }
            ["dag", kind, n, vars, rest @ ..] => {
                let (Ok(n), Ok(vars)) = (n.parse::<u32>(), vars.parse::<u32>()) else {
                    return "bad-op".into();
                };
                if n > 4096 {
                    return "bad-op".into();
                }
                let Some(d) = parse_dag(rest, n) else {
                    return "bad-op".into();
                };
                self.count(ctx, line, kind, n, Src::Dag(d), vars)
            }
            ["zdag", n, vars, rest @ ..] => {
                let (Ok(n), Ok(vars)) = (n.parse::<u32>(), vars.parse::<u32>()) else {
                    return "bad-op".into();
                };
                if n > 4096 {
                    return "bad-op".into();
                }
                let Some(d) = parse_dag(rest, n) else {
                    return "bad-op".into();
                };
                // Zbdd reduction: a node whose hi child is Empty is its lo child; `make_node` applies it
                self.count(ctx, line, "zbdd", n, Src::ZDag(d), vars)
            }
            ["scalar", "from", x] => match x.parse::<u32>() {
                Ok(x) => {
                    let r = F64::from(x).0;
                    if r != x as f64 || r.to_bits() != (x as f64).to_bits() {
                        ctx.fail("f64-from", &format!("F64::from({x}) = {r:e}"));
                    }
                    tok(r)
                }
                Err(_) => "bad-op".into(),
            },
            ["scalar", "add", a, b] => match (parse_bits(a), parse_bits(b)) {
                (Some(a), Some(b)) => {
                    ctx.count("scalar_add");
                    tok((F64(a) + F64(b)).0)
                }
                _ => "bad-op".into(),
            },
            ["scalar", op @ ("shl" | "shr"), a, k] => match (parse_bits(a), k.parse::<u32>()) {
                (Some(a), Ok(k)) => {
                    let r = if *op == "shl" { (F64(a) << k).0 } else { (F64(a) >> k).0 };
                    ctx.count(&format!("scalar_{op}"));
                    // oracle: a shift of a finite value never yields NaN; zero stays zero
                    if a.is_finite() && r.is_nan() {
                        ctx.fail("f64-shift-nan", &format!("{a:e} {op} {k} = NaN"));
                    }
                    if a == 0.0 && r != 0.0 {
                        ctx.fail("f64-shift-zero", &format!("0 {op} {k} = {r:e}"));
                    }
                    // a shift that stays within the normal range is an exact scaling by a power of two
                    // as long as the factor `2^k` / `2^-k` itself is a finite non-zero binary64 value
                    // (`x << k` is `x * exp2(k)`: from k = 1024 on the factor is `inf`; `x >> k` is
                    // `x * exp2(-k)`: from k = 1075 on the factor is `0`)
                    if a.is_finite() && a != 0.0 && (if *op == "shl" { k <= 1023 } else { k <= 1074 }) {
                        let ea = ((a.to_bits() >> 52) & 0x7ff) as i64;
                        let er = if *op == "shl" { ea + k as i64 } else { ea - k as i64 };
                        if ea >= 1 && (1..=2046).contains(&er) {
                            let expect = f64::from_bits((a.to_bits() & ((1u64 << 52) - 1)) | ((er as u64) << 52));
                            if r.to_bits() != expect.to_bits() {
                                ctx.fail("f64-shift-exact", &format!("{a:e} {op} {k} = {r:e}, expected {expect:e}"));
                            }
                            ctx.count("scalar_shift_exact_checked");
                        }
                    }
                    tok(r)
                }
                _ => "bad-op".into(),
            },
            _ => "bad-op".into(),
        }
    }
}

// ------------------------------------------------------------------------------------------------
// generator

const VARS: [u32; 13] = [3, 52, 53, 54, 64, 1000, 1020, 1021, 1022, 1023, 1024, 1074, 1100];

fn gen_dag(rng: &mut Rng, n: u32, limit: u64) -> Vec<String> {
    // bottom-up: levels n-1 down to 0; one node per chosen level; every node has a "main" child
    // (a recent node) and a second child that is a terminal or an earlier node, as long as the
    // unfolded tree stays below `limit` nodes (the Lean model works on the unfolding)
    let mut nodes: Vec<(u32, String, String, u64)> = Vec::new(); // level, t, e, unfolded size
    let mut l = n;
    while l > 0 {
        l -= 1;
        if l > 0 && !nodes.is_empty() && rng.chance(1, 8) {
            continue; // skip a level
        }
        let pick_term = |rng: &mut Rng| if rng.chance(1, 2) { "T".to_string() } else { "F".to_string() };
        let (a, sa) = if nodes.is_empty() {
            (pick_term(rng), 0)
        } else {
            let back = rng.below(3.min(nodes.len() as u64)) as usize;
            let i = nodes.len() - 1 - back;
            (i.to_string(), nodes[i].3)
        };
        let (b, sb) = if nodes.is_empty() || rng.chance(2, 5) {
            (pick_term(rng), 0)
        } else {
            let i = rng.below(nodes.len() as u64) as usize;
            if sa + nodes[i].3 + 1 > limit { (pick_term(rng), 0) } else { (i.to_string(), nodes[i].3) }
        };
        let (t, e) = if rng.chance(1, 2) { (a, b) } else { (b, a) };
        if t == e {
            continue;
        }
        nodes.push((l, t, e, sa + sb + 1));
    }
    nodes.into_iter().map(|(l, t, e, _)| format!("{l},{t},{e}")).collect()
}

fn generate(cfg: &GenCfg, rng: &mut Rng, w: &mut dyn Write) {
    // --- scalars ---
    writeln!(w, "case scalars").unwrap();
    for x in [0u32, 1, 2, 3, 7, (1 << 24) + 1, 1 << 31, u32::MAX, u32::MAX - 1] {
        writeln!(w, "scalar from {x}").unwrap();
    }
    for _ in 0..20 {
        writeln!(w, "scalar from {}", rng.next() as u32).unwrap();
    }
    let mut ops: Vec<u64> = vec![
        0,
        1,
        2,
        3,
        (1 << 52) - 1,
        1 << 52,              // 2^-1022
        (1 << 52) + 1,
        2 << 52,              // 2^-1021
        (2 << 52) + 1,
        0x3ff0000000000000,   // 1
        0x3ff0000000000001,
        0x3ff8000000000000,   // 1.5
        0x3fffffffffffffff,
        0x4008000000000000,   // 3
        0x4330000000000000,   // 2^52
        0x433fffffffffffff,   // 2^53 - 1
        0x4340000000000000,   // 2^53
        0x4340000000000001,
        0x3ca0000000000000,   // 2^-53
        0x3cb0000000000000,   // 2^-52
        0x7fd0000000000000,   // 2^1022
        0x7fe0000000000000,   // 2^1023
        0x7fefffffffffffff,   // max finite
        0x7fe0000000000001,
        0x7ff0000000000000,   // inf
        0x7ff8000000000000,   // NaN
        0x0000000000000555,
        0x000aaaaaaaaaaaab,
        0x001fffffffffffff,
    ];
    for _ in 0..(8 * cfg.scale.max(1)) {
        ops.push(rng.next() >> 1);
        // small exponents / large exponents
        ops.push((rng.next() >> 1) % (3u64 << 52));
        ops.push(0x7fe0000000000000 - (rng.next() % (3u64 << 52)));
    }
    let shifts: [u32; 22] = [0, 1, 2, 51, 52, 53, 54, 1020, 1021, 1022, 1023, 1024, 1025, 1073, 1074, 1075, 1076, 2000, 2098, 2200, 1 << 31, u32::MAX];
    for &a in &ops {
        for &k in &shifts {
            writeln!(w, "scalar shl {a:016x} {k}").unwrap();
            writeln!(w, "scalar shr {a:016x} {k}").unwrap();
        }
        for _ in 0..4 {
            let k = rng.below(2300) as u32;
            writeln!(w, "scalar shl {a:016x} {k}").unwrap();
            writeln!(w, "scalar shr {a:016x} {k}").unwrap();
        }
    }
    for &a in &ops {
        for &b in &ops {
            writeln!(w, "scalar add {a:016x} {b:016x}").unwrap();
        }
    }
    // additions with nearby exponents (ties, carries, subnormal sums)
    for _ in 0..(400 * cfg.scale.max(1)) {
        let a = rng.next() >> 1;
        let a = if rng.chance(1, 4) { a % (4u64 << 52) } else if rng.chance(1, 4) { 0x7fefffffffffffff - a % (2u64 << 52) } else { a % 0x7ff0000000000000 };
        let ea = a >> 52;
        let d = rng.below(60);
        let eb = if rng.chance(1, 2) { ea.saturating_sub(d) } else { (ea + d).min(2046) };
        let mut fb = rng.next() & ((1 << 52) - 1);
        if rng.chance(1, 3) {
            fb &= !((1u64 << rng.below(52)) - 1); // many trailing zeros: exact ties
        }
        let b = (eb << 52) | fb;
        writeln!(w, "scalar add {a:016x} {b:016x}").unwrap();
    }
    // every shift amount around the boundaries on 1.0 (exp2 on integral arguments)
    for k in 0..2300u32 {
        writeln!(w, "scalar shl 3ff0000000000000 {k}").unwrap();
        writeln!(w, "scalar shr 3ff0000000000000 {k}").unwrap();
    }
    // malformed
    writeln!(w, "case malformed").unwrap();
    for l in ["scalar", "scalar add 0 zz", "scalar shl 8000000000000000 1", "scalar from 4294967296", "count bdd 3 e8 2", "count xdd 3 e8 3", "count bdd 3 e 3", "count bdd 3 e8f 3", "dag bdd 4 4", "dag bdd 4 4 1,T,F 1,0,F", "dag bdd 4 4 5,T,F", "dag bdd 4 4 1,T", "frob"] {
        writeln!(w, "{l}").unwrap();
    }
    // --- all 256 functions of three variables ---
    for kind in ["bdd", "bcdd", "zbdd"] {
        writeln!(w, "case all3-{kind}").unwrap();
        for f in 0..256u32 {
            let tt: Vec<bool> = (0..8).map(|a| (f >> a) & 1 != 0).collect();
            for &v in &VARS {
                writeln!(w, "count {kind} 3 {} {v}", tt_hex(&tt)).unwrap();
            }
            if kind == "zbdd" {
                for v in 0..3 {
                    writeln!(w, "count {kind} 3 {} {v}", tt_hex(&tt)).unwrap();
                }
            }
            if f % 16 == 1 {
                for v in [2043, 2044, 2045, 2046, 2047, 2048, 2100, 3000, 4_000_000_000u32] {
                    writeln!(w, "count {kind} 3 {} {v}", tt_hex(&tt)).unwrap();
                }
            }
        }
    }
    // --- random functions over 8..12 variables ---
    let reps = if cfg.thorough { 40 } else { 8 } * cfg.scale.max(1);
    for i in 0..reps {
        let n = rng.range(8, 12) as u32;
        let dens = *rng.pick(&[1u64, 2, 8, 15, 16]);
        let tt: Vec<bool> = (0..(1usize << n)).map(|_| rng.below(16) < dens).collect();
        let hex = tt_hex(&tt);
        writeln!(w, "case rand-{i}-n{n}").unwrap();
        for kind in ["bdd", "bcdd", "zbdd"] {
            let mut vs: Vec<u32> = vec![n, n + 1, 52, 53, 54, 64, 1000, 1020, 1021, 1022, 1023, 1024, 1074, 1100, 1021 + n, 2044, 2045];
            vs.push(rng.range(n as u64, 2100) as u32);
            for v in vs {
                writeln!(w, "count {kind} {n} {hex} {v}").unwrap();
            }
        }
    }
    // --- diagrams over many variables: counts with more than 53 significant bits ---
    let reps = if cfg.thorough { 150 } else { 30 } * cfg.scale.max(1);
    for i in 0..reps {
        let n = *rng.pick(&[12u32, 40, 54, 60, 64, 80, 100, 120]);
        let nodes = gen_dag(rng, n, 3000);
        writeln!(w, "case dag-{i}-n{n}").unwrap();
        // (the Lean model works on the unfolding; the don't-care chains of a ZBDD of a Boolean
        // function with skipped levels unfold exponentially, so `dag zbdd` only for few variables)
        let kinds: &[&str] = if n <= 12 { &["bdd", "bcdd", "zbdd"] } else { &["bdd", "bcdd"] };
        for kind in kinds {
            let mut vs: Vec<u32> = vec![n, n + 1, 1020, 1021, 1022, 1023, 1024, 1100, 2044];
            vs.push(rng.range(n as u64, 1200) as u32);
            for v in vs {
                writeln!(w, "dag {kind} {n} {v} {}", nodes.join(" ")).unwrap();
            }
        }
        // the same node list read as a ZBDD (set-family semantics, `make_node`): `T` is Base, `F` is Empty
        for v in [n, n + 1, n + 53, n + 500, n + 1023, n + 1024, n / 2] {
            writeln!(w, "zdag {n} {v} {}", nodes.join(" ")).unwrap();
        }
    }
    // a comparator chain `x < K` over 64..1100 bits: the count is K (many significant bits), and
    // with n = 1030 > 1021 variables the scaled terminal value is halved n times down to 2^-1021
    for (i, n) in [64u32, 100, 1021, 1030, 1100, 2044].into_iter().enumerate() {
        let mut nodes: Vec<String> = Vec::new();
        let mut l = n;
        while l > 0 {
            l -= 1;
            let prev = if nodes.is_empty() { "F".to_string() } else { (nodes.len() - 1).to_string() };
            if rng.chance(1, 2) {
                nodes.push(format!("{l},{prev},T")); // K_l = 1: x_l = 0 is smaller
            } else if prev != "F" {
                nodes.push(format!("{l},F,{prev}")); // K_l = 0
            }
        }
        if nodes.is_empty() {
            nodes.push(format!("{},F,T", n - 1));
        }
        writeln!(w, "case cmp-{i}-n{n}").unwrap();
        for kind in ["bdd", "bcdd"] {
            for v in [n, n + 1, n.max(1021), n.max(1022), n.max(1100), 2044, 2045] {
                writeln!(w, "dag {kind} {n} {v} {}", nodes.join(" ")).unwrap();
            }
        }
        for v in [n, n + 1, n + 1000] {
            writeln!(w, "zdag {n} {v} {}", nodes.join(" ")).unwrap();
        }
    }
    // beyond the range of the scaling trick: the conjunction of all n variables has ONE model
    writeln!(w, "case range-andchain").unwrap();
    for n in [1021u32, 2043, 2044, 2045, 3000] {
        let mut nodes: Vec<String> = Vec::new();
        let mut l = n;
        while l > 0 {
            l -= 1;
            let prev = if nodes.is_empty() { "T".to_string() } else { (nodes.len() - 1).to_string() };
            nodes.push(format!("{l},{prev},F"));
        }
        for kind in ["bdd", "bcdd"] {
            for v in [n, n + 1] {
                writeln!(w, "dag {kind} {n} {v} {}", nodes.join(" ")).unwrap();
            }
        }
    }
}

fn make(_f: &BTreeMap<String, String>) -> Box<dyn Scenario> {
    Box::new(Sc::default())
}
fn main() {
    harness_main(generate, make)
}
