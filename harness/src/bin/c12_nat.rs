//! C12, number-type half: `oxidd_core::util::num::Natural` and `Saturating<u64|u128>`.
//!
//! Protocol `nat`.  Values live in named slots (`n…` naturals, `s…` saturating integers).
//!
//! ```text
//! from32|from64|from128 x <dec|0x…>   -> <repr>          From<u32>/From<u64>/From<u128>
//! fromle x <hexdigit>*                -> <repr>          Natural::from_le_digits (little endian u64 digits)
//! add z x y | shl z x k | shr z x k   -> <repr>          Add, Shl<u64>, Shr<u64> (shl32/shr32: the u32 impls)
//! cmp x y                             -> lt|eq|gt|none   PartialOrd
//! eq x y                              -> 0|1             PartialEq
//! fmt x b|o|x|X|d [<spec>]            -> string          Binary/Octal/LowerHex/UpperHex/Display
//! f64 x                               -> 16 hex digits   From<&Natural> for f64 (bit pattern)
//! u64 x | u128 x                      -> value | err     TryFrom<&Natural>
//! bw x                                -> decimal | PANIC Natural::bit_width
//! isnan x                             -> 0|1
//! s64|s128 from x v | add z x y | sub z x y | shl z x k | shr z x k | cmp x y   -> hex value
//! ```
//!
//! `<repr>` shows the representation (not only the value): `i<hex mantissa>p<exp>` for the
//! inline form, `h<d0>,<d1>,…p<exp>` for the heap form (raw digits, including a possible zero
//! top digit), prefixed by `NAN:` when the exponent is `u64::MAX`.
//!
//! The oracle is an independent schoolbook big-natural on `Vec<u32>` limbs plus a separate binary
//! exponent (`RefNum`); it is neither the code under test nor the Lean model.
use oxidd_core::util::num::{Natural, Saturating};
use oxv::*;
use std::cmp::Ordering;
use std::collections::BTreeMap;
use std::io::Write;

// ------------------------------------------------------------------------------------------------
// Independent reference: schoolbook naturals on u32 limbs
// ------------------------------------------------------------------------------------------------

#[derive(Clone, Debug, PartialEq, Eq)]
struct Big(Vec<u32>); // little endian, no zero limb at the top; zero = empty

impl Big {
    fn zero() -> Big {
        Big(Vec::new())
    }
    fn trim(mut self) -> Big {
        while let Some(0) = self.0.last() {
            self.0.pop();
        }
        self
    }
    fn from_u128(mut v: u128) -> Big {
        let mut l = Vec::new();
        while v != 0 {
            l.push(v as u32);
            v >>= 32;
        }
        Big(l)
    }
    fn from_u64_digits(ds: &[u64]) -> Big {
        let mut l = Vec::new();
        for &d in ds {
            l.push(d as u32);
            l.push((d >> 32) as u32);
        }
        Big(l).trim()
    }
    fn is_zero(&self) -> bool {
        self.0.is_empty()
    }
    fn bits(&self) -> u64 {
        match self.0.last() {
            None => 0,
            Some(t) => 32 * self.0.len() as u64 - t.leading_zeros() as u64,
        }
    }
    fn bit(&self, i: u64) -> bool {
        let l = (i / 32) as usize;
        l < self.0.len() && (self.0[l] >> (i % 32)) & 1 == 1
    }
    /// trailing zero bits (0 for zero)
    fn tz(&self) -> u64 {
        for (i, &l) in self.0.iter().enumerate() {
            if l != 0 {
                return 32 * i as u64 + l.trailing_zeros() as u64;
            }
        }
        0
    }
    fn shl(&self, k: u64) -> Big {
        if self.is_zero() {
            return Big::zero();
        }
        let (q, r) = ((k / 32) as usize, (k % 32) as u32);
        let mut out = vec![0u32; q];
        let mut carry = 0u32;
        for &l in &self.0 {
            let w = ((l as u64) << r) | carry as u64;
            out.push(w as u32);
            carry = (w >> 32) as u32;
        }
        out.push(carry);
        Big(out).trim()
    }
    /// floor(self / 2^k)
    fn shr(&self, k: u64) -> Big {
        let (q, r) = ((k / 32) as usize, (k % 32) as u32);
        if q >= self.0.len() {
            return Big::zero();
        }
        let mut out = Vec::new();
        for i in q..self.0.len() {
            let lo = self.0[i] as u64;
            let hi = if i + 1 < self.0.len() { self.0[i + 1] as u64 } else { 0 };
            out.push((((hi << 32) | lo) >> r) as u32);
        }
        Big(out).trim()
    }
    fn add(&self, o: &Big) -> Big {
        let n = self.0.len().max(o.0.len());
        let mut out = Vec::with_capacity(n + 1);
        let mut c = 0u64;
        for i in 0..n {
            let a = *self.0.get(i).unwrap_or(&0) as u64;
            let b = *o.0.get(i).unwrap_or(&0) as u64;
            let s = a + b + c;
            out.push(s as u32);
            c = s >> 32;
        }
        out.push(c as u32);
        Big(out).trim()
    }
    fn cmp(&self, o: &Big) -> Ordering {
        if self.0.len() != o.0.len() {
            return self.0.len().cmp(&o.0.len());
        }
        for i in (0..self.0.len()).rev() {
            if self.0[i] != o.0[i] {
                return self.0[i].cmp(&o.0[i]);
            }
        }
        Ordering::Equal
    }
    /// digits in base 2^b (b in 1..=4), most significant first
    fn to_pow2(&self, b: u64, upper: bool) -> String {
        if self.is_zero() {
            return "0".into();
        }
        let n = self.bits().div_ceil(b);
        let mut s = String::new();
        for j in (0..n).rev() {
            let mut d = 0u32;
            for t in (0..b).rev() {
                d = (d << 1) | self.bit(j * b + t) as u32;
            }
            let c = std::char::from_digit(d, 16).unwrap();
            s.push(if upper { c.to_ascii_uppercase() } else { c });
        }
        s
    }
    fn to_dec(&self) -> String {
        if self.is_zero() {
            return "0".into();
        }
        let mut cur = self.0.clone();
        let mut chunks: Vec<u32> = Vec::new();
        while !cur.is_empty() {
            let mut rem = 0u64;
            for i in (0..cur.len()).rev() {
                let w = (rem << 32) | cur[i] as u64;
                cur[i] = (w / 1_000_000_000) as u32;
                rem = w % 1_000_000_000;
            }
            while let Some(0) = cur.last() {
                cur.pop();
            }
            chunks.push(rem as u32);
        }
        let mut s = format!("{}", chunks.last().unwrap());
        for c in chunks.iter().rev().skip(1) {
            s.push_str(&format!("{:09}", c));
        }
        s
    }
    fn low_u128(&self) -> u128 {
        let mut v = 0u128;
        for i in (0..4.min(self.0.len())).rev() {
            v = (v << 32) | self.0[i] as u128;
        }
        v
    }
}

const EXP_NAN: u128 = u64::MAX as u128;

/// value `m · 2^e`, `m` odd or zero (then `e = 0`)
#[derive(Clone, Debug, PartialEq, Eq)]
struct RefNum {
    m: Big,
    e: u128,
}
/// `None` is the error value
type RefVal = Option<RefNum>;

/// largest mantissa width (bits) the generator lets an addition produce
const MAX_MANT_BITS: u128 = 1 << 16;

impl RefNum {
    fn zero() -> RefNum {
        RefNum { m: Big::zero(), e: 0 }
    }
    /// normalise `m · 2^e` (m arbitrary); `None` when the exponent is not representable
    fn norm(m: Big, e: u128) -> RefVal {
        if m.is_zero() {
            return Some(RefNum::zero());
        }
        let t = m.tz();
        let e = e + t as u128;
        if e >= EXP_NAN {
            return None;
        }
        Some(RefNum { m: m.shr(t), e })
    }
    fn bits(&self) -> u128 {
        if self.m.is_zero() { 0 } else { self.m.bits() as u128 + self.e }
    }
    /// the explicit natural (only for moderate exponents)
    fn explicit(&self) -> Big {
        assert!(self.e < (1 << 24));
        self.m.shl(self.e as u64)
    }
}

fn ref_add(a: &RefVal, b: &RefVal) -> RefVal {
    let (a, b) = (a.as_ref()?, b.as_ref()?);
    if a.m.is_zero() {
        return Some(b.clone());
    }
    if b.m.is_zero() {
        return Some(a.clone());
    }
    let e = a.e.min(b.e);
    assert!(a.e - e < 4 * MAX_MANT_BITS && b.e - e < 4 * MAX_MANT_BITS, "reference add: operands too far apart");
    let s = a.m.shl((a.e - e) as u64).add(&b.m.shl((b.e - e) as u64));
    RefNum::norm(s, e)
}
fn ref_shl(a: &RefVal, k: u64) -> RefVal {
    let a = a.as_ref()?;
    RefNum::norm(a.m.clone(), a.e + k as u128)
}
fn ref_shr(a: &RefVal, k: u64) -> RefVal {
    let a = a.as_ref()?;
    if a.m.is_zero() {
        return Some(RefNum::zero());
    }
    if (k as u128) > a.e {
        return None; // a one bit would be shifted out
    }
    Some(RefNum { m: a.m.clone(), e: a.e - k as u128 })
}
fn ref_cmp(a: &RefVal, b: &RefVal) -> Option<Ordering> {
    let (a, b) = (a.as_ref()?, b.as_ref()?);
    let (wa, wb) = (a.bits(), b.bits());
    if wa != wb {
        return Some(wa.cmp(&wb));
    }
    if wa == 0 {
        return Some(Ordering::Equal);
    }
    // same width: align at the top bit; the exponent difference is below the width of the wider mantissa
    let e = a.e.min(b.e);
    let da = a.e - e;
    let db = b.e - e;
    // da ≤ bits(b.m), db ≤ bits(a.m) because the total widths agree
    Some(a.m.shl(da as u64).cmp(&b.m.shl(db as u64)))
}
/// correctly rounded (nearest, ties to even) binary64 bit pattern
fn ref_f64(a: &RefVal) -> u64 {
    let Some(a) = a else { return f64::NAN.to_bits() };
    if a.m.is_zero() {
        return 0;
    }
    let w = a.bits(); // value in [2^(w-1), 2^w)
    if w > 1024 {
        return f64::INFINITY.to_bits();
    }
    let mb = a.m.bits();
    // the top 53 bits of the mantissa (value scaled so that the leading one is bit 52), plus rounding
    let (mut sig, round_up): (u64, bool);
    if mb <= 53 {
        sig = (a.m.low_u128() as u64) << (53 - mb);
        round_up = false;
    } else {
        let cut = mb - 53; // bits dropped
        let top = a.m.shr(cut).low_u128() as u64;
        let half = a.m.bit(cut - 1);
        let sticky = a.m.tz() < cut - 1;
        sig = top;
        round_up = half && (sticky || top & 1 == 1);
    }
    let mut exp = w as u64 - 1; // unbiased exponent
    if round_up {
        sig += 1;
        if sig == 1 << 53 {
            sig >>= 1;
            exp += 1;
        }
    }
    if exp > 1023 {
        return f64::INFINITY.to_bits();
    }
    ((exp + 1023) << 52) | (sig & ((1 << 52) - 1))
}

// ------------------------------------------------------------------------------------------------
// Observation of the real representation
// ------------------------------------------------------------------------------------------------

/// (heap?, raw digits, exponent)
fn raw(n: &Natural) -> (bool, Vec<u64>, u64) {
    let (ptr, len, shl) = n.clone().into_raw_parts();
    if ptr.is_null() {
        (false, vec![len], shl)
    } else {
        // SAFETY: `ptr` points to `len` digits owned by the clone we just decomposed
        let ds = unsafe { std::slice::from_raw_parts(ptr, len as usize) }.to_vec();
        // give the allocation back
        drop(unsafe { Natural::from_raw_parts(ptr, len, shl) });
        (true, ds, shl)
    }
}

fn show(n: &Natural) -> String {
    let (heap, ds, shl) = raw(n);
    let mut s = String::new();
    if shl == u64::MAX {
        s.push_str("NAN:");
    }
    s.push(if heap { 'h' } else { 'i' });
    for (i, d) in ds.iter().enumerate() {
        if i > 0 {
            s.push(',');
        }
        s.push_str(&format!("{:x}", d));
    }
    s.push_str(&format!("p{}", shl));
    s
}

/// the value the code's representation denotes, in the oracle's terms
fn ref_of(n: &Natural) -> RefVal {
    if n.is_nan() { None } else { RefNum::norm(Big::from_u64_digits(n.mantissa()), n.exp() as u128) }
}

/// Would `a + b` need a mantissa of more than 2^22 bits?  (Such sums are outside the explored
/// domain: the code would try to allocate the digits.)  Decided on the representation only.
fn too_wide(a: &Natural, b: &Natural) -> bool {
    if a.is_nan() || b.is_nan() || a.mantissa() == [0] || b.mantissa() == [0] {
        return false;
    }
    let top = |n: &Natural| n.exp() as u128 + 64 * n.mantissa().len() as u128;
    let lo = a.exp().min(b.exp()) as u128;
    top(a).max(top(b)) - lo > (1 << 22)
}

/// Which branch of `Add::add` do these operands take?  Decided from the representation by
/// re-deriving the branch conditions (statistics only; the oracle does not depend on it).
fn classify_add(a: &Natural, b: &Natural) -> String {
    if a.is_nan() || b.is_nan() {
        return "nan".into();
    }
    let (ha, da, sa) = raw(a);
    let (hb, db, sb) = raw(b);
    let len_a = if ha { da.len() as u64 } else { da[0] };
    let len_b = if hb { db.len() as u64 } else { db[0] };
    if len_b == 0 {
        return "rhs-zero".into();
    }
    if len_a == 0 {
        return "lhs-zero".into();
    }
    let (l, ls, r, rs) = if sa > sb { (db, sb, da, sa) } else { (da, sa, db, sb) };
    let bw = |d: &[u64], s: u64| 64 * d.len() as u128 - d.last().unwrap().leading_zeros() as u128 + s as u128;
    let w = bw(&l, ls).max(bw(&r, rs)) + 1;
    if ls < rs {
        let bit_len = w - ls as u128;
        let len = bit_len.div_ceil(64) as usize;
        let sd = ((rs - ls) / 64) as usize;
        let sbit = (rs - ls) % 64;
        return if bit_len <= 65 {
            "diff-single".into()
        } else if len == l.len() {
            format!("diff-inplace{}", if sd + r.len() < l.len() { "-carry-tail" } else { "" })
        } else if sd >= l.len() {
            format!("diff-disjoint{}", if sbit == 0 { "-aligned" } else { "" })
        } else {
            format!("diff-vec{}", if sd + r.len() > l.len() { "-r-longer" } else { "-l-longer" })
        };
    }
    // equal exponents: the sum's digits
    let n = l.len().max(r.len());
    let mut s = Vec::with_capacity(n + 2);
    let mut c = 0u128;
    for i in 0..n {
        let t = *l.get(i).unwrap_or(&0) as u128 + *r.get(i).unwrap_or(&0) as u128 + c;
        s.push(t as u64);
        c = t >> 64;
    }
    s.push(c as u64);
    s.push(0);
    let k = s.iter().position(|&d| d != 0).unwrap();
    let t = s[k].trailing_zeros() as u64;
    let Some(shl) = ls.checked_add(t).and_then(|x| x.checked_add((k as u64).checked_mul(64)?)) else {
        return "same-exp-overflow".into();
    };
    let bit_len = w - shl as u128;
    let len = bit_len.div_ceil(64) as usize;
    let next = s[k + 1];
    let skip = if k > 0 { "-skip" } else { "" };
    let sh0 = if t == 0 { "-shr0" } else { "" };
    if bit_len <= 65 && next >> t == 0 {
        format!("same-single{}", skip)
    } else if len == l.len() {
        format!("same-inplace{}{}{}", if r.len() > l.len() { "-r-longer" } else { "" }, skip, sh0)
    } else {
        format!("same-vec{}{}", skip, sh0)
    }
}

/// representation invariant (`check_inv` of the crate plus the documented "> u64::MAX" for the heap form)
fn inv_violation(n: &Natural) -> Option<String> {
    let (heap, ds, shl) = raw(n);
    if !heap {
        let d = ds[0];
        if d == 0 {
            if shl != 0 && shl != u64::MAX {
                return Some(format!("zero mantissa with exponent {}", shl));
            }
        } else if d & 1 == 0 {
            return Some(format!("even inline mantissa {:x}", d));
        }
    } else {
        if ds.len() < 2 {
            return Some("heap form with fewer than two digits".into());
        }
        if ds[0] & 1 == 0 {
            return Some("even least significant digit".into());
        }
        if *ds.last().unwrap() == 0 && ds[ds.len() - 2] >> 63 != 1 {
            return Some("zero top digit and the digit below has a clear top bit".into());
        }
        if ds.len() == 2 && ds[1] == 0 {
            return Some("heap form of a value that fits one digit".into());
        }
    }
    None
}

// ------------------------------------------------------------------------------------------------
// Scenario
// ------------------------------------------------------------------------------------------------

struct Nat {
    vals: BTreeMap<String, Natural>,
    refs: BTreeMap<String, RefVal>,
    s64: BTreeMap<String, Saturating<u64>>,
    s128: BTreeMap<String, Saturating<u128>>,
}

fn parse_u128(s: &str) -> Option<u128> {
    if let Some(h) = s.strip_prefix("0x") {
        u128::from_str_radix(h, 16).ok()
    } else {
        s.parse().ok()
    }
}

fn ord_str(o: Option<Ordering>) -> &'static str {
    match o {
        None => "none",
        Some(Ordering::Less) => "lt",
        Some(Ordering::Equal) => "eq",
        Some(Ordering::Greater) => "gt",
    }
}

fn fmt_real(n: &Natural, kind: &str, spec: &str) -> Option<String> {
    macro_rules! specs {
        ($k:literal) => {
            match spec {
                "" => format!(concat!("{:", $k, "}"), n),
                "#" => format!(concat!("{:#", $k, "}"), n),
                "+" => format!(concat!("{:+", $k, "}"), n),
                "24" => format!(concat!("{:24", $k, "}"), n),
                "<24" => format!(concat!("{:<24", $k, "}"), n),
                "^25" => format!(concat!("{:^25", $k, "}"), n),
                "*>24" => format!(concat!("{:*>24", $k, "}"), n),
                "#030" => format!(concat!("{:#030", $k, "}"), n),
                "+#9" => format!(concat!("{:+#9", $k, "}"), n),
                "_^+#031" => format!(concat!("{:_^+#031", $k, "}"), n),
                "1" => format!(concat!("{:1", $k, "}"), n),
                "*<2" => format!(concat!("{:*<2", $k, "}"), n),
                "*^6" => format!(concat!("{:*^6", $k, "}"), n),
                _ => return None,
            }
        };
    }
    Some(match kind {
        "b" => specs!("b"),
        "o" => specs!("o"),
        "x" => specs!("x"),
        "X" => specs!("X"),
        "d" => specs!(""),
        _ => return None,
    })
}

/// what the std formatting machinery prints for an integer with digit string `digits`
/// (`pad_integral` semantics), computed independently for the oracle
fn ref_pad(digits: &str, prefix: &str, spec: &str, nan: bool) -> String {
    // parse the spec: [[fill]align][+][#][0][width]
    let cs: Vec<char> = spec.chars().collect();
    let mut i = 0;
    let mut fill = ' ';
    let mut align = None;
    if cs.len() >= 2 && matches!(cs[1], '<' | '>' | '^') {
        fill = cs[0];
        align = Some(cs[1]);
        i = 2;
    } else if !cs.is_empty() && matches!(cs[0], '<' | '>' | '^') {
        align = Some(cs[0]);
        i = 1;
    }
    let mut plus = false;
    let mut alt = false;
    let mut zero = false;
    if i < cs.len() && cs[i] == '+' {
        plus = true;
        i += 1;
    }
    if i < cs.len() && cs[i] == '#' {
        alt = true;
        i += 1;
    }
    if i < cs.len() && cs[i] == '0' {
        zero = true;
        i += 1;
    }
    let width: usize = cs[i..].iter().collect::<String>().parse().unwrap_or(0);
    if nan {
        // documented: a single `?`, padded like a string (right-aligned by default), no sign/prefix
        let pad = width.saturating_sub(1);
        let (l, r) = match align {
            Some('<') => (0, pad),
            Some('^') => (pad / 2, pad - pad / 2),
            _ => (pad, 0),
        };
        let mut s: String = std::iter::repeat(fill).take(l).collect();
        s.push('?');
        s.extend(std::iter::repeat(fill).take(r));
        return s;
    }
    let mut body = String::new();
    if plus {
        body.push('+');
    }
    if alt {
        body.push_str(prefix);
    }
    let used = body.chars().count() + digits.chars().count();
    let pad = width.saturating_sub(used);
    if zero {
        // sign and prefix first, then zeros, then digits
        let mut s = body;
        s.extend(std::iter::repeat('0').take(pad));
        s.push_str(digits);
        return s;
    }
    let (l, r) = match align {
        Some('<') => (0, pad),
        Some('^') => (pad / 2, pad - pad / 2),
        _ => (pad, 0),
    };
    let mut s: String = std::iter::repeat(fill).take(l).collect();
    s.push_str(&body);
    s.push_str(digits);
    s.extend(std::iter::repeat(fill).take(r));
    s
}

impl Nat {
    fn new() -> Self {
        Nat { vals: BTreeMap::new(), refs: BTreeMap::new(), s64: BTreeMap::new(), s128: BTreeMap::new() }
    }

    /// store a result, compare it with the reference value and audit the representation
    fn put(&mut self, ctx: &mut Ctx, op: &str, z: &str, n: Natural, r: RefVal) -> String {
        let out = show(&n);
        let fails_before = ctx.failures.len();
        if let Some(v) = inv_violation(&n) {
            ctx.fail(&format!("{}-inv", op), &format!("representation invariant broken after {}: {} ({})", op, v, out));
        }
        match &r {
            None => {
                ctx.count("res_nan");
                if !n.is_nan() {
                    ctx.fail(
                        &format!("{}-nan-lost", op),
                        &format!("{}: the exact result is the error value but the code returned the number {}", op, out),
                    );
                }
            }
            Some(rv) => {
                if n.is_nan() {
                    ctx.fail(
                        &format!("{}-spurious-nan", op),
                        &format!("{}: expected {:?}·2^{} but got the error value", op, rv.m.to_pow2(4, false), rv.e),
                    );
                } else {
                    let got = Big::from_u64_digits(n.mantissa());
                    if got != rv.m || n.exp() as u128 != rv.e {
                        ctx.fail(
                            &format!("{}-value", op),
                            &format!(
                                "{}: expected {}·2^{} but got {}·2^{}",
                                op,
                                rv.m.to_pow2(4, false),
                                rv.e,
                                got.to_pow2(4, false),
                                n.exp()
                            ),
                        );
                    }
                }
                let (heap, ds, _) = raw(&n);
                if heap {
                    ctx.count("res_heap");
                    if *ds.last().unwrap() == 0 {
                        ctx.count("res_heap_top_zero");
                    }
                } else {
                    ctx.count("res_inline");
                }
            }
        }
        // after a failure continue from what the code really produced, so that one defect is
        // reported where it happens and not again in everything computed from its result
        let r = if ctx.failures.len() != fails_before { ref_of(&n) } else { r };
        self.vals.insert(z.to_string(), n);
        self.refs.insert(z.to_string(), r);
        out
    }

    fn nat_step(&mut self, w: &[&str], ctx: &mut Ctx) -> Option<String> {
        match w {
            [op @ ("from32" | "from64" | "from128"), x, v] => {
                let v = parse_u128(v)?;
                let n = match *op {
                    "from32" => Natural::from(u32::try_from(v).ok()?),
                    "from64" => Natural::from(u64::try_from(v).ok()?),
                    _ => Natural::from(v),
                };
                ctx.count(op);
                let r = RefNum::norm(Big::from_u128(v), 0);
                Some(self.put(ctx, "from", x, n, r))
            }
            [op @ "fromle", x, ds @ ..] => {
                let mut digits = Vec::new();
                for d in ds {
                    digits.push(u64::from_str_radix(d, 16).ok()?);
                }
                ctx.count(op);
                let n = Natural::from_le_digits(&digits);
                let r = RefNum::norm(Big::from_u64_digits(&digits), 0);
                Some(self.put(ctx, "fromle", x, n, r))
            }
            ["clonefrom", z, x, y] => {
                // z := x.clone(); z.clone_from(&y)   (must equal y, whatever x's representation was)
                let mut a = self.vals.get(*x)?.clone();
                let b = self.vals.get(*y)?;
                a.clone_from(b);
                ctx.count("clonefrom");
                let r = self.refs.get(*y)?.clone();
                Some(self.put(ctx, "clonefrom", z, a, r))
            }
            ["add", z, x, y] => {
                let a = self.vals.get(*x)?.clone();
                let b = self.vals.get(*y)?.clone();
                if too_wide(&a, &b) {
                    ctx.count("add_too_wide");
                    return Some("too-wide".into());
                }
                let r = ref_add(self.refs.get(*x)?, self.refs.get(*y)?);
                {
                    let (ra, rb) = (self.refs.get(*x)?, self.refs.get(*y)?);
                    match (ra, rb) {
                        (Some(p), Some(q)) if p.m.is_zero() || q.m.is_zero() => ctx.count("add_zero_operand"),
                        (Some(p), Some(q)) if p.e == q.e => ctx.count("add_same_exp"),
                        (Some(p), Some(q)) => {
                            ctx.count("add_diff_exp");
                            let (lo, hi) = if p.e < q.e { (p, q) } else { (q, p) };
                            if hi.e - lo.e >= lo.m.bits() as u128 {
                                ctx.count("add_disjoint");
                            }
                        }
                        _ => ctx.count("add_nan_operand"),
                    }
                    if r.is_none() && ra.is_some() && rb.is_some() {
                        ctx.count("add_exp_overflow");
                    }
                }
                ctx.count(&format!("addbr_{}", classify_add(&a, &b)));
                let n = a + b;
                Some(self.put(ctx, "add", z, n, r))
            }
            [op @ ("shl" | "shl32" | "shr" | "shr32"), z, x, k] => {
                let a = self.vals.get(*x)?.clone();
                let k: u64 = k.parse().ok()?;
                let rx = self.refs.get(*x)?;
                let (n, r) = match *op {
                    "shl" => (a << k, ref_shl(rx, k)),
                    "shl32" => (a << u32::try_from(k).ok()?, ref_shl(rx, k)),
                    "shr" => (a >> k, ref_shr(rx, k)),
                    _ => (a >> u32::try_from(k).ok()?, ref_shr(rx, k)),
                };
                if r.is_none() && rx.is_some() {
                    ctx.count(if op.starts_with("shl") { "shl_exp_overflow" } else { "shr_inexact" });
                }
                ctx.count(&op[..3]);
                Some(self.put(ctx, &op[..3], z, n, r))
            }
            ["cmp", x, y] => {
                let (a, b) = (self.vals.get(*x)?, self.vals.get(*y)?);
                let got = a.partial_cmp(b);
                let exp = ref_cmp(self.refs.get(*x)?, self.refs.get(*y)?);
                ctx.count(&format!("cmp_{}", ord_str(exp)));
                if got != exp {
                    ctx.fail("cmp", &format!("partial_cmp({}, {}) = {} but the values compare {}", show(a), show(b), ord_str(got), ord_str(exp)));
                }
                // antisymmetry on the implementation itself
                let rev = b.partial_cmp(a);
                if rev != got.map(|o| o.reverse()) {
                    ctx.fail("cmp-antisym", &format!("partial_cmp({}, {}) = {} but reversed = {}", show(a), show(b), ord_str(got), ord_str(rev)));
                }
                Some(ord_str(got).to_string())
            }
            ["eq", x, y] => {
                let (a, b) = (self.vals.get(*x)?, self.vals.get(*y)?);
                let got = a == b;
                let exp = self.refs.get(*x)? == self.refs.get(*y)?; // the error value equals itself (`Eq`)
                if got != exp {
                    ctx.fail("eq", &format!("{} == {} is {} but the values are {}", show(a), show(b), got, if exp { "equal" } else { "different" }));
                }
                ctx.count(if exp { "eq_true" } else { "eq_false" });
                Some((got as u8).to_string())
            }
            ["fmt", x, kind] | ["fmt", x, kind, _] => {
                let spec = if w.len() == 4 { w[3] } else { "" };
                let a = self.vals.get(*x)?;
                if !matches!(*kind, "b" | "o" | "x" | "X" | "d") || !FMT_SPECS.contains(&spec) {
                    return None;
                }
                // printing 2^(2^40) is outside the explored domain (decided on the representation)
                if !a.is_nan() && a.bit_width() > (1 << 20) && !(*kind == "d" && a.exp() > (1 << 40)) {
                    ctx.count("fmt_too_wide");
                    return Some("too-wide".into());
                }
                let got = fmt_real(a, kind, spec)?;
                let r = self.refs.get(*x)?;
                let (b, prefix, upper) = match *kind {
                    "b" => (1, "0b", false),
                    "o" => (3, "0o", false),
                    "x" => (4, "0x", false),
                    "X" => (4, "0x", true),
                    _ => (0, "", false),
                };
                let exp = match r {
                    None => ref_pad("", "", spec, true),
                    Some(rv) if rv.e > (1 << 40) && b == 0 => ref_pad("", "", spec, true), // documented limit of Display
                    Some(rv) => {
                        let big = rv.explicit();
                        let digits = if b == 0 { big.to_dec() } else { big.to_pow2(b, upper) };
                        ref_pad(&digits, prefix, spec, false)
                    }
                };
                ctx.count(&format!("fmt_{}", kind));
                if got != exp {
                    ctx.fail(&format!("fmt-{}", kind), &format!("format {{:{}{}}} of {} gave `{}`, expected `{}`", spec, kind, show(a), got, exp));
                }
                Some(got.replace(' ', "~"))
            }
            ["f64", x] => {
                let a = self.vals.get(*x)?;
                let got = f64::from(a);
                let exp = ref_f64(self.refs.get(*x)?);
                let ok = if got.is_nan() { f64::from_bits(exp).is_nan() } else { got.to_bits() == exp };
                if !ok {
                    ctx.fail("f64", &format!("f64::from({}) = {:016x}, correctly rounded value is {:016x}", show(a), got.to_bits(), exp));
                }
                ctx.count(if got.is_nan() {
                    "f64_nan"
                } else if got.is_infinite() {
                    "f64_inf"
                } else {
                    "f64_finite"
                });
                Some(if got.is_nan() { "nan".into() } else { format!("{:016x}", got.to_bits()) })
            }
            [op @ ("u64" | "u128"), x] => {
                let a = self.vals.get(*x)?;
                let got: Option<u128> = if *op == "u64" { u64::try_from(a).ok().map(|v| v as u128) } else { u128::try_from(a).ok() };
                let limit = if *op == "u64" { 64 } else { 128 };
                let exp = match self.refs.get(*x)? {
                    Some(rv) if rv.bits() <= limit => Some(rv.explicit().low_u128()),
                    _ => None,
                };
                if got != exp {
                    ctx.fail(op, &format!("{}::try_from({}) = {:?}, expected {:?}", op, show(a), got, exp));
                }
                ctx.count(if exp.is_some() { "conv_ok" } else { "conv_err" });
                Some(match got {
                    Some(v) => format!("{:x}", v),
                    None => "err".into(),
                })
            }
            ["bw", x] => {
                let a = self.vals.get(*x)?;
                let got = a.bit_width();
                if let Some(rv) = self.refs.get(*x)? {
                    if got != rv.bits() {
                        ctx.fail("bw", &format!("bit_width({}) = {}, expected {}", show(a), got, rv.bits()));
                    }
                }
                Some(got.to_string())
            }
            ["isnan", x] => {
                let a = self.vals.get(*x)?;
                Some((a.is_nan() as u8).to_string())
            }
            _ => None,
        }
    }

    fn sat_step(&mut self, wide: bool, w: &[&str], ctx: &mut Ctx) -> Option<String> {
        // all arithmetic of the oracle in `Big`; `max` is the marker
        let bits: u64 = if wide { 128 } else { 64 };
        let max: u128 = if wide { u128::MAX } else { u64::MAX as u128 };
        let get = |s: &Self, x: &str| -> Option<u128> { if wide { s.s128.get(x).map(|v| v.0) } else { s.s64.get(x).map(|v| v.0 as u128) } };
        let tag = if wide { "s128" } else { "s64" };
        match w {
            ["from", x, v] => {
                let v = parse_u128(v)?;
                if v > max {
                    return None;
                }
                if wide {
                    self.s128.insert(x.to_string(), Saturating(v));
                } else {
                    self.s64.insert(x.to_string(), Saturating(v as u64));
                }
                Some(format!("{:x}", v))
            }
            ["from32", x, v] => {
                let v = u32::try_from(parse_u128(v)?).ok()?;
                if wide {
                    self.s128.insert(x.to_string(), Saturating::<u128>::from(v));
                } else {
                    self.s64.insert(x.to_string(), Saturating::<u64>::from(v));
                }
                Some(format!("{:x}", get(self, x)?))
            }
            [op @ ("add" | "sub"), z, x, y] => {
                let (a, b) = (get(self, x)?, get(self, y)?);
                let got = if wide {
                    let (p, q) = (Saturating(a), Saturating(b));
                    let r = if *op == "add" { p + q } else { p - q };
                    self.s128.insert(z.to_string(), r);
                    r.0
                } else {
                    let (p, q) = (Saturating(a as u64), Saturating(b as u64));
                    let r = if *op == "add" { p + q } else { p - q };
                    self.s64.insert(z.to_string(), r);
                    r.0 as u128
                };
                // expected: the marker is absorbing; otherwise exact when below the marker
                let exp = if a == max || (*op == "add" && b == max) {
                    max
                } else if *op == "add" {
                    let s = Big::from_u128(a).add(&Big::from_u128(b));
                    if s.cmp(&Big::from_u128(max)) == Ordering::Less { s.low_u128() } else { max }
                } else {
                    a - b // the generator only subtracts smaller from larger
                };
                ctx.count(&format!("{}_{}{}", tag, op, if exp == max { "_sat" } else { "" }));
                if got != exp {
                    ctx.fail(&format!("sat-{}", op), &format!("{} {:x} {} {:x} = {:x}, expected {:x}", tag, a, op, b, got, exp));
                }
                Some(format!("{:x}", got))
            }
            [op @ ("shl" | "shr"), z, x, k] => {
                let a = get(self, x)?;
                let k: u32 = k.parse().ok()?;
                let got = if wide {
                    let p = Saturating(a);
                    let r = if *op == "shl" { p << k } else { p >> k };
                    self.s128.insert(z.to_string(), r);
                    r.0
                } else {
                    let p = Saturating(a as u64);
                    let r = if *op == "shl" { p << k } else { p >> k };
                    self.s64.insert(z.to_string(), r);
                    r.0 as u128
                };
                // Right shift: floor division, the marker is absorbing.
                // Left shift: exact while the result stays below the marker, the marker otherwise
                // (in particular for the marker itself: absorbing).
                let exp: Option<u128> = if *op == "shr" {
                    Some(if a == max { max } else { Big::from_u128(a).shr(k as u64).low_u128() })
                } else if a == max {
                    Some(max)
                } else {
                    let s = Big::from_u128(a).shl(k as u64);
                    Some(if s.bits() <= bits && s.low_u128() != max { s.low_u128() } else { max })
                };
                ctx.count(&format!(
                    "{}_{}{}",
                    tag,
                    op,
                    match exp {
                        Some(e) if e == max => "_sat",
                        Some(_) => "",
                        None => "_unjudged",
                    }
                ));
                if let Some(exp) = exp {
                    if got != exp {
                        ctx.fail(&format!("sat-{}", op), &format!("{} {:x} {} {} = {:x}, expected {:x}", tag, a, op, k, got, exp));
                    }
                }
                Some(format!("{:x}", got))
            }
            ["cmp", x, y] => {
                let (a, b) = (get(self, x)?, get(self, y)?);
                let got = if wide { Saturating(a).cmp(&Saturating(b)) } else { Saturating(a as u64).cmp(&Saturating(b as u64)) };
                if got != a.cmp(&b) {
                    ctx.fail("sat-cmp", &format!("{} cmp {:x} {:x}", tag, a, b));
                }
                Some(ord_str(Some(got)).to_string())
            }
            _ => None,
        }
    }
}

impl Scenario for Nat {
    fn reset(&mut self) {
        *self = Nat::new();
    }
    fn step(&mut self, line: &str, ctx: &mut Ctx) -> String {
        let w = words(line);
        let r = match w.first() {
            Some(&"s64") => self.sat_step(false, &w[1..], ctx),
            Some(&"s128") => self.sat_step(true, &w[1..], ctx),
            _ => self.nat_step(&w, ctx),
        };
        r.unwrap_or_else(|| "bad-op".into())
    }
}

// ------------------------------------------------------------------------------------------------
// Generator
// ------------------------------------------------------------------------------------------------

/// generator-side state of one case: reference values of the named slots
struct G<'a> {
    w: &'a mut dyn Write,
    vals: Vec<RefVal>,
    lines: u64,
}

const FMT_SPECS: [&str; 13] = ["", "#", "+", "24", "<24", "^25", "*>24", "#030", "+#9", "_^+#031", "1", "*<2", "*^6"];

impl<'a> G<'a> {
    fn case(&mut self, name: &str) {
        writeln!(self.w, "case {}", name).unwrap();
        self.vals.clear();
    }
    fn emit(&mut self, s: String) {
        writeln!(self.w, "{}", s).unwrap();
        self.lines += 1;
    }
    fn fresh(&mut self, r: RefVal) -> usize {
        self.vals.push(r);
        self.vals.len() - 1
    }
    /// define a value < 2^128 by one of the `From` conversions
    fn lit(&mut self, rng: &mut Rng, v: u128) -> usize {
        let r = RefNum::norm(Big::from_u128(v), 0);
        let i = self.fresh(r);
        let op = if v <= u32::MAX as u128 && rng.chance(1, 3) {
            "from32"
        } else if v <= u64::MAX as u128 && rng.chance(2, 3) {
            "from64"
        } else {
            "from128"
        };
        if rng.chance(1, 2) {
            self.emit(format!("{} n{} {}", op, i, v));
        } else {
            self.emit(format!("{} n{} 0x{:x}", op, i, v));
        }
        i
    }
    fn fromle(&mut self, ds: &[u64]) -> usize {
        let r = RefNum::norm(Big::from_u64_digits(ds), 0);
        let i = self.fresh(r);
        let s: Vec<String> = ds.iter().map(|d| format!("{:x}", d)).collect();
        self.emit(format!("fromle n{} {}", i, s.join(" ")).trim_end().to_string());
        i
    }
    fn can_add(&self, x: usize, y: usize) -> bool {
        match (&self.vals[x], &self.vals[y]) {
            (Some(a), Some(b)) if !a.m.is_zero() && !b.m.is_zero() => {
                let lo = a.e.min(b.e);
                a.bits().max(b.bits()) + 1 - lo <= MAX_MANT_BITS
            }
            _ => true,
        }
    }
    /// `x + y`; when the sum's mantissa would be wider than the generator's limit nothing is emitted
    /// and `x` is returned
    fn add(&mut self, x: usize, y: usize) -> usize {
        if !self.can_add(x, y) {
            return x;
        }
        let r = ref_add(&self.vals[x], &self.vals[y]);
        let i = self.fresh(r);
        self.emit(format!("add n{} n{} n{}", i, x, y));
        i
    }
    fn clonefrom(&mut self, x: usize, y: usize) -> usize {
        let r = self.vals[y].clone();
        let i = self.fresh(r);
        self.emit(format!("clonefrom n{} n{} n{}", i, x, y));
        i
    }
    fn shl(&mut self, x: usize, k: u64, via32: bool) -> usize {
        let r = ref_shl(&self.vals[x], k);
        let i = self.fresh(r);
        self.emit(format!("{} n{} n{} {}", if via32 && k <= u32::MAX as u64 { "shl32" } else { "shl" }, i, x, k));
        i
    }
    fn shr(&mut self, x: usize, k: u64, via32: bool) -> usize {
        let r = ref_shr(&self.vals[x], k);
        let i = self.fresh(r);
        self.emit(format!("{} n{} n{} {}", if via32 && k <= u32::MAX as u64 { "shr32" } else { "shr" }, i, x, k));
        i
    }
    /// explicit value 2^k + d (d in -1..=1) built from conversions, shifts and adds
    fn pow2_near(&mut self, rng: &mut Rng, k: u64, d: i32) -> usize {
        if k < 127 || (k == 127 && d <= 0) {
            let v = (1u128 << k).wrapping_add(d as i128 as u128);
            return self.lit(rng, v);
        }
        match d {
            0 => {
                let one = self.lit(rng, 1);
                self.shl(one, k, rng.chance(1, 2))
            }
            1 => {
                let one = self.lit(rng, 1);
                let p = self.shl(one, k, rng.chance(1, 2));
                let one2 = self.lit(rng, 1);
                if rng.chance(1, 2) { self.add(p, one2) } else { self.add(one2, p) }
            }
            _ => {
                // 2^k − 1 = all ones: k/64 digits of ones and a partial digit
                let mut ds = vec![u64::MAX; (k / 64) as usize];
                if k % 64 != 0 {
                    ds.push((1u64 << (k % 64)) - 1);
                }
                if rng.chance(1, 2) {
                    self.fromle(&ds)
                } else {
                    // sum of shifted 64-bit pieces
                    let mut acc: Option<usize> = None;
                    for (j, &d) in ds.iter().enumerate() {
                        let p = self.lit(rng, d as u128);
                        let p = if j > 0 { self.shl(p, 64 * j as u64, false) } else { p };
                        acc = Some(match acc {
                            None => p,
                            Some(a) => {
                                if rng.chance(1, 2) {
                                    self.add(a, p)
                                } else {
                                    self.add(p, a)
                                }
                            }
                        });
                    }
                    acc.unwrap()
                }
            }
        }
    }
    /// random value of up to `bits` bits (various shapes), built by `fromle` or by pieces
    fn random(&mut self, rng: &mut Rng, bits: u64) -> usize {
        let n = rng.range(1, bits);
        let len = n.div_ceil(64) as usize;
        let mut ds: Vec<u64> = (0..len)
            .map(|_| match rng.below(6) {
                0 => 0,
                1 => u64::MAX,
                2 => 1u64 << rng.below(64),
                3 => u64::MAX << rng.below(64),
                _ => rng.next(),
            })
            .collect();
        if n % 64 != 0 {
            let m = (1u64 << (n % 64)) - 1;
            *ds.last_mut().unwrap() &= m;
        }
        // a few trailing zero bits/digits now and then
        if rng.chance(1, 3) {
            let z = rng.below(len as u64 + 1) as usize;
            for d in ds.iter_mut().take(z) {
                *d = 0;
            }
        }
        if rng.chance(1, 2) {
            // extra zero digits at the top are legal input of from_le_digits
            let mut ds2 = ds.clone();
            for _ in 0..rng.below(3) {
                ds2.push(0);
            }
            self.fromle(&ds2)
        } else {
            let mut acc: Option<usize> = None;
            for (j, &d) in ds.iter().enumerate() {
                if d == 0 && rng.chance(1, 2) {
                    continue;
                }
                let p = self.lit(rng, d as u128);
                let p = if j > 0 { self.shl(p, 64 * j as u64, rng.chance(1, 2)) } else { p };
                acc = Some(match acc {
                    None => p,
                    Some(a) => {
                        if rng.chance(1, 2) {
                            self.add(a, p)
                        } else {
                            self.add(p, a)
                        }
                    }
                });
            }
            match acc {
                Some(a) => a,
                None => self.lit(rng, 0),
            }
        }
    }
    /// all observations of one value
    fn observe(&mut self, rng: &mut Rng, x: usize, full: bool) {
        self.emit(format!("isnan n{}", x));
        self.emit(format!("f64 n{}", x));
        self.emit(format!("u64 n{}", x));
        self.emit(format!("u128 n{}", x));
        let printable = match &self.vals[x] {
            None => true,
            Some(v) => v.bits() <= 6000,
        };
        self.emit(format!("bw n{}", x));
        if printable {
            let kinds: &[&str] = if full { &["b", "o", "x", "X", "d"] } else { &["x"] };
            for k in kinds {
                self.emit(format!("fmt n{} {}", x, k));
            }
            if full {
                let k = *rng.pick(&["b", "o", "x", "X", "d"]);
                let s = *rng.pick(&FMT_SPECS[1..]);
                self.emit(format!("fmt n{} {} {}", x, k, s));
            }
        } else if matches!(&self.vals[x], Some(v) if v.e > (1u128 << 41)) {
            // Display refuses exponents above 2^40 (prints `?`); cheap to observe
            self.emit(format!("fmt n{} d", x));
        }
    }
    fn cmp(&mut self, x: usize, y: usize) {
        self.emit(format!("cmp n{} n{}", x, y));
        self.emit(format!("eq n{} n{}", x, y));
    }
}

fn boundary_exponents(thorough: bool) -> Vec<u64> {
    let mut ks = vec![0u64, 1, 2, 3];
    let centers: &[u64] = if thorough { &[32, 64, 96, 128, 192, 256, 320] } else { &[32, 64, 128, 192, 256] };
    for &c in centers {
        for d in [-1i64, 0, 1] {
            ks.push((c as i64 + d) as u64);
        }
    }
    ks.retain(|&k| k <= 256 || thorough);
    ks
}

fn generate(cfg: &GenCfg, rng: &mut Rng, w: &mut dyn Write) {
    let mut g = G { w, vals: Vec::new(), lines: 0 };
    let scale = cfg.scale.max(1);
    let thorough = cfg.thorough;

    // ---- 1. boundary set: all ordered pairs, all binary operations and observations -------------
    let mut bset: Vec<(u64, i32)> = Vec::new(); // 2^k + d, distinct values (0 = 2^0 − 1 included)
    {
        let mut seen: Vec<Big> = Vec::new();
        for k in boundary_exponents(thorough) {
            for d in [-1i32, 0, 1] {
                let p = Big::from_u128(1).shl(k);
                let v = match d {
                    0 => p,
                    1 => p.add(&Big::from_u128(1)),
                    _ => {
                        // 2^k − 1: k ones
                        let mut l = vec![u32::MAX; (k / 32) as usize];
                        if k % 32 != 0 {
                            l.push((1u32 << (k % 32)) - 1);
                        }
                        Big(l)
                    }
                };
                if !seen.contains(&v) {
                    seen.push(v);
                    bset.push((k, d));
                }
            }
        }
    }
    let shift_amounts: Vec<u64> = vec![0, 1, 2, 31, 32, 33, 63, 64, 65, 127, 128, 129, 191, 192, 255, 256];
    let nb = bset.len();
    writeln!(g.w, "# boundary set: {} values, {} ordered pairs", nb, nb * nb).unwrap();
    for i in 0..nb {
        for j in 0..nb {
            g.case(&format!("pair-{}-{}", i, j));
            let x = g.pow2_near(rng, bset[i].0, bset[i].1);
            let y = g.pow2_near(rng, bset[j].0, bset[j].1);
            g.cmp(x, y);
            let s = g.add(x, y);
            g.observe(rng, s, i <= j && (i + j) % 3 == 0);
            // (x + y) compared with both operands, and halved
            g.cmp(s, x);
            let h = g.shr(s, 1, rng.chance(1, 2));
            g.emit(format!("isnan n{}", h));
            // x·2^a + y for a shift amount at a digit boundary
            let a = *rng.pick(&shift_amounts);
            let xs = g.shl(x, a, rng.chance(1, 2));
            let t = g.add(xs, y);
            g.observe(rng, t, false);
            let back = g.shr(xs, a, rng.chance(1, 2));
            g.cmp(back, x);
            // clone_from between every pair of representations (inline / heap of equal or different
            // length / zero / error value): the target must become the source
            let cf = g.clonefrom(x, y);
            g.cmp(cf, y);
            let cf2 = g.clonefrom(t, x);
            g.observe(rng, cf2, false);
            if j == 0 {
                // unary observations of x once per row
                g.observe(rng, x, true);
                for &a in &shift_amounts {
                    let l = g.shl(x, a, a % 2 == 0);
                    let r = g.shr(l, a, a % 2 == 1);
                    g.cmp(r, x);
                    let r2 = g.shr(l, a + 1, false); // inexact unless x = 0
                    g.emit(format!("isnan n{}", r2));
                    g.emit(format!("fmt n{} x", l));
                }
            }
        }
    }

    // ---- 2. exponent overflow region ---------------------------------------------------------
    let huge: Vec<u64> = vec![
        u64::MAX,
        u64::MAX - 1,
        u64::MAX - 2,
        u64::MAX - 3,
        u64::MAX - 63,
        u64::MAX - 64,
        u64::MAX - 65,
        u64::MAX - 130,
        1 << 63,
        (1 << 63) - 1,
        (1 << 63) + 1,
        1 << 62,
        (1u64 << 40) - 1,
        1 << 40,
        (1 << 40) + 1,
        1 << 41,
        u32::MAX as u64,
        u32::MAX as u64 + 1,
    ];
    let smalls: Vec<u128> = vec![0, 1, 3, 5, 7, u64::MAX as u128, (1u128 << 64) + 1, (1u128 << 127) + 1, u128::MAX, 6, 1 << 20];
    for (hi, &e) in huge.iter().enumerate() {
        for (si, &m) in smalls.iter().enumerate() {
            g.case(&format!("huge-{}-{}", hi, si));
            let x = g.lit(rng, m);
            let a = g.shl(x, e, false);
            g.observe(rng, a, false);
            // a + a, a + 3a, a + (something with the same exponent) -> carries into the exponent
            let aa = g.add(a, a);
            g.observe(rng, aa, false);
            let yv = *rng.pick(&smalls);
            let y = g.lit(rng, yv);
            let b = g.shl(y, e, false);
            if g.can_add(a, b) {
                let s = g.add(a, b);
                g.observe(rng, s, false);
                g.cmp(s, a);
            }
            g.cmp(a, b);
            // second shift on top
            let k2 = *rng.pick(&[0u64, 1, 2, 63, 64, 65, u64::MAX, 1 << 63]);
            let c = g.shl(a, k2, false);
            g.emit(format!("isnan n{}", c));
            let d = g.shr(c, k2, false);
            g.cmp(d, a);
            let back = g.shr(a, e, false);
            g.cmp(back, x);
            let back1 = g.shr(a, e.saturating_add(1), false);
            g.emit(format!("isnan n{}", back1));
            let k3 = rng.next();
            let z = g.shr(a, k3, false);
            g.emit(format!("isnan n{}", z));
            // neighbours in the exponent: a + (y << (e − t)) for small t
            for t in [1u64, 2, 63, 64, 65, 200] {
                if e >= t {
                    let yv2 = *rng.pick(&smalls);
                    let y2 = g.lit(rng, yv2);
                    let b2 = g.shl(y2, e - t, false);
                    if g.can_add(a, b2) {
                        let s2 = if rng.chance(1, 2) { g.add(a, b2) } else { g.add(b2, a) };
                        g.observe(rng, s2, false);
                    }
                    g.cmp(a, b2);
                }
            }
        }
    }

    // ---- 3. error value: propagation through every operation ----------------------------------
    let nan_cases = 40 * scale;
    for c in 0..nan_cases {
        g.case(&format!("nan-{}", c));
        let x = g.random(rng, 200);
        // three ways to obtain the error value
        let nan = match c % 3 {
            0 => {
                // inexact right shift
                let k = match &g.vals[x] {
                    Some(v) => (v.e as u64).saturating_add(1 + rng.below(70)),
                    None => 1,
                };
                g.shr(x, k, rng.chance(1, 2))
            }
            1 => g.shl(x, u64::MAX, false),
            _ => {
                let a = g.shl(x, u64::MAX - 1, false);
                g.add(a, a)
            }
        };
        g.observe(rng, nan, true);
        let y = g.random(rng, 200);
        let s1 = g.add(nan, y);
        let s2 = g.add(y, nan);
        g.emit(format!("isnan n{}", s1));
        g.emit(format!("isnan n{}", s2));
        g.cmp(nan, y);
        g.cmp(y, nan);
        g.cmp(nan, nan);
        g.cmp(s1, s2);
        // the error value as an intermediate result: it must not disappear again
        let z = g.random(rng, 130);
        let t1 = g.add(s1, z);
        let t2 = g.add(z, s2);
        g.emit(format!("isnan n{}", t1));
        g.emit(format!("isnan n{}", t2));
        let zero = g.lit(rng, 0);
        let t3 = g.add(s1, zero);
        let t4 = g.add(zero, s1);
        g.emit(format!("isnan n{}", t3));
        g.emit(format!("isnan n{}", t4));
        let u1 = g.shl(s1, rng.below(130), rng.chance(1, 2));
        let u2 = g.shr(s2, rng.below(130), rng.chance(1, 2));
        let u3 = g.shr(t1, 1, true);
        g.observe(rng, u1, false);
        g.observe(rng, u2, false);
        g.observe(rng, u3, false);
    }

    // ---- 4. random operands up to 512 bits, all operations -------------------------------------
    let rnd_cases = if thorough { 6000 * scale } else { 700 * scale };
    for c in 0..rnd_cases {
        g.case(&format!("rnd-{}", c));
        let bits = *rng.pick(&[64u64, 65, 128, 129, 192, 256, 512, 512]);
        let x = g.random(rng, bits);
        let y = g.random(rng, bits);
        let kx = *rng.pick(&[0u64, 0, 1, 5, 63, 64, 65, 100, 128, 700]);
        let ky = *rng.pick(&[0u64, 0, 1, 5, 63, 64, 65, 100, 128, 700]);
        let xs = if kx > 0 { g.shl(x, kx, rng.chance(1, 2)) } else { x };
        let ys = if ky > 0 { g.shl(y, ky, rng.chance(1, 2)) } else { y };
        g.cmp(xs, ys);
        let s = g.add(xs, ys);
        g.observe(rng, s, c % 4 == 0);
        g.cmp(s, xs);
        g.cmp(ys, s);
        // exact halving when possible, otherwise the error value
        let h = g.shr(s, 1 + rng.below(3), rng.chance(1, 2));
        g.observe(rng, h, false);
        let e = match &g.vals[s] {
            Some(v) => v.e as u64,
            None => 0,
        };
        let q = g.shr(s, e, false); // removes all trailing zeros exactly
        g.observe(rng, q, false);
        let q1 = g.shr(s, e + 1, false);
        g.emit(format!("isnan n{}", q1));
        g.observe(rng, xs, c % 4 == 1);
    }

    // ---- 4b. equal exponents with cancelling low digits (the skip loop, in-place with a longer right operand)
    let cancel = if thorough { 4000 * scale } else { 500 * scale };
    for c in 0..cancel {
        g.case(&format!("cancel-{}", c));
        let n = rng.range(1, 6) as usize; // digits of x
        let k = rng.range(0, n as u64) as usize; // low digits of the sum that vanish
        let zl = rng.range(0, 4) as usize; // further digits of y
        let mut x: Vec<u64> = (0..n)
            .map(|_| match rng.below(4) {
                0 => u64::MAX,
                1 => 0,
                _ => rng.next(),
            })
            .collect();
        x[0] |= 1;
        if *x.last().unwrap() == 0 {
            *x.last_mut().unwrap() = 1 + rng.below(3);
        }
        // y = 2^(64k) − (x mod 2^(64k)) + 2^(64k)·z  (two's complement of the low digits)
        let mut y: Vec<u64> = Vec::new();
        let mut borrow = true; // adding one to the complement
        for d in x.iter().take(k) {
            let (v, o) = (!*d).overflowing_add(borrow as u64);
            y.push(v);
            borrow = o;
        }
        if k == 0 {
            y.push(rng.next() | 1);
        }
        for j in 0..zl {
            // make the digit above the cancelled ones produce all kinds of trailing-zero counts
            let d = match rng.below(5) {
                0 => u64::MAX,
                1 => 1u64 << rng.below(64),
                2 => x.get(k + j).map(|v| !*v).unwrap_or(0),
                3 => x.get(k + j).map(|v| (!*v).wrapping_add(1u64 << rng.below(64))).unwrap_or(7),
                _ => rng.next(),
            };
            y.push(d);
        }
        y[0] |= 1;
        while y.len() > 1 && *y.last().unwrap() == 0 {
            y.pop();
        }
        let e = *rng.pick(&[0u64, 0, 1, 63, 64, 200, u64::MAX - 70, u64::MAX - 2]);
        let xi = g.fromle(&x);
        let yi = g.fromle(&y);
        let xs = if e > 0 { g.shl(xi, e, false) } else { xi };
        let ys = if e > 0 { g.shl(yi, e, false) } else { yi };
        let s1 = g.add(xs, ys);
        let s2 = g.add(ys, xs);
        g.cmp(s1, s2);
        g.observe(rng, s1, c % 8 == 0);
        g.cmp(s1, xs);
        // reuse the sum (it may carry a zero top digit): add again and compare
        let s3 = g.add(s1, xs);
        let s4 = g.add(ys, s1);
        g.cmp(s3, s4);
        g.observe(rng, s3, false);
    }

    // ---- 4c. from_le_digits: even lowest digit (the right-shifting copy), zero digits on both ends
    let shapes = if thorough { 3000 * scale } else { 400 * scale };
    for c in 0..shapes {
        g.case(&format!("fromle-{}", c));
        let n = rng.range(1, 5) as usize;
        let t = *rng.pick(&[0u64, 1, 2, 31, 32, 33, 62, 63]);
        let lz = *rng.pick(&[0u64, 1, 2, 31, 32, 33, 62, 63]);
        let mut ds: Vec<u64> = (0..n).map(|_| rng.next()).collect();
        ds[0] = (rng.next() | 1) << t;
        if ds[0] == 0 {
            ds[0] = 1 << t;
        }
        let top = n - 1;
        if top > 0 || lz + t < 64 {
            ds[top] = if top == 0 { ds[0] & (u64::MAX >> lz) | (1 << t) } else { (rng.next() | (1 << 63)) >> lz };
        }
        let mut all = vec![0u64; rng.below(3) as usize];
        all.extend_from_slice(&ds);
        all.extend(std::iter::repeat(0).take(rng.below(3) as usize));
        let x = g.fromle(&all);
        g.observe(rng, x, c % 8 == 0);
        // the same number from pieces must be the same normal form
        let y = g.random(rng, 64);
        let s = g.add(x, y);
        g.observe(rng, s, false);
        g.cmp(x, s);
    }

    // ---- 5. chains with value reuse ---------------------------------------------------------------
    let chains = if thorough { 1500 * scale } else { 200 * scale };
    for c in 0..chains {
        g.case(&format!("chain-{}", c));
        let n0 = 2 + rng.below(3);
        for _ in 0..n0 {
            let bits = *rng.pick(&[8u64, 64, 64, 130, 300]);
            g.random(rng, bits);
        }
        let steps = 10 + rng.below(25);
        for _ in 0..steps {
            let n = g.vals.len() as u64;
            let x = rng.below(n) as usize;
            let y = rng.below(n) as usize;
            match rng.below(10) {
                0..=3 => {
                    if g.can_add(x, y) {
                        g.add(x, y);
                    }
                }
                4 | 5 => {
                    let k = *rng.pick(&[1u64, 1, 2, 7, 63, 64, 65, 128, 129]);
                    g.shl(x, k, rng.chance(1, 2));
                }
                6 | 7 => {
                    // mostly exact
                    let e = match &g.vals[x] {
                        Some(v) => v.e as u64,
                        None => 3,
                    };
                    let k = if rng.chance(4, 5) { rng.below(e + 1) } else { e + 1 + rng.below(3) };
                    g.shr(x, k, rng.chance(1, 2));
                }
                8 => g.cmp(x, y),
                _ => g.observe(rng, x, false),
            }
        }
        let last = g.vals.len() - 1;
        g.observe(rng, last, true);
    }

    // ---- 6. f64 rounding boundaries -----------------------------------------------------------------
    let fcases = if thorough { 3000 * scale } else { 300 * scale };
    g.case("f64-boundaries");
    for c in 0..fcases {
        if c % 50 == 49 {
            g.case(&format!("f64-boundaries-{}", c));
        }
        // 53..=130 significant bits with interesting low parts
        let top = (1u64 << 52) | (rng.next() >> 12);
        let extra = rng.range(0, 76);
        let low: u128 = match rng.below(6) {
            0 => 0,
            1 => 1u128 << extra.saturating_sub(1), // exactly half
            2 => (1u128 << extra.saturating_sub(1)) + 1,
            3 => (1u128 << extra.saturating_sub(1)).wrapping_sub(1),
            4 => (1u128 << extra) - 1,
            _ => (rng.next() as u128) << 64 | rng.next() as u128,
        } & ((1u128 << extra) - 1);
        let top = if rng.chance(1, 8) { (1u64 << 53) - 1 } else { top };
        // value = top · 2^extra + low  (up to 129 bits) -> build from pieces
        let a = g.lit(rng, top as u128);
        let a = g.shl(a, extra, false);
        let b = g.lit(rng, low);
        let v = g.add(a, b);
        let sh = *rng.pick(&[0u64, 1, 900, 960, 970, 971, 1000, 2000]);
        let v = if sh > 0 { g.shl(v, sh, false) } else { v };
        g.emit(format!("f64 n{}", v));
    }

    // ---- 7. saturating machine integers -----------------------------------------------------------
    for (tag, bits) in [("s64", 64u32), ("s128", 128u32)] {
        let max: u128 = if bits == 64 { u64::MAX as u128 } else { u128::MAX };
        let mut bvals: Vec<u128> = vec![0, 1, 2, 3, max, max - 1, max - 2, max / 2, max / 2 + 1, max / 2 + 2, max / 2 - 1];
        for k in [31u32, 32, 33, 62, 63, 64, 65, 126, 127] {
            if k < bits {
                bvals.push(1u128 << k);
                bvals.push((1u128 << k) - 1);
                bvals.push((1u128 << k) + 1);
            }
        }
        bvals.sort();
        bvals.dedup();
        let ks: Vec<u32> = vec![0, 1, 2, 31, 32, 33, 62, 63, 64, 65, 126, 127, 128, 129, 1000, u32::MAX];
        g.case(&format!("{}-boundary", tag));
        for (i, &a) in bvals.iter().enumerate() {
            g.emit(format!("{} from a{} 0x{:x}", tag, i, a));
        }
        let mut z = 0;
        for (i, &a) in bvals.iter().enumerate() {
            for (j, &b) in bvals.iter().enumerate() {
                g.emit(format!("{} add z{} a{} a{}", tag, z, i, j));
                z += 1;
                if a == max || a >= b {
                    g.emit(format!("{} sub z{} a{} a{}", tag, z, i, j));
                    z += 1;
                }
                g.emit(format!("{} cmp a{} a{}", tag, i, j));
            }
            for &k in &ks {
                g.emit(format!("{} shl z{} a{} {}", tag, z, i, k));
                z += 1;
                if k < bits {
                    g.emit(format!("{} shr z{} a{} {}", tag, z, i, k));
                    z += 1;
                }
            }
        }
        // the way sat_count uses the type: 1 << vars, then (a + b) >> 1 repeatedly
        g.case(&format!("{}-satcount-shape", tag));
        for vars in [0u32, 1, 2, bits - 2, bits - 1, bits, bits + 1, 2 * bits, 1100] {
            g.emit(format!("{} from32 one{} 1", tag, vars));
            g.emit(format!("{} from32 zero{} 0", tag, vars));
            g.emit(format!("{} shl t{} one{} {}", tag, vars, vars, vars));
            g.emit(format!("{} add u{} t{} zero{}", tag, vars, vars, vars));
            g.emit(format!("{} shr v{} u{} 1", tag, vars, vars));
            g.emit(format!("{} add w{} t{} v{}", tag, vars, vars, vars));
            g.emit(format!("{} shr x{} w{} 1", tag, vars, vars));
            g.emit(format!("{} shl y{} x{} 0", tag, vars, vars));
        }
        let rc = if thorough { 20000 * scale } else { 2000 * scale };
        g.case(&format!("{}-random", tag));
        for c in 0..rc {
            if c % 500 == 499 {
                g.case(&format!("{}-random-{}", tag, c));
            }
            let mk = |rng: &mut Rng| -> u128 {
                let v = ((rng.next() as u128) << 64 | rng.next() as u128) & max;
                match rng.below(5) {
                    0 => v >> rng.below(bits as u64),
                    1 => max - (v >> rng.range(bits as u64 / 2, bits as u64 - 1)),
                    2 => max,
                    _ => v,
                }
            };
            let (a, b) = (mk(rng), mk(rng));
            g.emit(format!("{} from p 0x{:x}", tag, a));
            g.emit(format!("{} from q 0x{:x}", tag, b));
            g.emit(format!("{} add r p q", tag));
            g.emit(format!("{} cmp p q", tag));
            if a == max || a >= b {
                g.emit(format!("{} sub r2 p q", tag));
            }
            let k = rng.below(bits as u64 + 3) as u32;
            g.emit(format!("{} shl r3 p {}", tag, k));
            g.emit(format!("{} shr r4 r {}", tag, rng.below(bits as u64)));
        }
    }

    // ---- 8. malformed lines ---------------------------------------------------------------------------
    g.case("malformed");
    for l in [
        "add n0 n1 n2",
        "from64 n0 18446744073709551616",
        "from32 n0 4294967296",
        "from64 n0",
        "from128 n0 zz",
        "shl n1 n0 x",
        "fmt n0 q",
        "frobnicate",
        "s64 from a 0x10000000000000000",
        "s64 add z a b",
        "s128 shl z a 1",
        "cmp n0 n9",
        "fromle n0 g",
        "shl32 n1 n0 4294967296",
    ] {
        g.emit(l.to_string());
    }
    g.emit("from64 n0 5".into());
    g.emit("fmt n0 x 77".into());
    g.emit("shl32 n1 n0 4294967296".into());
    let total = g.lines;
    writeln!(g.w, "# {} operation lines", total).unwrap();
}

fn make(_f: &BTreeMap<String, String>) -> Box<dyn Scenario> {
    Box::new(Nat::new())
}

fn main() {
    harness_main(generate, make)
}
