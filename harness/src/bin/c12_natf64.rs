//! C12: `impl From<&Natural> for f64` (`oxidd-core/src/util/num/bigint.rs`) on rounding boundaries.
//! Protocol `natf64` (model: `OxiddModel/Num/DriverNaturalF64.lean`, which runs the digit-level
//! model `Natural.toF64Bits` *and* the specification `round53` of the exact value — theorem
//! `natural_to_f64_spec` says they agree — and prints both).
//!
//! ```text
//! fromle x <hexdigit>*   -> <repr>                 Natural::from_le_digits
//! add z x y              -> <repr>                 Add
//! shl z x k              -> <repr>                 Shl<u64>
//! f64 x                  -> <bits> <bits>          f64::from(&x): bit pattern (16 hex digits or `nan`), twice:
//!                                                  the implementation's result and the correctly rounded
//!                                                  pattern computed by the harness's own big naturals
//! ```
//! `<repr>` as in the protocol `nat` (`i<hex>p<exp>` / `h<d0>,<d1>,…p<exp>`, `NAN:` prefix).
//!
//! Oracles (independent of the model): the result equals (a) the reference rounding on `u64` limb
//! vectors (top 53 bits, half bit, sticky), (b) `str::parse::<f64>` of the decimal `Display` text
//! (the standard library's correctly rounded decimal-to-binary conversion) for values below
//! `2^2100`, (c) `u128 as f64` for values below `2^128`; `+inf` iff the value is at least
//! `2^1024 - 2^970`; exact (`f64 as u128` round trip) when the odd part has at most 53 bits.
use oxidd_core::util::num::Natural;
use oxv::*;
use std::collections::BTreeMap;
use std::io::Write;

/// reference value `m * 2^e`, `m` little endian `u64` limbs without a zero top limb; `None` = NaN
#[derive(Clone, Debug)]
struct Ref {
    m: Vec<u64>,
    e: u128,
}
type RefVal = Option<Ref>;

fn trim(mut m: Vec<u64>) -> Vec<u64> {
    while let Some(0) = m.last() {
        m.pop();
    }
    m
}
fn bits(m: &[u64]) -> u64 {
    match m.last() {
        None => 0,
        Some(t) => 64 * m.len() as u64 - t.leading_zeros() as u64,
    }
}
fn bit(m: &[u64], i: u64) -> bool {
    m.get((i / 64) as usize).map(|d| (d >> (i % 64)) & 1 == 1).unwrap_or(false)
}
fn any_below(m: &[u64], i: u64) -> bool {
    (0..i).any(|j| bit(m, j))
}
fn shl_limbs(m: &[u64], k: u64) -> Vec<u64> {
    let (q, r) = ((k / 64) as usize, k % 64);
    let mut out = vec![0u64; q];
    let mut carry = 0u64;
    for &d in m {
        if r == 0 {
            out.push(d);
        } else {
            out.push((d << r) | carry);
            carry = d >> (64 - r);
        }
    }
    if carry != 0 {
        out.push(carry);
    }
    trim(out)
}
fn add_limbs(a: &[u64], b: &[u64]) -> Vec<u64> {
    let mut out = Vec::new();
    let mut c = 0u128;
    for i in 0..a.len().max(b.len()) {
        let s = *a.get(i).unwrap_or(&0) as u128 + *b.get(i).unwrap_or(&0) as u128 + c;
        out.push(s as u64);
        c = s >> 64;
    }
    if c != 0 {
        out.push(c as u64);
    }
    trim(out)
}
fn ref_add(a: &RefVal, b: &RefVal) -> RefVal {
    let (a, b) = (a.as_ref()?, b.as_ref()?);
    if a.m.is_empty() {
        return Some(b.clone());
    }
    if b.m.is_empty() {
        return Some(a.clone());
    }
    let e = a.e.min(b.e);
    let (sa, sb) = ((a.e - e) as u64, (b.e - e) as u64);
    Some(Ref { m: add_limbs(&shl_limbs(&a.m, sa), &shl_limbs(&b.m, sb)), e })
}
/// the exponent of the normal form (trailing zeros) must stay below `u64::MAX`
fn ref_norm(r: Ref) -> RefVal {
    if r.m.is_empty() {
        return Some(Ref { m: vec![], e: 0 });
    }
    let tz = (0..).find(|&i| bit(&r.m, i)).unwrap() as u128;
    if r.e + tz >= u64::MAX as u128 { None } else { Some(r) }
}
/// correctly rounded (nearest, ties to even) bit pattern
fn ref_f64(a: &RefVal) -> Option<u64> {
    let a = a.as_ref()?;
    let mb = bits(&a.m);
    if mb == 0 {
        return Some(0);
    }
    let w = mb as u128 + a.e;
    if w > 1024 {
        return Some(f64::INFINITY.to_bits());
    }
    let (mut sig, up): (u64, bool);
    if mb <= 53 {
        sig = a.m[0] << (53 - mb);
        up = false;
    } else {
        let cut = mb - 53;
        sig = 0;
        for i in 0..53 {
            if bit(&a.m, cut + i) {
                sig |= 1 << i;
            }
        }
        let half = bit(&a.m, cut - 1);
        let sticky = any_below(&a.m, cut - 1);
        up = half && (sticky || sig & 1 == 1);
    }
    let mut exp = w as u64 - 1;
    if up {
        sig += 1;
        if sig == 1 << 53 {
            sig >>= 1;
            exp += 1;
        }
    }
    if exp > 1023 {
        return Some(f64::INFINITY.to_bits());
    }
    Some(((exp + 1023) << 52) | (sig & ((1 << 52) - 1)))
}

/// (heap?, raw digits, exponent)
fn raw(n: &Natural) -> (bool, Vec<u64>, u64) {
    let (ptr, len, shl) = n.clone().into_raw_parts();
    if ptr.is_null() {
        (false, vec![len], shl)
    } else {
        // SAFETY: `ptr` points to `len` digits owned by the clone we just decomposed
        let ds = unsafe { std::slice::from_raw_parts(ptr, len as usize) }.to_vec();
        drop(unsafe { Natural::from_raw_parts(ptr, len, shl) });
        (true, ds, shl)
    }
}
fn show(n: &Natural) -> String {
    let (heap, ds, shl) = raw(n);
    format!(
        "{}{}{}p{}",
        if shl == u64::MAX { "NAN:" } else { "" },
        if heap { "h" } else { "i" },
        ds.iter().map(|d| format!("{:x}", d)).collect::<Vec<_>>().join(","),
        shl
    )
}

#[derive(Default)]
struct Sc {
    vals: BTreeMap<String, (Natural, RefVal)>,
}

impl Sc {
    fn put(&mut self, x: &str, n: Natural, r: RefVal, ctx: &mut Ctx) -> String {
        if n.is_nan() != r.is_none() {
            ctx.fail("nat-nan", &format!("{} is_nan = {}, reference NaN = {}", show(&n), n.is_nan(), r.is_none()));
        }
        let s = show(&n);
        self.vals.insert(x.to_string(), (n, r));
        s
    }
}

impl Scenario for Sc {
    fn reset(&mut self) {
        self.vals.clear();
    }
    fn step(&mut self, line: &str, ctx: &mut Ctx) -> String {
        let w = words(line);
        match w.as_slice() {
            ["fromle", x, ds @ ..] => {
                let mut digits = Vec::new();
                for d in ds {
                    match u64::from_str_radix(d, 16) {
                        Ok(v) => digits.push(v),
                        Err(_) => return "bad-op".into(),
                    }
                }
                let n = Natural::from_le_digits(&digits);
                let r = ref_norm(Ref { m: trim(digits), e: 0 });
                self.put(x, n, r, ctx)
            }
            ["add", z, x, y] => {
                let (Some(a), Some(b)) = (self.vals.get(*x), self.vals.get(*y)) else { return "bad-op".into() };
                let n = a.0.clone() + b.0.clone();
                let r = ref_add(&a.1, &b.1).and_then(ref_norm);
                self.put(z, n, r, ctx)
            }
            ["shl", z, x, k] => {
                let Some(a) = self.vals.get(*x) else { return "bad-op".into() };
                let Ok(k) = k.parse::<u64>() else { return "bad-op".into() };
                let n = a.0.clone() << k;
                let r = a.1.clone().and_then(|r| if r.m.is_empty() { Some(r) } else { ref_norm(Ref { m: r.m, e: r.e + k as u128 }) });
                self.put(z, n, r, ctx)
            }
            ["f64", x] => {
                let Some((n, r)) = self.vals.get(*x) else { return "bad-op".into() };
                let got = f64::from(n);
                let exp = ref_f64(r);
                let gs = if got.is_nan() { "nan".to_string() } else { format!("{:016x}", got.to_bits()) };
                let es = match exp {
                    None => "nan".to_string(),
                    Some(b) => format!("{:016x}", b),
                };
                if gs != es {
                    ctx.fail("natural-to-f64-rounding", &format!("f64::from({}) = {}, correctly rounded: {}", show(n), gs, es));
                }
                if let Some(rv) = r {
                    let mb = bits(&rv.m) as u128;
                    let (_, ds, _) = raw(n);
                    if *ds.last().unwrap() == 0 {
                        ctx.count("f64.top_digit_zero");
                    }
                    let tz0 = if mb == 0 { 0 } else { (0..).find(|&i| bit(&rv.m, i)).unwrap() as u128 };
                    ctx.count(match mb - tz0 {
                        0 => "f64.zero",
                        1..=53 => "f64.width_le_53",
                        54 => "f64.width_54_tie",
                        _ => "f64.width_gt_54",
                    });
                    let wtot = mb + rv.e;
                    if got.is_infinite() {
                        ctx.count("f64.inf");
                    }
                    // (b) the decimal text through the standard library's parser
                    if wtot <= 2100 {
                        let dec = format!("{}", n);
                        match dec.parse::<f64>() {
                            Ok(p) if p.to_bits() == got.to_bits() => ctx.count("f64.decimal_agrees"),
                            other => ctx.fail("natural-to-f64-decimal", &format!("f64::from({}) = {}, parse of the decimal text = {:?}", show(n), gs, other.map(|p| format!("{:016x}", p.to_bits())))),
                        }
                    }
                    // (c) machine integers
                    if wtot <= 128 {
                        let ex = shl_limbs(&rv.m, rv.e as u64);
                        let v = *ex.first().unwrap_or(&0) as u128 | (*ex.get(1).unwrap_or(&0) as u128) << 64;
                        if (v as f64).to_bits() != got.to_bits() {
                            ctx.fail("natural-to-f64-u128", &format!("f64::from({}) = {}, u128 as f64 = {:016x}", show(n), gs, (v as f64).to_bits()));
                        }
                        ctx.count("f64.u128_agrees");
                    }
                    // +inf iff value >= 2^1024 - 2^970, i.e. iff 2*value + 2^971 >= 2^1025
                    if mb > 0 && wtot < 1100 {
                        let ex = shl_limbs(&rv.m, rv.e as u64 + 1);
                        let lhs = add_limbs(&ex, &shl_limbs(&[1], 971));
                        let over = bits(&lhs) > 1025;
                        if over != got.is_infinite() {
                            ctx.fail("natural-to-f64-inf", &format!("f64::from({}) = {}, value >= 2^1024 - 2^970 is {}", show(n), gs, over));
                        }
                        if over {
                            ctx.count("f64.inf_threshold_side");
                        }
                    }
                    // exact when the odd part has at most 53 bits: the result denotes the value itself
                    let tz = if mb == 0 { 0 } else { (0..).find(|&i| bit(&rv.m, i)).unwrap() };
                    if mb > 0 && mb as u64 - tz <= 53 && wtot <= 1024 {
                        let b = got.to_bits();
                        let mant = (b & ((1 << 52) - 1)) | (1 << 52);
                        let ex = (b >> 52) as i128 - 1075;
                        let mtz = mant.trailing_zeros();
                        let got_pair = (mant >> mtz, ex + mtz as i128);
                        let want_m = shl_limbs(&rv.m, 0);
                        let mut odd = 0u64;
                        for i in 0..(mb as u64 - tz) {
                            if bit(&want_m, tz + i) {
                                odd |= 1 << i;
                            }
                        }
                        let want_pair = (odd, rv.e as i128 + tz as i128);
                        if got_pair != want_pair || got.is_infinite() {
                            ctx.fail("natural-to-f64-exact", &format!("f64::from({}) = {} is not the value itself", show(n), gs));
                        }
                        ctx.count("f64.exact_checked");
                    }
                }
                format!("{} {}", gs, es)
            }
            _ => "bad-op".into(),
        }
    }
}

struct Gen<'a> {
    w: &'a mut dyn Write,
    next: u64,
    lines: u64,
    case_no: u64,
}
impl Gen<'_> {
    fn emit(&mut self, s: String) {
        if self.lines % 240 == 0 {
            writeln!(self.w, "case natf64-{}", self.case_no).unwrap();
            self.case_no += 1;
            self.next = 0;
        }
        self.lines += 1;
        writeln!(self.w, "{}", s).unwrap();
    }
    /// a value given by explicit little-endian digits and a final shift; then `f64`
    fn value(&mut self, digits: &[u64], shl: u64) {
        // (a case boundary may fall between the lines of one value: start the case first)
        if self.lines % 240 > 236 {
            self.lines += 240 - self.lines % 240;
        }
        let a = self.next;
        self.next += 2;
        let ds: Vec<String> = digits.iter().map(|d| format!("{:x}", d)).collect();
        self.emit(format!("fromle n{} {}", a, ds.join(" ")));
        let v = if shl > 0 {
            self.emit(format!("shl n{} n{} {}", a + 1, a, shl));
            a + 1
        } else {
            a
        };
        self.emit(format!("f64 n{}", v));
    }
}

/// digits of the number with bits `top53` (53 bits, leading one set) followed by `extra` low bits `low`
fn compose(top53: u64, extra: u64, low: &[u64]) -> Vec<u64> {
    // value = top53 << extra | low   (low < 2^extra)
    let mut v = shl_limbs(&[top53], extra);
    for (i, d) in low.iter().enumerate() {
        if i < v.len() {
            v[i] |= d;
        } else {
            v.push(*d);
        }
    }
    trim(v)
}

fn generate(cfg: &GenCfg, rng: &mut Rng, w: &mut dyn Write) {
    let scale = cfg.scale.max(1);
    let mut g = Gen { w, next: 0, lines: 0, case_no: 0 };
    // 0. small values and zero
    for v in [0u64, 1, 2, 3, 4, 5, 7, 8, 255, 256, u64::MAX, u64::MAX - 1, 1 << 63, (1 << 53) - 1, 1 << 53, (1 << 53) + 1, (1 << 53) + 2, (1 << 53) + 3, (1 << 54) + 2, (1 << 54) + 6] {
        g.value(&[v], 0);
    }
    // 1. every mantissa width 1..=200 (1..=400 thorough) x the patterns below the 53 kept bits x parity of the kept LSB
    let maxw = if cfg.thorough { 400 } else { 200 };
    for width in 1..=maxw {
        let reps = if cfg.thorough { 3 * scale } else { scale };
        for _ in 0..reps {
            if width <= 53 {
                let v = (1u64 << (width - 1)) | (rng.next() & ((1u64 << (width - 1)) - 1));
                let sh = *rng.pick(&[0u64, 1, 63, 64, 971, 1024 - width, 1025 - width, 1023 - width]);
                g.value(&[v], sh);
                continue;
            }
            let extra = width - 53;
            for pat in 0..6u64 {
                if !cfg.thorough && rng.chance(1, 2) && pat != 1 {
                    continue;
                }
                let mut top = (1u64 << 52) | (rng.next() >> 12);
                match rng.below(4) {
                    0 => top |= 1,
                    1 => top &= !1,
                    2 => top = (1 << 53) - 1, // a round-up carries into the exponent
                    _ => {}
                }
                // low part below the kept bits, `extra` bits wide
                let half = shl_limbs(&[1], extra - 1);
                let ones = |k: u64| -> Vec<u64> {
                    let mut v = vec![u64::MAX; (k / 64) as usize];
                    if k % 64 != 0 {
                        v.push((1u64 << (k % 64)) - 1);
                    }
                    v
                };
                let low: Vec<u64> = match pat {
                    0 => vec![],
                    1 => half.clone(),                                      // exactly the midpoint
                    2 => add_limbs(&half, &[1]),                            // just above (only if extra > 1)
                    3 => ones(extra - 1),                                   // just below
                    4 => ones(extra),                                       // all ones
                    _ => {
                        let mut v: Vec<u64> = (0..extra.div_ceil(64)).map(|_| rng.next()).collect();
                        let r = extra % 64;
                        if r != 0 {
                            *v.last_mut().unwrap() &= (1u64 << r) - 1;
                        }
                        v
                    }
                };
                let low = if bits(&low) > extra { ones(extra) } else { low };
                let digits = compose(top, extra, &low);
                let near = 1024u64.saturating_sub(width);
                let sh = *rng.pick(&[0u64, 0, 1, 64, 900u64.min(near), near, near + 1, near.saturating_sub(1), near.saturating_sub(2)]);
                g.value(&digits, sh);
            }
        }
    }
    // 2. the overflow threshold 2^1024 - 2^970 and its neighbours
    {
        let d = vec![u64::MAX; 16]; // 2^1024 - 1
        g.value(&d, 0);
        let mut e = vec![u64::MAX; 16];
        e[15] &= !(1u64 << 10);
        g.value(&e, 0); // 2^1024 - 2^970 - 1: the largest value that is still finite
        let mut f = vec![0u64; 16];
        for i in 971..1024u64 {
            f[(i / 64) as usize] |= 1 << (i % 64);
        }
        g.value(&f, 0); // 2^1024 - 2^971 = f64::MAX exactly
        g.value(&[(1 << 53) - 1], 971); // the same, as mantissa and shift
        f[15] |= 1 << 10;
        g.value(&f, 0); // 2^1024 - 2^970: the tie, rounds to infinity
        g.value(&[(1 << 54) - 1], 970); // the same
        f[0] |= 1;
        g.value(&f, 0); // just above
        f[15] &= !(1u64 << 10);
        g.value(&f, 0); // 2^1024 - 2^971 + 1: just above f64::MAX, rounds down
        g.value(&[(1 << 55) - 3], 969); // 2^1024 - 3 * 2^969 < threshold
        g.value(&[(1 << 55) - 1], 969); // above
        g.value(&[1], 1023);
        g.value(&[1], 1024);
        g.value(&[1], 1025);
        g.value(&[3], 1022);
        g.value(&[3], 1023);
        g.value(&[1], 1 << 40);
        g.value(&[1], u64::MAX - 1);
        g.value(&[1], u64::MAX); // the error value
        g.value(&[0], 5);
        g.value(&[0, 0, 1], 0);
        g.value(&[0, 0, 0x8000000000000000], 0);
    }
    // 3. sums (heap digit arrays with a zero top digit come out of `Add`), then conversion
    let sums = if cfg.thorough { 3000 * scale } else { 400 * scale };
    for _ in 0..sums {
        if g.lines % 240 > 230 {
            g.lines += 240 - g.lines % 240;
        }
        let a = g.next;
        g.next += 4;
        let la = rng.range(1, 4) as usize;
        let lb = rng.range(1, la as u64) as usize;
        let mut da: Vec<u64> = (0..la).map(|_| rng.next()).collect();
        let mut db: Vec<u64> = (0..lb).map(|_| rng.next()).collect();
        match rng.below(4) {
            0 => *da.last_mut().unwrap() >>= rng.below(64),
            1 => {
                *da.last_mut().unwrap() = u64::MAX;
                *db.last_mut().unwrap() = rng.below(4);
            }
            2 => {
                da[0] |= 1;
                db[0] |= 1;
            }
            _ => {}
        }
        g.emit(format!("fromle n{} {}", a, da.iter().map(|d| format!("{:x}", d)).collect::<Vec<_>>().join(" ")));
        g.emit(format!("fromle n{} {}", a + 1, db.iter().map(|d| format!("{:x}", d)).collect::<Vec<_>>().join(" ")));
        let sb = rng.below(130);
        g.emit(format!("shl n{} n{} {}", a + 2, a + 1, sb));
        g.emit(format!("add n{} n{} n{}", a + 3, a, a + 2));
        g.emit(format!("f64 n{}", a + 3));
        if rng.chance(1, 3) {
            let sh = *rng.pick(&[700u64, 760, 800, 830, 1000]);
            g.emit(format!("shl n{} n{} {}", a, a + 3, sh));
            g.emit(format!("f64 n{}", a));
        }
    }
    // 4. malformed
    writeln!(g.w, "case malformed").unwrap();
    for l in ["f64 nope", "f64", "fromle n0 xyz", "shl n1 n0 -1", "add n1 n0 n7", "frob"] {
        writeln!(g.w, "{}", l).unwrap();
    }
}

fn make(_f: &BTreeMap<String, String>) -> Box<dyn Scenario> {
    Box::new(Sc::default())
}

fn main() {
    harness_main(generate, make)
}
