//! Reproduction of `count_during_collection_wrong` on the real code: a model count that runs while
//! a collection on another thread is between its `gc_count` increment and the sweep of the level
//! of a node the count caches.
use oxidd::bdd::BDDFunction;
use oxidd::util::SatCountCache;
use oxidd::{BooleanFunction, Function, Manager, ManagerRef};
use oxidd_core::util::num::Saturating;

fn main() {
    let pairs: u32 = std::env::args().nth(1).map(|s| s.parse().unwrap()).unwrap_or(17);
    let rounds: u32 = std::env::args().nth(2).map(|s| s.parse().unwrap()).unwrap_or(5);
    let top = 2 * pairs; // ballast on variables 0..top, the counted functions on top..top+4
    let vars = top + 4;
    let mref = oxidd::bdd::new_manager(1 << 23, 1 << 16, 1);
    mref.with_manager_exclusive(|m| {
        m.add_vars(vars);
    });
    let xs: Vec<BDDFunction> = mref.with_manager_shared(|m| (0..vars).map(|v| BDDFunction::var(m, v).unwrap()).collect());
    let mut wrong = 0;
    let mut during = 0;
    for round in 0..rounds {
        let mut cache: SatCountCache<Saturating<u64>, std::hash::RandomState> = SatCountCache::default();
        cache.cache_all = true;
        // ballast: OR_i (x_i & x_{i+pairs}) has more than 2^(pairs+1) nodes under this order
        let mut b = xs[0].and(&xs[pairs as usize]).unwrap();
        for i in 1..pairs as usize {
            b = b.or(&xs[i].and(&xs[i + pairs as usize]).unwrap()).unwrap();
        }
        // g = AND of the four bottom variables
        let t = top as usize;
        let g = xs[t].and(&xs[t + 1]).unwrap().and(&xs[t + 2]).unwrap().and(&xs[t + 3]).unwrap();
        let ballast_nodes = b.node_count();
        drop(b); // dead, still in the unique tables of the upper levels
        let e0 = mref.with_manager_shared(|m| m.gc_count());
        let done = std::sync::atomic::AtomicBool::new(false);
        let (cg, in_window) = std::thread::scope(|sc| {
            let doner = &done;
            let mr = &mref;
            let h = sc.spawn(move || {
                mr.with_manager_shared(|m| m.gc());
                doner.store(true, std::sync::atomic::Ordering::SeqCst);
            });
            // wait until the collection has advanced gc_count
            while mref.with_manager_shared(|m| m.gc_count()) == e0 {
                std::hint::spin_loop();
            }
            let cg = g.sat_count(vars, &mut cache).0;
            drop(g);
            let in_window = !done.load(std::sync::atomic::Ordering::SeqCst);
            h.join().unwrap();
            (cg, in_window)
        });
        if in_window {
            during += 1;
        }
        // h = OR of the four bottom variables, built after the collection (recycled slots)
        let h = xs[t].or(&xs[t + 1]).unwrap().or(&xs[t + 2]).unwrap().or(&xs[t + 3]).unwrap();
        let e1 = mref.with_manager_shared(|m| m.gc_count());
        let size_before = cache.map.len();
        let ch = h.sat_count(vars, &mut cache).0;
        let expect_g = 1u64 << top;
        let expect_h = 15u64 << top;
        let mut fresh: SatCountCache<Saturating<u64>, std::hash::RandomState> = SatCountCache::default();
        let ch_fresh = h.sat_count(vars, &mut fresh).0;
        println!(
            "round {round}: ballast {ballast_nodes} nodes; gc_count {e0} -> {e1}; count(g) in window: {in_window}; count(g) = {cg} (expected {expect_g}); cache entries kept for count(h): {size_before}; count(h) = {ch}, with a fresh cache {ch_fresh}, expected {expect_h}{}",
            if ch != expect_h { "  <-- WRONG" } else { "" }
        );
        if ch != expect_h {
            wrong += 1;
        }
        drop(h);
        mref.with_manager_shared(|m| m.gc());
    }
    println!("counts inside a collection: {during}/{rounds}; wrong counts: {wrong}");
    std::process::exit(if wrong > 0 { 1 } else { 0 });
}
