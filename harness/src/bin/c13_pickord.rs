//! C13: `pick_cube` / `pick_cube_dd` of BCDD and ZBDD under NON-identity variable orders, against
//! the store-level Lean models `OxiddModel/Bcdd/PickSO.lean`, `OxiddModel/Zbdd/PickSO.lean`
//! (protocols `pickord-bcdd`, `pickord-zbdd`).
//!
//! `c13_pickord gen --kind bcdd|zbdd --tier .. --seed ..` writes cases
//!   `mgr … vars=n` / `order <perm>` (set on the manager before any function node exists; for ZBDD
//!   only the tautology chain is there) / `tt f<i> <hex>` / `pickvec f bits` / `pick r f bits` /
//!   `picknew f bits`
//! * part A: 3 variables, all 256 functions, all 8 choice vectors, under the two 3-cycles
//!   `1 2 0`, `2 0 1` (orders that are not their own inverse) and one transposition (thorough: all
//!   five non-identity orders);
//! * part B: 4–6 variables, random non-identity orders (at least every second one not an
//!   involution), pools of random functions that always contain every positive and negative
//!   literal (ZBDD: the walk passes don't-care nodes above the variable's level and reaches the
//!   tautology tail below it; BCDD: complemented roots), sparse families and dense functions.
//!
//! `run --kind …` executes the lines on a real manager through the shared `Bf<K>` scenario, which
//! evaluates the C13 oracles by truth table independently of the model (the vector is interpreted
//! by VARIABLE index: implicant / member check, `None` iff unsatisfiable, choice honoured exactly
//! where asked, asked at most once per level with a node of that level, `pick_cube_dd` denotes the
//! cube of `pick_cube`, canonicity of the result handle).  `picknew` (this file): collect garbage,
//! then count the nodes `pick_cube_dd` allocates — compared with the model's store — and check the
//! result again (implicant, cube, `⊥` iff `f` is `⊥`, at most one node per level).
use oxidd::{BooleanFunction, Manager, ManagerRef};
use oxv::bf::{Bf, Kind, TT};
use oxv::kinds::{KBcdd, KZbdd};
use oxv::*;
use std::collections::BTreeMap;
use std::io::Write;

// ------------------------------------------------------------------------------------------------
// generator

fn perms(n: u32) -> Vec<Vec<u32>> {
    fn go(cur: &mut Vec<u32>, used: &mut Vec<bool>, n: u32, out: &mut Vec<Vec<u32>>) {
        if cur.len() == n as usize {
            out.push(cur.clone());
            return;
        }
        for v in 0..n {
            if !used[v as usize] {
                used[v as usize] = true;
                cur.push(v);
                go(cur, used, n, out);
                cur.pop();
                used[v as usize] = false;
            }
        }
    }
    let mut out = Vec::new();
    go(&mut Vec::new(), &mut vec![false; n as usize], n, &mut out);
    out
}

fn order_str(o: &[u32]) -> String {
    o.iter().map(|v| v.to_string()).collect::<Vec<_>>().join(" ")
}

fn is_identity(o: &[u32]) -> bool {
    o.iter().enumerate().all(|(i, &v)| i as u32 == v)
}

fn is_involution(o: &[u32]) -> bool {
    o.iter().enumerate().all(|(i, &v)| o[v as usize] == i as u32)
}

fn var_tt(n: u32, v: u32) -> u128 {
    let mut t = 0u128;
    for a in 0..(1u32 << n) {
        if (a >> v) & 1 != 0 {
            t |= 1u128 << a;
        }
    }
    t
}

fn generate(cfg: &GenCfg, rng: &mut Rng, w: &mut dyn Write) {
    // part A
    let n = 3u32;
    let orders: Vec<Vec<u32>> = if cfg.thorough {
        perms(n).into_iter().filter(|o| !is_identity(o)).collect()
    } else {
        vec![vec![1, 2, 0], vec![2, 0, 1], vec![0, 2, 1]]
    };
    for (oi, order) in orders.iter().enumerate() {
        writeln!(w, "case pickord-n3-o{}", oi).unwrap();
        writeln!(w, "mgr nodes=65536 cache=1024 threads=1 vars={}", n).unwrap();
        writeln!(w, "order {}", order_str(order)).unwrap();
        for t in 0..256u32 {
            writeln!(w, "tt f{} {:x}", t, t).unwrap();
        }
        for f in 0..256u32 {
            for ch in 0..8u32 {
                writeln!(w, "pickvec f{} {:03b}", f, ch).unwrap();
                writeln!(w, "pick r f{} {:03b}", f, ch).unwrap();
            }
        }
        // (no handle is bound from here on: the model keeps one store for all these lines)
        for f in 0..256u32 {
            for ch in 0..8u32 {
                if cfg.thorough || (f + ch) % 4 == 0 {
                    writeln!(w, "picknew f{} {:03b}", f, ch).unwrap();
                }
            }
        }
    }
    // part B
    let cases = if cfg.thorough { 60 } else { 10 } * cfg.scale;
    for c in 0..cases {
        let n = rng.range(4, 6) as u32;
        let mut order: Vec<u32> = (0..n).collect();
        loop {
            rng.shuffle(&mut order);
            if is_identity(&order) {
                continue;
            }
            if c % 2 == 0 && is_involution(&order) {
                continue;
            }
            break;
        }
        writeln!(w, "case pickord-rand-{}-n{}", c, n).unwrap();
        writeln!(w, "mgr nodes=65536 cache=256 threads=1 vars={}", n).unwrap();
        writeln!(w, "order {}", order_str(&order)).unwrap();
        let full: u128 = if n == 7 { u128::MAX } else { (1u128 << (1u32 << n)) - 1 };
        let mut pool: Vec<String> = Vec::new();
        let mut k = 0;
        let mut add = |w: &mut dyn Write, pool: &mut Vec<String>, t: u128| {
            writeln!(w, "tt g{} {:x}", k, t & full).unwrap();
            pool.push(format!("g{}", k));
            k += 1;
        };
        for v in 0..n {
            add(w, &mut pool, var_tt(n, v));
            add(w, &mut pool, !var_tt(n, v));
        }
        add(w, &mut pool, 0);
        add(w, &mut pool, full);
        add(w, &mut pool, 1); // the family {∅} / the cube of all negative literals
        for _ in 0..(if cfg.thorough { 14 } else { 8 }) {
            let bits = 1u32 << n;
            let mut t = 0u128;
            match rng.below(4) {
                0 => {
                    // sparse: a few members
                    for _ in 0..rng.range(1, 4) {
                        t |= 1u128 << rng.below(bits as u64);
                    }
                }
                1 => {
                    // dense: all but a few
                    t = full;
                    for _ in 0..rng.range(1, 4) {
                        t &= !(1u128 << rng.below(bits as u64));
                    }
                }
                2 => {
                    // product of two literals combined with a random function
                    let (a, b) = (rng.below(n as u64) as u32, rng.below(n as u64) as u32);
                    let x = if rng.chance(1, 2) { var_tt(n, a) } else { !var_tt(n, a) };
                    let y = if rng.chance(1, 2) { var_tt(n, b) } else { !var_tt(n, b) };
                    t = if rng.chance(1, 2) { x & y } else { x ^ y };
                }
                _ => {
                    for a in 0..bits {
                        if rng.chance(1, 2) {
                            t |= 1u128 << a;
                        }
                    }
                }
            }
            add(w, &mut pool, t);
        }
        let picks = if cfg.thorough { 80 } else { 40 };
        let mut news: Vec<String> = Vec::new();
        for s in 0..picks {
            let f = rng.pick(&pool).clone();
            let ch = rng.below(1 << n);
            writeln!(w, "pickvec {} {:0width$b}", f, ch, width = n as usize).unwrap();
            writeln!(w, "pick r{} {} {:0width$b}", s % 4, f, ch, width = n as usize).unwrap();
            news.push(format!("picknew {} {:0width$b}", f, ch, width = n as usize));
            if s % 4 == 3 {
                // results of earlier picks are inputs as well (cubes / singleton families)
                let ch2 = rng.below(1 << n);
                writeln!(w, "pickvec r{} {:0width$b}", rng.below(4), ch2, width = n as usize).unwrap();
            }
        }
        for l in news {
            writeln!(w, "{}", l).unwrap();
        }
    }
}

// ------------------------------------------------------------------------------------------------
// scenario

struct PickOrd<K: Kind> {
    inner: Bf<K>,
}

impl<K: Kind> Scenario for PickOrd<K>
where
    K::F: BooleanFunction,
{
    fn reset(&mut self) {
        self.inner.reset();
    }

    fn step(&mut self, line: &str, ctx: &mut Ctx) -> String {
        let w = words(line);
        match w[0] {
            "order" => {
                let out = self.inner.step(line, ctx);
                let l2v = self.inner.l2v();
                if l2v.iter().enumerate().all(|(i, &v)| i as u32 == v) {
                    ctx.count("order-identity");
                } else if l2v.iter().enumerate().all(|(i, &v)| l2v[v as usize] == i as u32) {
                    ctx.count("order-involution");
                } else {
                    ctx.count("order-not-own-inverse");
                }
                out
            }
            "pickvec" => {
                let out = self.inner.step(line, ctx);
                if let Some((f, _)) = self.inner.get(w[1]) {
                    let tree = self.inner.tree_of(f);
                    if tree.starts_with('~') {
                        ctx.count("root-complemented");
                    }
                    let l2v = self.inner.l2v();
                    if out != "NONE" && out != "bad-op" && out.len() == l2v.len() {
                        let v: Vec<char> = out.chars().collect();
                        // what a walk writing at index `level` would have produced
                        let mut by_level = vec!['?'; v.len()];
                        let init = if K::NAME == "zbdd" { '0' } else { '-' };
                        for x in by_level.iter_mut() {
                            *x = init;
                        }
                        // entries written by the walk are those whose level is on the path; we do not
                        // know the path here, so compare the permuted vector instead
                        for (l, &var) in l2v.iter().enumerate() {
                            by_level[l] = v[var as usize];
                        }
                        if by_level != v {
                            ctx.count("vector-discriminates-level-vs-variable");
                        }
                        if K::NAME == "zbdd" {
                            if l2v.iter().enumerate().any(|(l, &var)| l >= 1 && v[var as usize] == '-') {
                                ctx.count("zbdd-dontcare-at-level>=1");
                            }
                            if l2v.iter().enumerate().any(|(l, &var)| {
                                l >= 1 && v[var as usize] == '-' && (l + 1..l2v.len()).all(|l2| v[l2v[l2] as usize] == '-')
                                    && (0..l).any(|l0| v[l2v[l0] as usize] != '-')
                            }) {
                                ctx.count("zbdd-tautology-tail-below-decision");
                            }
                        }
                    }
                }
                out
            }
            "picknew" => {
                let (f, t) = match self.inner.get(w[1]) {
                    Some((f, t)) => (f.clone(), t.clone()),
                    None => return "bad-op".into(),
                };
                let choice = usize::from_str_radix(w[2], 2).unwrap();
                let n = self.inner.n;
                let before = self.inner.mref().with_manager_shared(|m| {
                    m.gc();
                    m.num_inner_nodes()
                });
                let r = f.pick_cube_dd(|_, _, level| (choice >> level) & 1 != 0);
                let after = self.inner.mref().with_manager_shared(|m| m.num_inner_nodes());
                match r {
                    Err(_) => "OOM".into(),
                    Ok(r) => {
                        let act: TT = self.inner.actual_tt(&r, ctx, line);
                        if !act.implies(&t) {
                            ctx.fail("pick-not-implicant", &format!("pick_cube_dd result {} does not imply {}", act.hex(), t.hex()));
                        }
                        if act.is_false() != t.is_false() {
                            ctx.fail("pick-none-iff-false", "pick_cube_dd is ⊥ iff the function is — violated");
                        }
                        if !act.is_false() && act.cube_literals().is_none() {
                            ctx.fail("pick-not-cube", &format!("pick_cube_dd result {} is not a cube", act.hex()));
                        }
                        if after < before || after - before > n as usize {
                            ctx.fail("pick-too-many-nodes", &format!("pick_cube_dd allocated {} nodes for {} levels", after as i64 - before as i64, n));
                        }
                        if after > before {
                            ctx.count("picknew-allocates");
                        } else {
                            ctx.count("picknew-all-shared");
                        }
                        drop(r);
                        self.inner.mref().with_manager_shared(|m| {
                            m.gc();
                        });
                        format!("new={}", after - before)
                    }
                }
            }
            _ => self.inner.step(line, ctx),
        }
    }
}

fn make(f: &BTreeMap<String, String>) -> Box<dyn Scenario> {
    match f.get("kind").map(|s| s.as_str()) {
        Some("zbdd") => Box::new(PickOrd { inner: Bf::<KZbdd>::new(f) }),
        _ => Box::new(PickOrd { inner: Bf::<KBcdd>::new(f) }),
    }
}

fn main() {
    harness_main(generate, make)
}
