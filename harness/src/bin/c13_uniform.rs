//! C13, last clause ("uniform picking never returns a non-model and selects models without bias"):
//! correspondence scenario for the sampler models `OxiddModel.{Bdd,Bcdd,Zbdd}.Uniform`
//! (protocol `uniformprob`, Lean driver `OxiddModel/Bdd/DriverUniform.lean`).
//!
//! ```text
//! kind bdd|bcdd|zbdd            -> ok
//! mgr <n> <v_0> … <v_{n-1}>     -> ok       n variables, level i holds variable v_i
//! tt <h> <hex>                  -> tree     function with that truth table
//! allcounts <h>                 -> every sampler path (then-first): the pairs (t_count, e_count) the
//!                                  closure of `pick_cube_uniform_edge` computes at the nodes where it is
//!                                  consulted, obtained exactly as that closure does (`cofactors_node` on the
//!                                  tag of the edge passed in, `sat_count_edge::<F64>` over `num_levels`
//!                                  variables, one shared `SatCountCache`), driven through the public
//!                                  `pick_cube` with scripted decisions
//! pickseq <h> <a/b> …           -> `pick_cube` with a closure that applies the rule
//!                                  `r < t_count / (t_count + e_count)` to the harness-controlled numbers a/b
//! pickreal <h> <seed> <a/b> …   -> the real `pick_cube_uniform` with `Rng::new_seed(seed)`; a/b … are the
//!                                  numbers that generator yields (the generator and the run side hold a
//!                                  replica of nanorand's WyRand; the run side checks the listed numbers)
//! pickuni <h> <seed> <reps>     -> oracle only: `pick_cube_uniform` on `reps` seeds never returns a non-model
//! ```
//! Oracles on the implementation (independent of the Lean model): every count equals the number of
//! models of the cofactor found by an independent node-by-node walk; along every sampler path the
//! product of the branch probabilities formed from the *code's* counts is exactly
//! `2^(don't cares) / #models` and the weights of all paths add up to `#models`; the cube returned by
//! the real `pick_cube_uniform` is the one the rule yields on the replicated random numbers; the
//! `f64` comparison agrees with the exact rational comparison; no returned cube contains a non-model.
use std::collections::{BTreeMap, HashMap};
use std::hash::RandomState;
use std::io::Write;

use oxidd::util::{AllocResult, OptBool, SatCountCache};
use oxidd::{BooleanFunction, Edge, Function, Manager, ManagerRef};
use oxidd_core::function::EdgeOfFunc;
use oxidd_core::util::num::F64;
use oxv::bf::{Kind, TT};
use oxv::kinds::{KBcdd, KBdd, KZbdd};
use oxv::*;

// ------------------------------------------------------------------------------------------------
// replica of nanorand 0.8 `WyRand` and of `f64::random` (`u64 as f64 / u64::MAX as f64`)

struct WyReplica(u64);
impl WyReplica {
    fn next_u64(&mut self) -> u64 {
        self.0 = self.0.wrapping_add(0xa0761d6478bd642f);
        let t: u128 = (self.0 as u128).wrapping_mul((self.0 ^ 0xe7037ed1a0b428db) as u128);
        (t.wrapping_shr(64) ^ t) as u64
    }
    /// the value `generate::<f64>()` returns, and its exact numerator over 2^64
    fn next_f64(&mut self) -> (f64, u128) {
        let x = self.next_u64() as f64; // rounds to 53 bits; may be 2^64
        (x / (u64::MAX as f64), x as u128)
    }
}
const TWO64: &str = "18446744073709551616";

// ------------------------------------------------------------------------------------------------

type Cache = SatCountCache<F64, RandomState>;

struct Uni<K: Kind> {
    mref: Option<<K::F as Function>::ManagerRef>,
    n: u32,
    h: HashMap<String, K::F>,
    tt: HashMap<String, TT>,
    cache: Cache,
}

/// what the closure of `pick_cube_uniform_edge` computes before drawing the random number
fn closure_counts<'id, K: Kind>(m: &<K::F as Function>::Manager<'id>, edge: &EdgeOfFunc<'id, K::F>, cache: &mut Cache) -> (f64, f64) {
    let vars = m.num_levels();
    let tag = edge.tag();
    // `edge` is guaranteed to point to an inner node
    let node = m.get_node(edge).unwrap_inner();
    let (t, e) = K::F::cofactors_node(tag, node);
    let t_count = K::F::sat_count_edge(m, &*t, vars, cache).0;
    let e_count = K::F::sat_count_edge(m, &*e, vars, cache).0;
    (t_count, e_count)
}

/// number of models of the two cofactors by an independent walk over all assignments
fn walk_counts<'id, K: Kind>(m: &<K::F as Function>::Manager<'id>, edge: &EdgeOfFunc<'id, K::F>, n: u32) -> (u64, u64) {
    let tag = edge.tag();
    let node = m.get_node(edge).unwrap_inner();
    let (t, e) = K::F::cofactors_node(tag, node);
    let mut ct = 0;
    let mut ce = 0;
    for a in 0..(1usize << n) {
        if K::walk_eval(m, &*t, a) {
            ct += 1;
        }
        if K::walk_eval(m, &*e, a) {
            ce += 1;
        }
    }
    (ct, ce)
}

fn to_int(x: f64) -> Option<u64> {
    if x.is_finite() && x >= 0.0 && x.fract() == 0.0 && x < 1.8e19 { Some(x as u64) } else { None }
}

fn cube_str(c: &[OptBool]) -> String {
    c.iter()
        .map(|l| match l {
            OptBool::True => '1',
            OptBool::False => '0',
            OptBool::None => '-',
        })
        .collect()
}

fn cube_tt(n: u32, c: &[OptBool]) -> TT {
    TT::from_fn(n, |a| {
        c.iter().enumerate().all(|(v, l)| match l {
            OptBool::True => (a >> v) & 1 != 0,
            OptBool::False => (a >> v) & 1 == 0,
            OptBool::None => true,
        })
    })
}

fn parse_frac(w: &str) -> Option<(u128, u128)> {
    let (a, b) = w.split_once('/')?;
    Some((a.parse().ok()?, b.parse().ok()?))
}

fn parse_tt(n: u32, hex: &str) -> TT {
    let digits: Vec<u8> = hex.bytes().rev().map(|c| (c as char).to_digit(16).unwrap() as u8).collect();
    TT::from_fn(n, |a| digits.get(a / 4).map(|d| (d >> (a % 4)) & 1 != 0).unwrap_or(false))
}

struct Consult {
    level: u32,
    ct: f64,
    ce: f64,
    taken: bool,
}

impl<K: Kind> Uni<K> {
    fn new() -> Self {
        Uni { mref: None, n: 0, h: HashMap::new(), tt: HashMap::new(), cache: Cache::default() }
    }

    /// `pick_cube` with the decisions of `decide(i, t_count, e_count)` at the i-th consultation; logs
    /// every consultation and checks the counts against the independent walk
    fn run_pick(&mut self, f: &K::F, ctx: &mut Ctx, mut decide: impl FnMut(usize, f64, f64) -> bool) -> (Option<Vec<OptBool>>, Vec<Consult>) {
        let n = self.n;
        let mut log: Vec<Consult> = Vec::new();
        let mut bad: Vec<String> = Vec::new();
        let cache = &mut self.cache;
        let r = f.pick_cube(|m, e, level| {
            let (ct, ce) = closure_counts::<K>(m, e, cache);
            let (wt, we) = walk_counts::<K>(m, e, n);
            if to_int(ct) != Some(wt) || to_int(ce) != Some(we) {
                bad.push(format!("level {}: sat_count of the cofactors gives ({}, {}) but they have ({}, {}) models", level, ct, ce, wt, we));
            }
            if !(ct + ce > 0.0) {
                bad.push(format!("level {}: t_count + e_count = {} (division by zero)", level, ct + ce));
            }
            let c = decide(log.len(), ct, ce);
            log.push(Consult { level, ct, ce, taken: c });
            c
        });
        for b in bad {
            ctx.fail("uniform-count", &b);
        }
        ctx.add("consultations", log.len() as u64);
        (r, log)
    }
}

impl<K: Kind> Scenario for Uni<K> {
    fn reset(&mut self) {
        self.h.clear();
        self.tt.clear();
        self.mref = None;
        self.n = 0;
        self.cache = Cache::default();
    }

    fn step(&mut self, line: &str, ctx: &mut Ctx) -> String {
        let w = words(line);
        match w[0] {
            "mgr" => {
                let n: u32 = match w.get(1).and_then(|x| x.parse().ok()) {
                    Some(n) => n,
                    None => return "bad-op".into(),
                };
                let order: Vec<u32> = w[2..].iter().filter_map(|x| x.parse().ok()).collect();
                let mut sorted = order.clone();
                sorted.sort();
                if order.len() != n as usize || sorted != (0..n).collect::<Vec<_>>() {
                    return "bad-op".into();
                }
                self.reset();
                let mref = K::new_manager(1 << 16, 1 << 10, 1);
                mref.with_manager_exclusive(|m| {
                    m.add_vars(n);
                });
                if n >= 2 {
                    K::reorder(&mref, &order, false);
                }
                let l2v: Vec<u32> = mref.with_manager_shared(|m| (0..m.num_levels()).map(|l| m.level_to_var(l)).collect());
                if l2v != order {
                    ctx.fail("order-not-established", &format!("requested {:?} but level_to_var is {:?}", order, l2v));
                }
                self.mref = Some(mref);
                self.n = n;
                // alternate the cache mode (the doc comment recommends `cache_all` for repeated sampling)
                self.cache.cache_all = order.first().map(|v| v % 2 == 1).unwrap_or(false);
                "ok".into()
            }
            "tt" => {
                let n = self.n;
                let e = parse_tt(n, w[2]);
                fn build<F: BooleanFunction>(m: &F::Manager<'_>, e: &TT, v: u32, fixed: usize) -> AllocResult<F> {
                    if v == e.n {
                        return Ok(if e.get(fixed) { F::t(m) } else { F::f(m) });
                    }
                    let hi = build::<F>(m, e, v + 1, fixed | (1 << v))?;
                    let lo = build::<F>(m, e, v + 1, fixed)?;
                    F::var(m, v)?.ite(&hi, &lo)
                }
                let mref = match &self.mref {
                    Some(m) => m,
                    None => return "bad-op".into(),
                };
                let f: K::F = match mref.with_manager_shared(|m| build::<K::F>(m, &e, 0, 0)) {
                    Ok(f) => f,
                    Err(_) => return "OOM".into(),
                };
                let actual = f.with_manager_shared(|m, ed| TT::from_fn(n, |a| K::walk_eval(m, ed, a)));
                if actual != e {
                    ctx.fail("wrong-function", &format!("{}: built {} instead of {}", line, actual.hex(), e.hex()));
                }
                let s = f.with_manager_shared(|m, ed| K::tree(m, ed));
                self.tt.insert(w[1].to_string(), actual);
                self.h.insert(w[1].to_string(), f);
                s
            }
            "allcounts" => {
                let (f, t) = match (self.h.get(w[1]), self.tt.get(w[1])) {
                    (Some(f), Some(t)) => (f.clone(), t.clone()),
                    _ => return "bad-op".into(),
                };
                let n = self.n;
                let total = t.count() as u128;
                let l2v: Vec<u32> = self.mref.as_ref().unwrap().with_manager_shared(|m| (0..m.num_levels()).map(|l| m.level_to_var(l)).collect());
                let mut script: Vec<bool> = Vec::new();
                let mut out: Vec<String> = Vec::new();
                let mut weight_sum: u128 = 0;
                let mut covered = TT::new(n, false);
                loop {
                    let sc = script.clone();
                    let (r, log) = self.run_pick(&f, ctx, |i, _, _| sc.get(i).copied().unwrap_or(true));
                    let cube = match r {
                        None => {
                            if !t.is_false() {
                                ctx.fail("pick-none-for-sat", "pick_cube returned None for a satisfiable function");
                            }
                            return "NONE".into();
                        }
                        Some(c) => c,
                    };
                    if t.is_false() {
                        ctx.fail("pick-some-for-unsat", "pick_cube returned a cube for the unsatisfiable function");
                        return cube_str(&cube);
                    }
                    ctx.count("sampler-paths");
                    if log.len() < cube.iter().filter(|l| **l != OptBool::None).count() && K::NAME != "zbdd" {
                        ctx.count("paths-with-forced-step");
                    }
                    if cube.iter().any(|l| *l == OptBool::None) {
                        ctx.count("paths-with-dont-care");
                    }
                    // exact probability of this path under the rule, from the code's counts
                    let mut num: u128 = 1;
                    let mut den: u128 = 1;
                    for c in &log {
                        let (ct, ce) = (to_int(c.ct).unwrap_or(0) as u128, to_int(c.ce).unwrap_or(0) as u128);
                        num *= if c.taken { ct } else { ce };
                        den *= ct + ce;
                    }
                    let k = cube.iter().filter(|l| **l == OptBool::None).count() as u32;
                    if den == 0 || num * total != (1u128 << k) * den {
                        ctx.fail("uniform-cube-prob", &format!("{}: cube {} has probability {}/{} under the rule with the code's counts, expected 2^{}/{}", t.hex(), cube_str(&cube), num, den, k, total));
                    }
                    let ctt = cube_tt(n, &cube);
                    if !ctt.implies(&t) {
                        ctx.fail("uniform-non-model", &format!("{}: cube {} is not an implicant", t.hex(), cube_str(&cube)));
                    }
                    if !ctt.map2(&covered, |a, b| a && b).is_false() {
                        ctx.fail("uniform-cubes-overlap", &format!("{}: cube {} overlaps an earlier path's cube", t.hex(), cube_str(&cube)));
                    }
                    covered = covered.map2(&ctt, |a, b| a || b);
                    weight_sum += 1u128 << k;
                    out.push(if log.is_empty() {
                        "-".into()
                    } else {
                        log.iter().map(|c| format!("v{}:{}:{}", l2v[c.level as usize], c.ct, c.ce)).collect::<Vec<_>>().join(" ")
                    });
                    // next script: flip the last `true` decision
                    let taken: Vec<bool> = log.iter().map(|c| c.taken).collect();
                    match taken.iter().rposition(|b| *b) {
                        Some(p) => {
                            script = taken[..p].to_vec();
                            script.push(false);
                        }
                        None => break,
                    }
                }
                if weight_sum != total || covered != t {
                    ctx.fail("uniform-total", &format!("{}: the sampler's cubes have total weight {} and cover {}, the function has {} models", t.hex(), weight_sum, covered.hex(), total));
                }
                out.join(" ; ")
            }
            "pickseq" => {
                let (f, t) = match (self.h.get(w[1]), self.tt.get(w[1])) {
                    (Some(f), Some(t)) => (f.clone(), t.clone()),
                    _ => return "bad-op".into(),
                };
                let fr: Option<Vec<(u128, u128)>> = w[2..].iter().map(|x| parse_frac(x)).collect();
                let fr = match fr {
                    Some(x) => x,
                    None => return "bad-op".into(),
                };
                let mut disagree: Vec<String> = Vec::new();
                let (mut boundary, mut ones) = (0u64, 0u64);
                let (r, log) = self.run_pick(&f, ctx, |i, ct, ce| {
                    let (a, b) = fr.get(i).copied().unwrap_or((0, 1));
                    let r = a as f64 / b as f64;
                    let c = r < ct / (ct + ce); // the comparison of `pick_cube_uniform_edge`
                    let (it, ie) = (to_int(ct).unwrap_or(0) as u128, to_int(ce).unwrap_or(0) as u128);
                    let exact = a * (it + ie) < it * b;
                    if a * (it + ie) == it * b {
                        boundary += 1;
                    }
                    if a == b {
                        ones += 1;
                    }
                    if c != exact {
                        disagree.push(format!("{}/{} < {}/({}+{}) is {} in f64 but {} exactly", a, b, ct, ct, ce, c, exact));
                    }
                    c
                });
                for d in disagree {
                    ctx.fail("f64-vs-exact", &d);
                }
                ctx.add("draw-equals-threshold", boundary);
                ctx.add("draw-equals-one", ones);
                if log.len() < (0..self.n).count() && log.iter().any(|c| !c.taken) {
                    ctx.count("pickseq-else-taken");
                }
                match r {
                    None => {
                        if !t.is_false() {
                            ctx.fail("pick-none-for-sat", "pick_cube returned None for a satisfiable function");
                        }
                        "NONE".into()
                    }
                    Some(cube) => {
                        if !cube_tt(self.n, &cube).implies(&t) || t.is_false() {
                            ctx.fail("uniform-non-model", &format!("{}: cube {} is not an implicant", t.hex(), cube_str(&cube)));
                        }
                        let cs = if log.is_empty() { "-".to_string() } else { log.iter().map(|c| format!("{}:{}", c.ct, c.ce)).collect::<Vec<_>>().join(" ") };
                        format!("{} | {} | {}", cube_str(&cube), cs, log.len())
                    }
                }
            }
            "pickreal" => {
                let (f, t) = match (self.h.get(w[1]), self.tt.get(w[1])) {
                    (Some(f), Some(t)) => (f.clone(), t.clone()),
                    _ => return "bad-op".into(),
                };
                let seed: u64 = match w.get(2).and_then(|x| x.parse().ok()) {
                    Some(s) => s,
                    None => return "bad-op".into(),
                };
                // the numbers listed on the line must be the ones the generator yields
                let mut rep = WyReplica(seed);
                let mut rs: Vec<f64> = Vec::new();
                for x in &w[3..] {
                    let (r, num) = rep.next_f64();
                    if *x != format!("{}/{}", num, TWO64) {
                        return "bad-op".into();
                    }
                    rs.push(r);
                }
                let mut rng = oxidd_core::util::Rng::new_seed(seed);
                let real = f.pick_cube_uniform(&mut self.cache, &mut rng);
                // the same walk through the public `pick_cube` with the rule applied to the replicated numbers
                let mut short = false;
                let (mine, _) = self.run_pick(&f, ctx, |i, ct, ce| match rs.get(i) {
                    Some(r) => *r < ct / (ct + ce),
                    None => {
                        short = true;
                        true
                    }
                });
                if short {
                    return "bad-op".into();
                }
                if real != mine {
                    ctx.fail(
                        "uniform-closure-differs",
                        &format!("{}: pick_cube_uniform(seed {}) returned {:?} but the rule `r < t_count/(t_count+e_count)` on the cofactors' counts yields {:?}", t.hex(), seed, real.as_ref().map(|c| cube_str(c)), mine.as_ref().map(|c| cube_str(c))),
                    );
                }
                match real {
                    None => {
                        if !t.is_false() {
                            ctx.fail("pick-none-for-sat", "pick_cube_uniform returned None for a satisfiable function");
                        }
                        "NONE".into()
                    }
                    Some(cube) => {
                        if !cube_tt(self.n, &cube).implies(&t) || t.is_false() {
                            ctx.fail("uniform-non-model", &format!("{}: pick_cube_uniform returned {} which is not an implicant", t.hex(), cube_str(&cube)));
                        }
                        cube_str(&cube)
                    }
                }
            }
            "stalecache" => {
                // use the shared count cache for another variable count first (`sat_count` with
                // `vars`): the next `pick_cube_uniform` / count must notice that its entries are
                // not valid for `num_levels` variables
                let f = match self.h.get(w[1]) {
                    Some(f) => f.clone(),
                    None => return "bad-op".into(),
                };
                let vars: u32 = match w.get(2).and_then(|x| x.parse().ok()) {
                    Some(v) if w.len() == 3 => v,
                    _ => return "bad-op".into(),
                };
                self.cache.cache_all = true;
                let _: F64 = f.sat_count(vars, &mut self.cache);
                ctx.count("stalecache");
                "ok".into()
            }
            "pickuni" => {
                let (f, t) = match (self.h.get(w[1]), self.tt.get(w[1])) {
                    (Some(f), Some(t)) => (f.clone(), t.clone()),
                    _ => return "bad-op".into(),
                };
                let (seed, reps): (u64, u64) = match (w.get(2).and_then(|x| x.parse().ok()), w.get(3).and_then(|x| x.parse().ok())) {
                    (Some(s), Some(r)) => (s, r),
                    _ => return "bad-op".into(),
                };
                for i in 0..reps {
                    let mut rng = oxidd_core::util::Rng::new_seed(seed.wrapping_add(i.wrapping_mul(0x9E37_79B9_7F4A_7C15)));
                    match f.pick_cube_uniform(&mut self.cache, &mut rng) {
                        None => {
                            if !t.is_false() {
                                ctx.fail("pick-none-for-sat", "pick_cube_uniform returned None for a satisfiable function");
                                break;
                            }
                        }
                        Some(cube) => {
                            if t.is_false() || !cube_tt(self.n, &cube).implies(&t) {
                                ctx.fail("uniform-non-model", &format!("{}: pick_cube_uniform returned {} which is not an implicant", t.hex(), cube_str(&cube)));
                                break;
                            }
                        }
                    }
                }
                ctx.add("uniform-samples", reps);
                "ok".into()
            }
            _ => "bad-op".into(),
        }
    }
}

/// one protocol for the three kinds: a `kind` line selects the scenario
struct Multi {
    cur: usize,
    sc: [Box<dyn Scenario>; 3],
}

impl Scenario for Multi {
    fn reset(&mut self) {
        for s in self.sc.iter_mut() {
            s.reset();
        }
        self.cur = 0;
    }
    fn step(&mut self, line: &str, ctx: &mut Ctx) -> String {
        let w = words(line);
        if w[0] == "kind" {
            let k = match w.get(1).copied() {
                Some("bdd") => 0,
                Some("bcdd") => 1,
                Some("zbdd") => 2,
                _ => return "bad-op".into(),
            };
            if w.len() != 2 {
                return "bad-op".into();
            }
            for s in self.sc.iter_mut() {
                s.reset();
            }
            self.cur = k;
            return "ok".into();
        }
        self.sc[self.cur].step(line, ctx)
    }
}

// ------------------------------------------------------------------------------------------------
// generator

fn perms(n: u32) -> Vec<Vec<u32>> {
    fn go(cur: &mut Vec<u32>, used: &mut Vec<bool>, n: u32, out: &mut Vec<Vec<u32>>) {
        if cur.len() == n as usize {
            out.push(cur.clone());
            return;
        }
        for v in 0..n {
            if !used[v as usize] {
                used[v as usize] = true;
                cur.push(v);
                go(cur, used, n, out);
                cur.pop();
                used[v as usize] = false;
            }
        }
    }
    let mut out = Vec::new();
    go(&mut Vec::new(), &mut vec![false; n as usize], n, &mut out);
    out
}

fn ostr(o: &[u32]) -> String {
    o.iter().map(|v| v.to_string()).collect::<Vec<_>>().join(" ")
}

/// random numbers for `pickseq`: small denominators (so that `a/b = t_count/(t_count+e_count)` is hit),
/// denominators that are typical count sums, and large ones
fn fracs(rng: &mut Rng, n: u32) -> String {
    let mut v = Vec::new();
    for _ in 0..n {
        let b: u64 = match rng.below(4) {
            0 => rng.range(1, 16),
            1 => 1 << rng.range(0, n as u64 + 1),
            2 => rng.range(1, 1 << (n + 1)),
            _ => rng.range(1, 1 << 40),
        };
        // in [0,1), occasionally exactly 1 (nanorand's f64 generator can return 1.0)
        let a = if rng.chance(1, 40) { b } else { rng.below(b) };
        v.push(format!("{}/{}", a, b));
    }
    v.join(" ")
}

fn real_draws(seed: u64, n: u32) -> String {
    let mut rep = WyReplica(seed);
    (0..n).map(|_| format!("{}/{}", rep.next_f64().1, TWO64)).collect::<Vec<_>>().join(" ")
}

fn ops_for(w: &mut dyn Write, rng: &mut Rng, name: &str, n: u32, seqs: u32, reals: u32, uni: u64) {
    writeln!(w, "allcounts {}", name).unwrap();
    for _ in 0..seqs {
        writeln!(w, "pickseq {} {}", name, fracs(rng, n)).unwrap();
    }
    for i in 0..reals {
        let seed = rng.next();
        if i % 2 == 1 {
            // the count cache was last used for another number of variables
            writeln!(w, "stalecache {} {}", name, n + 1 + rng.below(12) as u32).unwrap();
        }
        writeln!(w, "pickreal {} {} {}", name, seed, real_draws(seed, n)).unwrap();
    }
    if uni > 0 {
        writeln!(w, "pickuni {} {} {}", name, rng.next() >> 1, uni).unwrap();
    }
}

fn random_tt(rng: &mut Rng, n: u32) -> String {
    let len = 1usize << n;
    let mut bits = vec![false; len];
    match rng.below(5) {
        // dense / sparse / balanced
        0 => bits.iter_mut().for_each(|b| *b = rng.chance(1, 2)),
        1 => bits.iter_mut().for_each(|b| *b = rng.chance(1, 8)),
        2 => bits.iter_mut().for_each(|b| *b = rng.chance(7, 8)),
        // a disjunction of a few cubes (many don't cares and forced branches)
        3 => {
            for _ in 0..rng.range(1, 4) {
                let care = rng.below(len as u64) as usize;
                let val = rng.below(len as u64) as usize & care;
                for a in 0..len {
                    if a & care == val {
                        bits[a] = true;
                    }
                }
            }
        }
        // the complement of a cube (a complemented root edge in a BCDD)
        _ => {
            let care = rng.below(len as u64) as usize | 1;
            let val = rng.below(len as u64) as usize & care;
            for a in 0..len {
                bits[a] = a & care != val;
            }
        }
    }
    let mut s = String::new();
    for d in (0..len.div_ceil(4)).rev() {
        let mut x = 0u32;
        for i in 0..4 {
            if d * 4 + i < len && bits[d * 4 + i] {
                x |= 1 << i;
            }
        }
        s.push(std::char::from_digit(x, 16).unwrap());
    }
    s
}

fn generate(cfg: &GenCfg, rng: &mut Rng, w: &mut dyn Write) {
    let scale = cfg.scale.max(1);
    let kinds = ["bdd", "bcdd", "zbdd"];
    // all 256 functions of 3 variables under all 6 orders
    for k in kinds {
        for o in perms(3) {
            writeln!(w, "case all3-{}-{}", k, ostr(&o).replace(' ', "")).unwrap();
            writeln!(w, "kind {}", k).unwrap();
            writeln!(w, "mgr 3 {}", ostr(&o)).unwrap();
            for t in 0..256u32 {
                writeln!(w, "tt f{} {:02x}", t, t).unwrap();
                let uni = if cfg.thorough { 64 } else if t % 8 == 0 { 32 } else { 0 };
                ops_for(w, rng, &format!("f{}", t), 3, if cfg.thorough { 4 } else { 2 }, if cfg.thorough { 3 } else { 1 }, uni);
            }
        }
    }
    // small edge cases: 0, 1 and 2 variables
    for k in kinds {
        writeln!(w, "case tiny-{}", k).unwrap();
        writeln!(w, "kind {}", k).unwrap();
        for (n, o) in [(0u32, vec![]), (1, vec![0]), (2, vec![0, 1]), (2, vec![1, 0])] {
            writeln!(w, "mgr {} {}", n, ostr(&o)).unwrap();
            for t in 0..(1u32 << (1 << n)) {
                writeln!(w, "tt g{} {:x}", t, t).unwrap();
                ops_for(w, rng, &format!("g{}", t), n, 2, 2, 16);
            }
        }
    }
    // random functions of 4..8 variables under random orders
    let per_n = if cfg.thorough { 60 * scale } else { 12 * scale };
    for k in kinds {
        for n in 4..=8u32 {
            for c in 0..per_n.div_ceil(6) {
                let mut o: Vec<u32> = (0..n).collect();
                rng.shuffle(&mut o);
                writeln!(w, "case rnd-{}-{}-{}", k, n, c).unwrap();
                writeln!(w, "kind {}", k).unwrap();
                writeln!(w, "mgr {} {}", n, ostr(&o)).unwrap();
                for i in 0..6 {
                    writeln!(w, "tt r{} {}", i, random_tt(rng, n)).unwrap();
                    ops_for(w, rng, &format!("r{}", i), n, 3, 3, if cfg.thorough { 64 } else { 16 });
                }
            }
        }
    }
    // malformed lines
    writeln!(w, "case malformed").unwrap();
    writeln!(w, "kind bdd").unwrap();
    writeln!(w, "mgr 2 0 1").unwrap();
    writeln!(w, "tt f 6").unwrap();
    for l in ["kind tdd", "mgr 2 0 0", "mgr 2 0", "allcounts nosuch", "pickseq f 1/2 x", "pickseq nosuch 1/2", "pickreal f x", "pickuni nosuch 1 1", "frobnicate"] {
        writeln!(w, "{}", l).unwrap();
    }
}

fn make(_f: &BTreeMap<String, String>) -> Box<dyn Scenario> {
    Box::new(Multi { cur: 0, sc: [Box::new(Uni::<KBdd>::new()), Box::new(Uni::<KBcdd>::new()), Box::new(Uni::<KZbdd>::new())] })
}

fn main() {
    harness_main(generate, make)
}
