//! C14 / C15, predicted out-of-memory thresholds of a DDDMP import (stream `c14-import-threshold`,
//! model protocol `c14imp`).
//!
//! Scripted diagrams are built in a large source manager and written by the REAL exporter
//! (`ExportSettings::export`, ASCII; binary mode is requested too and, for the simple BDD whose two
//! terminals rule it out, must come back as the same ASCII node section). The generator embeds the
//! bytes (hex) and, for the model, the structure of the node section in the operation line. Every
//! scenario is replayed for every capacity `c` of the importing manager: `0 ..= nodes + 1` for a
//! fresh manager, `P ..= P + nodes + 1` for a manager pre-populated with `P` nodes (handles,
//! shared sub-diagrams of the file, garbage). The capped manager is
//! `oxidd::bdd::new_manager(c, cache, 1)`: its effective capacity is exactly `c` node slots (one
//! worker, split depth 0, background collector off below 100 slots; see `c14_threshold.rs`).
//!
//! Output of an `import` line: `need=<k> free=<j> thr=<oom|ok> ` followed by `OOM` or the canonical
//! trees of the imported roots and `+d`, the slots taken. The Lean driver computes `k` with the
//! capacity-free importer model (`C14I.neededImport`), `thr` by the closed form of
//! `C14I.import_oom_iff_needed_total`, and the outcome with `ImportCap.importCapped`. Here `k` is
//! what a 4096-slot reference manager in the same state gained by the same import.
//! (`need=?` while the two managers are out of step: after a failure until the next `gc`.)
//!
//! `--kind bcdd` (stream `c14-import-threshold-bcdd`, protocol `c14impc`): the same scenarios on BCDD
//! managers; the file under test is the BINARY file of the real exporter (`hex=`), imported with
//! `BCDDFunction::not_edge_owned` as complement callback; its structure for the model is read from
//! the ASCII export of the same roots (`hexa=`; the exporter numbers deterministically). The trees
//! are printed with `~` for a complement tag. No hand-extended files for this kind.
//!
//! Oracles independent of the model:
//! * `import-panic`: no panic; `import-error-kind`: the only error is OutOfMemory;
//! * `threshold-needed`: failure iff `free < need` (reference manager as yardstick);
//! * `spurious-oom`: after a failure the store is exactly full;
//! * `after-oom-audit`, `after-oom-corrupted-handle`: structural audit clean, every handle keeps
//!   its tree;
//! * `post-gc-count`: after every `gc` both managers hold equally many nodes (a reference leaked
//!   or dropped twice on the failure path shows here);
//! * `import-wrong-function`: every imported root has the truth table of the exported function
//!   (computed in the source manager by the generator), also on the retry after `drop`s + `gc`;
//! * `capacity-dependent-result`, `delta`: tree and slot count equal the reference's;
//! * `threshold-monotone`: per scenario, once a capacity succeeds every larger one does.
use oxidd::bcdd::BCDDFunction;
use oxidd::bdd::BDDFunction;
use oxidd::util::AllocResult;
use oxidd::{BooleanFunction, Function, Manager, ManagerRef};
use oxidd_dump::dddmp::{self, DumpHeader, ExportSettings};
use oxv::bf::Kind;
use oxv::kinds::{KBcdd, KBdd};
use oxv::*;
use std::collections::BTreeMap;
use std::io::Write;
use std::panic::{catch_unwind, AssertUnwindSafe};

/// what this stream needs beyond `oxv::bf::Kind`: the real exporter and the real importer with the
/// complement callback the kind's front end passes (`|_, e| Ok(e)` for the simple BDD whose files
/// have no negative id, `not_edge_owned` — a tag flip — for the BCDD)
trait IK: Kind {
    fn export(mref: &<Self::F as Function>::ManagerRef, roots: &[Self::F], ascii: bool) -> (Vec<u8>, std::io::Result<()>);
    fn import(mref: &<Self::F as Function>::ManagerRef, file: &[u8]) -> std::io::Result<Vec<Self::F>>;
}
macro_rules! ik {
    ($K:ty, $F:ty, $compl:expr) => {
        impl IK for $K {
            fn export(mref: &<$F as Function>::ManagerRef, roots: &[$F], ascii: bool) -> (Vec<u8>, std::io::Result<()>) {
                let mut out = Vec::new();
                let r = mref.with_manager_shared(|manager| {
                    let s = ExportSettings::default();
                    let s = if ascii { s.ascii() } else { s.binary() };
                    s.export(&mut out, manager, roots.iter())
                });
                (out, r)
            }
            fn import(mref: &<$F as Function>::ManagerRef, file: &[u8]) -> std::io::Result<Vec<$F>> {
                let mut rd: &[u8] = file;
                let header = DumpHeader::load(&mut rd)?;
                let support: Vec<u32> = header.support_var_order().to_vec();
                mref.with_manager_shared(|manager| dddmp::import::<$F>(&mut rd, &header, manager, support.iter().copied(), $compl))
            }
        }
    };
}
ik!(KBdd, BDDFunction, |_, e| Ok(e));
ik!(KBcdd, BCDDFunction, BCDDFunction::not_edge_owned);

struct Mgr<K: IK> {
    mref: <K::F as Function>::ManagerRef,
    nvars: u32,
    h: BTreeMap<String, K::F>,
}

enum Imp<F> {
    Ok(Vec<F>),
    Oom,
    Other(String),
    Panic,
}

impl<K: IK> Mgr<K> {
    fn new(cap: usize, vars: u32) -> Mgr<K> {
        let mref = K::new_manager(cap, 1024, 1);
        mref.with_manager_exclusive(|m| {
            m.add_vars(vars);
        });
        K::set_split_depth(&mref, Some(0));
        Mgr { mref, nvars: vars, h: BTreeMap::new() }
    }
    fn count(&self) -> usize {
        self.mref.with_manager_shared(|m| m.num_inner_nodes())
    }
    fn tree_of(&self, f: &K::F) -> String {
        f.with_manager_shared(|m, e| K::tree(m, e))
    }
    fn put(&mut self, name: &str, r: AllocResult<K::F>) -> String {
        match r {
            Ok(f) => {
                let t = self.tree_of(&f);
                self.h.insert(name.to_string(), f);
                t
            }
            Err(_) => "OOM".into(),
        }
    }
    fn gc(&self) -> usize {
        self.mref.with_manager_shared(|m| {
            m.gc();
        });
        self.count()
    }
    /// the operation lines of the `bdd-rc` protocol that this stream uses
    fn run(&mut self, w: &[&str]) -> String {
        match w[0] {
            "var" | "notvar" if w.len() == 3 => {
                let Ok(v) = w[2].parse::<u32>() else { return "bad-op".into() };
                if v >= self.nvars {
                    return "bad-op".into();
                }
                let r = self.mref.with_manager_shared(|m| if w[0] == "var" { K::F::var(m, v) } else { K::F::not_var(m, v) });
                self.put(w[1], r)
            }
            "op" if w.len() >= 4 => {
                let Some(a) = self.h.get(w[3]).cloned() else { return "bad-op".into() };
                if w[2] == "not" {
                    return self.put(w[1], a.not());
                }
                let Some(b) = w.get(4).and_then(|x| self.h.get(*x)).cloned() else { return "bad-op".into() };
                if w[2] == "ite" {
                    let Some(c) = w.get(5).and_then(|x| self.h.get(*x)).cloned() else { return "bad-op".into() };
                    return self.put(w[1], a.ite(&b, &c));
                }
                let r = match w[2] {
                    "and" => a.and(&b),
                    "or" => a.or(&b),
                    "nand" => a.nand(&b),
                    "nor" => a.nor(&b),
                    "xor" => a.xor(&b),
                    "equiv" => a.equiv(&b),
                    "imp" => a.imp(&b),
                    "imp_strict" => a.imp_strict(&b),
                    _ => return "bad-op".into(),
                };
                self.put(w[1], r)
            }
            "drop" if w.len() == 2 => {
                if self.h.remove(w[1]).is_some() { "ok".into() } else { "bad-op".into() }
            }
            "gc" if w.len() == 1 => self.gc().to_string(),
            "ninner" if w.len() == 1 => self.count().to_string(),
            _ => "bad-op".into(),
        }
    }
    fn import(&self, file: &[u8]) -> Imp<K::F> {
        let r = catch_unwind(AssertUnwindSafe(|| K::import(&self.mref, file)));
        match r {
            Err(_) => Imp::Panic,
            Ok(Ok(v)) => Imp::Ok(v),
            Ok(Err(e)) if e.kind() == std::io::ErrorKind::OutOfMemory => Imp::Oom,
            Ok(Err(e)) => Imp::Other(e.to_string()),
        }
    }
    fn truth_table(&self, f: &K::F) -> String {
        let n = self.nvars;
        (0..(1u32 << n)).map(|a| if f.eval((0..n).map(|v| (v, (a >> v) & 1 == 1))) { '1' } else { '0' }).collect()
    }
}

fn hex(b: &[u8]) -> String {
    b.iter().map(|x| format!("{:02x}", x)).collect()
}
fn unhex(s: &str) -> Option<Vec<u8>> {
    if s.len() % 2 != 0 {
        return None;
    }
    (0..s.len() / 2).map(|i| u8::from_str_radix(&s[2 * i..2 * i + 2], 16).ok()).collect()
}

/// structure of an ASCII DDDMP file for the model: `<ids>;<terminal descriptors>;<inner>;<roots>`
/// with ids `,`-separated support variable numbers, descriptors as `.`-separated byte values, inner
/// records `suppidx:t:e`
fn structure(file: &[u8]) -> Option<String> {
    let mut rd: &[u8] = file;
    let header = DumpHeader::load(&mut rd).ok()?;
    let text = std::str::from_utf8(rd).ok()?;
    let mut terms: Vec<String> = Vec::new();
    let mut inner: Vec<String> = Vec::new();
    let mut roots: Vec<String> = Vec::new();
    let mut n = 0usize;
    for l in text.lines() {
        if l.trim() == ".end" {
            break;
        }
        let t: Vec<&str> = l.split_whitespace().collect();
        if t.len() < 4 {
            return None;
        }
        n += 1;
        let (var, a, b) = (t[t.len() - 3], t[t.len() - 2], t[t.len() - 1]);
        if a == "0" || b == "0" {
            if !inner.is_empty() {
                return None;
            }
            terms.push(var.bytes().map(|x| x.to_string()).collect::<Vec<_>>().join("."));
        } else {
            inner.push(format!("{}:{}:{}", var, a, b));
        }
    }
    if n != header.num_nodes() {
        return None;
    }
    // the root ids are not exposed by `DumpHeader`: read the `.rootids` line
    let head = std::str::from_utf8(&file[..file.len() - rd.len()]).ok()?;
    for l in head.lines() {
        if let Some(r) = l.strip_prefix(".rootids") {
            roots = r.split_whitespace().map(|x| x.to_string()).collect();
        }
    }
    let ids: Vec<String> = header.support_vars().iter().map(|v| v.to_string()).collect();
    Some(format!("{};{};{};{}", ids.join(","), terms.join(","), inner.join(","), roots.join(",")))
}

struct Sc<K: IK> {
    cap: usize,
    capped: Option<Mgr<K>>,
    reference: Option<Mgr<K>>,
    /// the two managers are out of step (a failed import left garbage in the capped one only)
    dirty: bool,
    /// an operation other than an import failed in the capped manager: the reference manager holds
    /// handles the capped one does not have, for the rest of the case
    lost: bool,
    /// scenario key -> smallest capacity whose first import succeeded
    min_ok: BTreeMap<String, usize>,
    first_import_done: bool,
}

impl<K: IK> Scenario for Sc<K> {
    fn reset(&mut self) {
        self.capped = None;
        self.reference = None;
        self.dirty = false;
        self.lost = false;
        self.first_import_done = false;
    }
    fn step(&mut self, line: &str, ctx: &mut Ctx) -> String {
        let w = words(line);
        if w.is_empty() {
            return "bad-op".into();
        }
        if w[0] == "mgr" {
            let kv = |k: &str| w.iter().find_map(|x| x.strip_prefix(k)).and_then(|x| x.parse::<usize>().ok());
            let (Some(cap), Some(vars)) = (kv("nodes="), kv("vars=")) else { return "bad-op".into() };
            self.cap = cap;
            self.capped = Some(Mgr::new(cap, vars as u32));
            self.reference = Some(Mgr::new(4096, vars as u32));
            self.dirty = false;
            self.lost = false;
            return "ok".into();
        }
        let (Some(capped), Some(reference)) = (self.capped.as_mut(), self.reference.as_mut()) else { return "bad-op".into() };
        if w[0] != "import" {
            let out = capped.run(&w);
            let out_ref = reference.run(&w);
            if out == "OOM" {
                // (the generator keeps the pre-population within the capacity; counted if it happens)
                ctx.count("prepop_oom");
                self.lost = true;
            }
            if w[0] == "gc" {
                if !self.lost && out != out_ref {
                    ctx.fail("post-gc-count", &format!("after `gc` the capped manager (capacity {}) holds {} nodes, the reference manager {}", self.cap, out, out_ref));
                }
                self.dirty = false;
            }
            return out;
        }
        // import <names> hex=<bytes> tt=<tables> sf=<structure>
        if w.len() < 3 {
            return "bad-op".into();
        }
        let names: Vec<&str> = w[1].split(',').collect();
        let kvs = |k: &str| w.iter().find_map(|x| x.strip_prefix(k));
        let Some(file) = kvs("hex=").and_then(unhex) else { return "bad-op".into() };
        let tts: Vec<&str> = kvs("tt=").map(|t| t.split(',').collect()).unwrap_or_default();
        if let Some(sf) = kvs("sf=") {
            // (a binary file comes with the ASCII export of the same roots — same numbering, the
            // exporter's hash maps are deterministic — from which the structure is read)
            let ascii = kvs("hexa=").and_then(unhex).unwrap_or_else(|| file.clone());
            if structure(&ascii).as_deref() != Some(sf) {
                ctx.fail("file-structure", "the structure field of the line is not the structure of the bytes");
            }
        }
        let snap: Vec<(String, String)> = capped.h.iter().map(|(k, f)| (k.clone(), capped.tree_of(f))).collect();
        let before = capped.count();
        let before_ref = reference.count();
        let free = self.cap.saturating_sub(before);
        let res = capped.import(&file);
        let res_ref = reference.import(&file);
        let need = match &res_ref {
            Imp::Ok(_) => Some(reference.count() - before_ref),
            _ => None,
        };
        let was_dirty = self.dirty || self.lost;
        let head = match (need, was_dirty) {
            (Some(k), false) => format!("need={} free={} thr={}", k, free, if free < k { "oom" } else { "ok" }),
            _ => format!("need=? free={}", free),
        };
        // monotonicity is a statement about ONE state under two capacities: the script before the
        // import may itself have failed under the smaller capacity (then fewer nodes are alive and
        // the import fits although it does not under the larger one), so the scenario key carries
        // the state the import starts from (slots in use, handles and their diagrams)
        let key = format!("{}|{}|{:?}", ctx.case.rsplit_once("-c").map(|x| x.0.to_string()).unwrap_or_default(), before, snap);
        let first = !self.first_import_done;
        self.first_import_done = true;
        match res {
            Imp::Panic => {
                ctx.fail("import-panic", &format!("`import` panics under capacity {}", self.cap));
                format!("{} PANIC", head)
            }
            Imp::Other(e) => {
                ctx.fail("import-error-kind", &format!("`import` under capacity {} fails with `{}`", self.cap, e));
                format!("{} ERR", head)
            }
            Imp::Oom => {
                ctx.count("import_oom");
                let inner = capped.count();
                if inner != self.cap {
                    ctx.fail("spurious-oom", &format!("import reported out of memory although {} of {} node slots are in use", inner, self.cap));
                }
                if let (Some(k), false) = (need, was_dirty) {
                    if free >= k {
                        ctx.fail("threshold-needed", &format!("import fails with {} free slots although the reference manager needs only {} nodes for it", free, k));
                    }
                    ctx.count(&format!("oom_need_{}", k));
                }
                let audit = capped.mref.with_manager_shared(|m| K::audit(m).map(|_| ()));
                if let Err(e) = audit {
                    ctx.fail("after-oom-audit", &format!("after the failed import: {}", e));
                }
                for (k, t) in &snap {
                    if capped.h.get(k).map(|f| capped.tree_of(f)).as_ref() != Some(t) {
                        ctx.fail("after-oom-corrupted-handle", &format!("handle {} changed by the failed import", k));
                        break;
                    }
                }
                if first {
                    if let Some(&c) = self.min_ok.get(&key) {
                        if c < self.cap {
                            ctx.fail("threshold-monotone", &format!("scenario {}: from the same state the import succeeds under capacity {} but fails under {}", key.split('|').next().unwrap_or(""), c, self.cap));
                        }
                    }
                }
                // the reference manager gives its roots back: both sides hold the same handles
                drop(res_ref);
                self.dirty = true;
                format!("{} OOM", head)
            }
            Imp::Ok(roots) => {
                ctx.count("import_ok");
                let d = capped.count() - before;
                let trees: Vec<String> = roots.iter().map(|f| capped.tree_of(f)).collect();
                if let (Some(k), false) = (need, was_dirty) {
                    if free < k {
                        ctx.fail("threshold-needed", &format!("import succeeds with {} free slots although the reference manager needs {} nodes for it", free, k));
                    }
                    if d != k {
                        ctx.fail("delta", &format!("import takes {} slots under capacity {} but {} in the reference manager", d, self.cap, k));
                    }
                    ctx.count(&format!("ok_need_{}", k));
                    if d == 0 && free == 0 {
                        ctx.count("ok_on_full_store");
                    }
                }
                if was_dirty {
                    ctx.count("retry_ok");
                }
                for (i, f) in roots.iter().enumerate() {
                    if let Some(t) = tts.get(i) {
                        if capped.truth_table(f) != *t {
                            ctx.fail("import-wrong-function", &format!("root {} imported under capacity {} has table {} instead of {}", i, self.cap, capped.truth_table(f), t));
                        }
                    }
                }
                match &res_ref {
                    Imp::Ok(rr) => {
                        let tr: Vec<String> = rr.iter().map(|f| reference.tree_of(f)).collect();
                        if tr != trees {
                            ctx.fail("capacity-dependent-result", &format!("import gives {:?} under capacity {} but {:?} without limit", trees, self.cap, tr));
                        }
                    }
                    _ => ctx.fail("capacity-dependent-result", "import succeeds under a capacity but not without limit"),
                }
                if roots.len() != names.len() {
                    ctx.fail("import-root-count", &format!("{} roots for {} names", roots.len(), names.len()));
                }
                if first {
                    let e = self.min_ok.entry(key).or_insert(self.cap);
                    *e = (*e).min(self.cap);
                }
                if let Imp::Ok(rr) = res_ref {
                    for (n, f) in names.iter().zip(rr) {
                        reference.h.insert(n.to_string(), f);
                    }
                }
                for (n, f) in names.iter().zip(roots) {
                    capped.h.insert(n.to_string(), f);
                }
                format!("{} {} +{}", head, trees.join(" | "), d)
            }
        }
    }
}

// ------------------------------------------------------------------------------------------------
// generator

const BIN_OPS: [&str; 8] = ["and", "or", "nand", "nor", "xor", "equiv", "imp", "imp_strict"];

/// a random script of `k` operations over `nv` variables; returns the lines and the handle names
fn script(rng: &mut Rng, nv: u32, k: usize, prefix: &str) -> (Vec<String>, Vec<String>) {
    let mut lines = Vec::new();
    let mut hs: Vec<String> = Vec::new();
    for v in 0..nv {
        if rng.chance(3, 4) || hs.is_empty() {
            let h = format!("{}x{}", prefix, v);
            lines.push(format!("{} {} {}", if rng.chance(1, 5) { "notvar" } else { "var" }, h, v));
            hs.push(h);
        }
    }
    for i in 0..k {
        let h = format!("{}f{}", prefix, i);
        let a = rng.pick(&hs).clone();
        let b = rng.pick(&hs).clone();
        match rng.below(8) {
            0 => lines.push(format!("op {} not {}", h, a)),
            1 => {
                let c = rng.pick(&hs).clone();
                lines.push(format!("op {} ite {} {} {}", h, a, b, c));
            }
            _ => lines.push(format!("op {} {} {} {}", h, rng.pick(&BIN_OPS), a, b)),
        }
        hs.push(h);
    }
    (lines, hs)
}

fn export<K: IK>(m: &Mgr<K>, roots: &[K::F], ascii: bool) -> (Vec<u8>, std::io::Result<()>) {
    K::export(&m.mref, roots, ascii)
}

/// a hand-written ASCII file: the exported header with the node section replaced. `extra` are
/// additional inner records `(suppidx, t, e)` appended after the exported ones (entries that no
/// root reaches, entries that `reduce` eliminates).
fn with_extra_entries(file: &[u8], extra: &[(usize, usize, usize)]) -> Option<Vec<u8>> {
    let text = std::str::from_utf8(file).ok()?;
    let mut out = String::new();
    let mut n = 0usize;
    for l in text.lines() {
        if let Some(r) = l.strip_prefix(".nnodes") {
            n = r.trim().parse().ok()?;
            out.push_str(&format!(".nnodes {}\n", n + extra.len()));
        } else if l.trim() == ".end" {
            for (i, (v, t, e)) in extra.iter().enumerate() {
                out.push_str(&format!("{} {} {} {}\n", n + i + 1, v, t, e));
            }
            out.push_str(".end\n");
        } else {
            out.push_str(l);
            out.push('\n');
        }
    }
    Some(out.into_bytes())
}

fn generate_kind<K: IK>(cfg: &GenCfg, rng: &mut Rng, w: &mut dyn Write) {
    let bcdd = K::NAME == "bcdd";
    let scenarios = (if cfg.thorough { 400 } else { 40 }) * cfg.scale.max(1);
    let mut done = 0u64;
    let mut attempt = 0u64;
    while done < scenarios && attempt < 50 * scenarios {
        attempt += 1;
        let nv = rng.range(2, 5) as u32;
        // the source: a script in a large manager, 1..3 roots
        let mut src = Mgr::<K>::new(4096, nv);
        let sk = rng.range(2, 8) as usize;
        let (slines, shs) = script(rng, nv, sk, "s");
        for l in &slines {
            src.run(&words(l));
        }
        let nroots = rng.range(1, 3) as usize;
        let rnames: Vec<String> = (0..nroots).map(|_| rng.pick(&shs).clone()).collect();
        let roots: Vec<K::F> = rnames.iter().map(|n| src.h[n].clone()).collect();
        let (file_a, ra) = export(&src, &roots, true);
        if ra.is_err() {
            continue;
        }
        let mut file = file_a.clone();
        let mut kind = "a";
        let mut hexa = String::new();
        // BCDD: the binary file only (`import_bin` is what the model mirrors)
        match if bcdd { 0 } else { rng.below(4) } {
            // binary mode requested
            0 => {
                let (file_b, rb) = export(&src, &roots, false);
                if rb.is_ok() {
                    file = file_b;
                    kind = "b";
                    if bcdd {
                        hexa = format!(" hexa={}", hex(&file_a));
                    }
                } else if bcdd {
                    continue;
                }
            }
            // entries no root reaches / entries `reduce` eliminates, appended by hand
            1 => {
                let Some(sf) = structure(&file_a) else { continue };
                let parts: Vec<&str> = sf.split(';').collect();
                let nsupp = parts[0].split(',').filter(|x| !x.is_empty()).count();
                let nterms = parts[1].split(',').filter(|x| !x.is_empty()).count();
                let ninner = parts[2].split(',').filter(|x| !x.is_empty()).count();
                if nsupp == 0 || ninner == 0 {
                    continue;
                }
                // children: terminals or nodes on deeper support variables than the new entry
                let lv: Vec<usize> = parts[2].split(',').map(|r| r.split(':').next().unwrap().parse().unwrap()).collect();
                let mut extra = Vec::new();
                for _ in 0..rng.range(1, 3) {
                    let v = rng.below(nsupp as u64) as usize;
                    let cands: Vec<usize> = (1..=nterms).chain((0..ninner).filter(|&i| lv[i] > v).map(|i| nterms + i + 1)).collect();
                    let t = *rng.pick(&cands);
                    let e = if rng.chance(1, 3) { t } else { *rng.pick(&cands) };
                    extra.push((v, t, e));
                }
                let Some(f2) = with_extra_entries(&file_a, &extra) else { continue };
                file = f2;
                kind = "x";
            }
            _ => {}
        }
        let Some(sf) = structure(if bcdd { &file_a } else { &file }) else { continue };
        let nnodes = sf.split(';').nth(2).map(|p| p.split(',').filter(|x| !x.is_empty()).count()).unwrap_or(0);
        let tts: Vec<String> = roots.iter().map(|f| src.truth_table(f)).collect();
        // the target: fresh, or pre-populated (sub-functions of the source script and/or an
        // independent script; some handles dropped: garbage, with or without a collection)
        let mut pre: Vec<String> = Vec::new();
        let mut pre_handles: Vec<String> = Vec::new();
        let variant = rng.below(4);
        if variant >= 1 {
            if rng.chance(2, 3) {
                // a prefix of the source script: shared sub-diagrams
                let k = rng.range(1, slines.len() as u64) as usize;
                for l in &slines[..k] {
                    pre.push(l.clone());
                    pre_handles.push(words(l)[1].to_string());
                }
            }
            if rng.chance(1, 2) || pre.is_empty() {
                let tk = rng.range(1, 3) as usize;
                let (tl, th) = script(rng, nv, tk, "t");
                pre.extend(tl);
                pre_handles.extend(th);
            }
            if variant >= 2 {
                // garbage
                let mut hs = pre_handles.clone();
                rng.shuffle(&mut hs);
                let k = rng.range(1, hs.len() as u64) as usize;
                for h in &hs[..k] {
                    pre.push(format!("drop {}", h));
                    pre_handles.retain(|x| x != h);
                }
                if variant == 3 {
                    pre.push("gc".into());
                }
            }
        }
        // P: nodes in the store after the pre-population (garbage included)
        let mut sim = Mgr::<K>::new(4096, nv);
        let mut p = 0usize;
        for l in &pre {
            sim.run(&words(l));
            p = p.max(sim.count());
        }
        // (one scenario in eight starts below the peak: the pre-population itself runs out of memory)
        if variant == 3 && rng.chance(1, 8) {
            p = sim.count();
        }
        if p + nnodes + 1 >= 100 {
            continue;
        }
        let names: Vec<String> = (0..nroots).map(|i| format!("r{}", i)).collect();
        let import = format!("import {} hex={}{} tt={} sf={}", names.join(","), hex(&file), hexa, tts.join(","), sf);
        for c in p..=p + nnodes + 1 {
            writeln!(w, "case imp{}{}-{}-c{}", kind, variant, done, c).unwrap();
            writeln!(w, "mgr vars={} nodes={}", nv, c).unwrap();
            for l in &pre {
                writeln!(w, "{}", l).unwrap();
            }
            writeln!(w, "ninner").unwrap();
            writeln!(w, "{}", import).unwrap();
            writeln!(w, "gc").unwrap();
            // retry: the same import after the collection (fails again unless garbage made room) …
            writeln!(w, "{}", import).unwrap();
            writeln!(w, "gc").unwrap();
            // … and after all other handles are gone: enough room iff the capacity holds the file
            for h in &pre_handles {
                writeln!(w, "drop {}", h).unwrap();
            }
            writeln!(w, "gc").unwrap();
            writeln!(w, "{}", import).unwrap();
            writeln!(w, "gc").unwrap();
        }
        done += 1;
    }
}

fn generate(cfg: &GenCfg, rng: &mut Rng, w: &mut dyn Write) {
    match cfg.extra.get("kind").map(|s| s.as_str()) {
        Some("bcdd") => generate_kind::<KBcdd>(cfg, rng, w),
        _ => generate_kind::<KBdd>(cfg, rng, w),
    }
}

fn make(f: &BTreeMap<String, String>) -> Box<dyn Scenario> {
    match f.get("kind").map(|s| s.as_str()) {
        Some("bcdd") => Box::new(Sc::<KBcdd> { cap: 0, capped: None, reference: None, dirty: false, lost: false, min_ok: BTreeMap::new(), first_import_done: false }),
        _ => Box::new(Sc::<KBdd> { cap: 0, capped: None, reference: None, dirty: false, lost: false, min_ok: BTreeMap::new(), first_import_done: false }),
    }
}

fn main() {
    harness_main(generate, make)
}
