//! C14, out-of-memory inside the PARALLEL apply recursor (stream `c14-paroom`, oracle-only).
//!
//! Every case creates an index-based BDD manager with a small node capacity (< 100, so that the
//! background collector is off: `gc_lwm = gc_hwm = 0`), `workers` rayon threads and an explicit
//! split depth, and a large single-threaded reference manager. Operand functions are built node by
//! node from truth tables (`reduce` + `get_or_insert`, no apply algorithm involved) and are shaped
//! `x0 ? A : B` with cofactors of very different sizes, so that the two branches of the top-level
//! `ParallelRecursor::{unary,binary,ternary}` join need different numbers of fresh nodes: under a
//! tight store one branch fails while the other one has produced (and owns) a result edge.
//!
//! A `probe` line fills the capped store with ballast nodes (three extra variables at the bottom of
//! the order, one handle per node) until exactly `j` slots are free, runs the operation through the
//! public `BooleanFunction` API and audits. The generator emits every `j` in `0 ..= needed + 1`,
//! where `needed` is computed from truth tables by an independent hash-consing BDD builder.
//!
//! Which branch fails first and how far the other one got depends on thread scheduling, so nothing
//! of that is printed: a probe prints `ok` (or `dead` after a panic). Oracles (all schedule-independent):
//! * `paroom-panic`: the operation never panics;
//! * `paroom-wrong-result`: a result has the reference truth table (semantics on truth tables, also
//!   checked against the reference manager: `paroom-ref-result`);
//! * `paroom-needed`: the reference manager gains exactly the `needed` nodes the generator predicted;
//! * `paroom-delta` / `paroom-success-impossible`: a success takes exactly `needed` slots (no
//!   garbage is created by the apply algorithms of the simple BDD), hence needs `j >= needed`;
//! * `paroom-spurious-oom`: after `Err(OutOfMemory)` the store is exactly full (nothing is freed
//!   before a collection, so a failed allocation implies a full store ever after);
//! * `paroom-handle`: all pre-existing handles (operands, ballast) keep their truth tables;
//! * `paroom-audit` / `paroom-rc`: structural audit; `ref_count` of every stored node (garbage
//!   included) = live handles on it + stored parent edges;
//! * `paroom-leak`: after dropping the result and the ballast and `gc()`, `num_inner_nodes()` equals
//!   the number of distinct inner nodes reachable from the remaining handles (an edge leaked on the
//!   failure path keeps its garbage alive);
//! * `paroom-retry` / `paroom-leak-retry`: the same operation then succeeds with the reference
//!   truth table, and after dropping it the store is back to the operands' nodes.
//!
//! Counters (`--stats`): per operator `oom_<op>`, `ok_<op>`, `oom_partial_<op>` (failure with j > 0,
//! i.e. after partial progress), `oom_enough_free` (failure although j >= needed: legal, would show
//! that some free slot was unreachable for the failing thread), per configuration
//! `probes_w<workers>_d<depth>` / `oom_w.._d..`, `probes_asym` (the cofactors of the result w.r.t.
//! x0 need different numbers of fresh nodes), `probes_skipped` / `retries_oom_reused_manager`
//! (reused managers only, see below).
//!
//! Two kinds of cases (`fresh=1|0` in the `mgr` line). The index manager hands out free slots in
//! whole lists: worker threads are attached to the store for ever and a worker that needs a slot
//! moves a complete free list into its thread-local state and keeps the rest. With `fresh=1` every
//! probe gets a NEW capped manager (operands rebuilt): nothing has been freed yet, all threads take
//! slots one by one from the never-used tail, so "exactly j free slots" is exact for every thread
//! and the sharp oracles apply (`paroom-spurious-oom`, success iff `j >= needed`, retry must
//! succeed after the free list has been split into one-slot lists). With `fresh=0` the case keeps
//! one manager (warm apply cache, free lists with history, slots parked in idle workers): the store
//! cannot always be filled to `j` from the main thread (`probes_skipped`) and a retry may
//! legitimately fail; result, handle, audit, reference-count and leak oracles apply unchanged.
use oxidd::bdd::{BDDFunction, BDDManagerRef};
use oxidd::util::AllocResult;
use oxidd::{BooleanFunction, Edge, Function, InnerNode, Manager, ManagerRef};
use oxidd_core::function::EdgeOfFunc;
use oxidd_core::{DiagramRules, HasLevel, LevelNo, LevelView, Node, NodeID};
use oxv::*;
use std::collections::{BTreeMap, HashMap, HashSet};
use std::io::Write;
use std::panic::{AssertUnwindSafe, catch_unwind};

const BIN_OPS: [&str; 8] = ["and", "or", "xor", "equiv", "nand", "nor", "imp", "imp_strict"];
const ALL_OPS: [&str; 10] = ["and", "or", "xor", "equiv", "nand", "nor", "imp", "imp_strict", "ite", "not"];
const BALLAST_VARS: u32 = 3;
const REF_CAP: usize = 4096;

type Mg<'id> = <BDDFunction as Function>::Manager<'id>;

// ------------------------------------------------------------------------------------------------
// truth tables: index bit v = value of variable v

type Tt = Vec<bool>;

fn tt_hex(t: &Tt) -> String {
    let mut s = String::new();
    for c in t.chunks(4) {
        let mut d = 0u32;
        for (i, b) in c.iter().enumerate() {
            if *b {
                d |= 1 << i;
            }
        }
        s.push(std::char::from_digit(d, 16).unwrap());
    }
    s
}

fn tt_parse(s: &str, k: u32) -> Option<Tt> {
    let n = 1usize << k;
    let mut t = Vec::with_capacity(n);
    for c in s.chars() {
        let d = c.to_digit(16)?;
        for i in 0..4 {
            t.push(d & (1 << i) != 0);
        }
    }
    // (k < 2: one digit carries more bits than the table has)
    if t.len() < n || (n >= 4 && t.len() != n) {
        return None;
    }
    t.truncate(n);
    Some(t)
}

fn bin_sem(op: &str, a: bool, b: bool) -> Option<bool> {
    Some(match op {
        "and" => a & b,
        "or" => a | b,
        "xor" => a ^ b,
        "equiv" => a == b,
        "nand" => !(a & b),
        "nor" => !(a | b),
        "imp" => !a | b,
        "imp_strict" => !a & b,
        _ => return None,
    })
}

/// semantics of an operation on truth tables
fn op_sem(op: &str, args: &[&Tt]) -> Option<Tt> {
    match (op, args.len()) {
        ("not", 1) => Some(args[0].iter().map(|x| !x).collect()),
        ("ite", 3) => Some((0..args[0].len()).map(|i| if args[0][i] { args[1][i] } else { args[2][i] }).collect()),
        (_, 2) => {
            bin_sem(op, false, false)?;
            Some((0..args[0].len()).map(|i| bin_sem(op, args[0][i], args[1][i]).unwrap()).collect())
        }
        _ => None,
    }
}

// ------------------------------------------------------------------------------------------------
// independent reference: hash-consed reduced ordered BDDs from truth tables (order = variable number)

#[derive(Default)]
struct RefBdd {
    table: HashMap<(usize, usize, usize), usize>,
    nodes: Vec<(usize, usize, usize)>,
}

impl RefBdd {
    /// `t` ranges over the variables `level..`, index bit 0 = variable `level`; ids 0/1 = ⊥/⊤
    fn build(&mut self, t: &[bool], level: usize) -> usize {
        if t.len() == 1 {
            return t[0] as usize;
        }
        let hi: Vec<bool> = t.iter().skip(1).step_by(2).cloned().collect();
        let lo: Vec<bool> = t.iter().step_by(2).cloned().collect();
        let h = self.build(&hi, level + 1);
        let l = self.build(&lo, level + 1);
        if h == l {
            return h;
        }
        if let Some(id) = self.table.get(&(level, h, l)) {
            return *id;
        }
        let id = self.nodes.len() + 2;
        self.nodes.push((level, h, l));
        self.table.insert((level, h, l), id);
        id
    }
    fn reach(&self, root: usize, seen: &mut HashSet<usize>) {
        if root < 2 || !seen.insert(root) {
            return;
        }
        let (_, h, l) = self.nodes[root - 2];
        self.reach(h, seen);
        self.reach(l, seen);
    }
}

// ------------------------------------------------------------------------------------------------
// the real code

/// `reduce` + `get_or_insert`: the primitive node constructor (no apply cache, no recursor)
fn mk_edge<M: Manager>(m: &M, level: LevelNo, t: &M::Edge, e: &M::Edge) -> AllocResult<M::Edge>
where
    M::InnerNode: HasLevel,
{
    let c = [m.clone_edge(t), m.clone_edge(e)];
    <M::Rules as DiagramRules<_, _, _>>::reduce(m, level, c).then_insert(m, level)
}

/// the function with table `t` over the variables `level..` (index bit 0 = variable `level`)
fn build_tt<'id>(m: &Mg<'id>, t: &[bool], level: u32) -> AllocResult<BDDFunction> {
    if t.len() == 1 {
        return Ok(if t[0] { BDDFunction::t(m) } else { BDDFunction::f(m) });
    }
    let hi: Vec<bool> = t.iter().skip(1).step_by(2).cloned().collect();
    let lo: Vec<bool> = t.iter().step_by(2).cloned().collect();
    let h = build_tt(m, &hi, level + 1)?;
    let l = build_tt(m, &lo, level + 1)?;
    let e = mk_edge(m, level, h.as_edge(m), l.as_edge(m))?;
    Ok(BDDFunction::from_edge(m, e))
}

/// truth table of `f` over the variables `lo .. lo + n` (all others false), by `eval`
fn tt_of<'id>(m: &Mg<'id>, f: &BDDFunction, lo: u32, n: u32) -> Tt {
    let nv = m.num_vars();
    let e = f.as_edge(m);
    (0..1usize << n).map(|a| BDDFunction::eval_edge(m, e, (0..nv).map(|v| (v, v >= lo && v < lo + n && (a >> (v - lo)) & 1 != 0)))).collect()
}

fn reach<'id>(m: &Mg<'id>, e: &EdgeOfFunc<'id, BDDFunction>, seen: &mut HashSet<NodeID>) {
    if let Node::Inner(n) = m.get_node(e) {
        if seen.insert(e.node_id()) {
            for c in n.children() {
                reach(m, &*c, seen);
            }
        }
    }
}

/// number of distinct inner nodes reachable from `roots`
fn reachable<'id, 'a>(m: &Mg<'id>, roots: impl Iterator<Item = &'a BDDFunction>) -> usize {
    let mut seen = HashSet::new();
    for f in roots {
        reach(m, f.as_edge(m), &mut seen);
    }
    seen.len()
}

/// `ref_count` of every stored node (garbage included) = handles on it + stored parent edges
fn rc_audit<'id, 'a>(m: &Mg<'id>, handles: impl Iterator<Item = &'a BDDFunction>) -> Result<usize, String> {
    let mut expected: HashMap<NodeID, usize> = HashMap::new();
    for f in handles {
        let e = f.as_edge(m);
        if let Node::Inner(_) = m.get_node(e) {
            *expected.entry(e.node_id()).or_insert(0) += 1;
        }
    }
    let mut stored: Vec<(NodeID, LevelNo, usize)> = Vec::new();
    for view in m.levels() {
        let l = view.level_no();
        for e in view.iter() {
            let Node::Inner(n) = m.get_node(e) else { return Err(format!("level {l} lists a terminal")) };
            for c in n.children() {
                if let Node::Inner(_) = m.get_node(&*c) {
                    *expected.entry(c.node_id()).or_insert(0) += 1;
                }
            }
            stored.push((e.node_id(), l, n.ref_count()));
        }
    }
    let ids: HashSet<NodeID> = stored.iter().map(|x| x.0).collect();
    for id in expected.keys() {
        if !ids.contains(id) {
            return Err(format!("node id {id} is referenced (by a handle or a stored parent) but not stored in any level"));
        }
    }
    for (id, l, rc) in &stored {
        let e = *expected.get(id).unwrap_or(&0);
        if e != *rc {
            return Err(format!("node id {id} at level {l} reports ref_count {rc} but {e} references exist (live handles + stored parent edges)"));
        }
    }
    Ok(stored.len())
}

struct Side {
    mref: BDDManagerRef,
    h: BTreeMap<String, BDDFunction>,
}

impl Side {
    fn new(cap: usize, cache: usize, vars: u32, workers: u32, depth: u32) -> Side {
        let mref = oxidd::bdd::new_manager(cap, cache, workers);
        mref.with_manager_exclusive(|m| {
            m.add_vars(vars);
        });
        {
            use oxidd::{HasWorkers, WorkerPool};
            mref.with_manager_shared(|m| m.workers().set_split_depth(Some(depth)));
        }
        Side { mref, h: BTreeMap::new() }
    }
    fn count(&self) -> usize {
        self.mref.with_manager_shared(|m| m.num_inner_nodes())
    }
    fn gc(&self) -> usize {
        self.mref.with_manager_shared(|m| {
            m.gc();
            m.num_inner_nodes()
        })
    }
    /// through the public API of `BooleanFunction` (multi-threaded flavour: `ParallelRecursor`)
    fn op(&self, op: &str, args: &[String]) -> Option<AllocResult<BDDFunction>> {
        let a: Vec<&BDDFunction> = args.iter().map(|x| self.h.get(x)).collect::<Option<_>>()?;
        Some(match (op, a.len()) {
            ("not", 1) => a[0].not(),
            ("ite", 3) => a[0].ite(a[1], a[2]),
            ("and", 2) => a[0].and(a[1]),
            ("or", 2) => a[0].or(a[1]),
            ("xor", 2) => a[0].xor(a[1]),
            ("equiv", 2) => a[0].equiv(a[1]),
            ("nand", 2) => a[0].nand(a[1]),
            ("nor", 2) => a[0].nor(a[1]),
            ("imp", 2) => a[0].imp(a[1]),
            ("imp_strict", 2) => a[0].imp_strict(a[1]),
            _ => return None,
        })
    }
}

struct Case {
    cap: usize,
    cache: usize,
    k: u32,
    workers: u32,
    depth: u32,
    /// every probe runs on a new capped manager (exact mode), see the module documentation
    fresh: bool,
    capped: Side,
    reference: Side,
    defs: Vec<(String, Tt)>,
    tts: BTreeMap<String, Tt>,
    /// "op args" -> (reference table, nodes the reference manager gained)
    refs: HashMap<String, (Tt, usize)>,
}

/// the function `name` built node by node in the manager of `side`
fn define(side: &mut Side, name: &str, t: &Tt, k: u32, ctx: &mut Ctx) -> bool {
    let r = side.mref.with_manager_shared(|m| build_tt(m, t, 0));
    let Ok(f) = r else { return false };
    let got = side.mref.with_manager_shared(|m| tt_of(m, &f, 0, k));
    if &got != t {
        ctx.fail("paroom-def", &format!("`def {} {}`: the function built node by node evaluates to {}", name, tt_hex(t), tt_hex(&got)));
    }
    side.h.insert(name.to_string(), f);
    true
}

impl Case {
    /// fill the capped store with ballast nodes (one handle per node, in creation order: a node
    /// refers to earlier ones only) until exactly `free` slots are left
    fn fill(&self, free: usize) -> Option<Vec<BDDFunction>> {
        let cap = self.cap;
        if self.capped.count() + free > cap {
            return None;
        }
        let target = cap - free;
        let nv = self.k + BALLAST_VARS;
        let mut pool: Vec<BDDFunction> = Vec::new();
        let done = self.capped.mref.with_manager_shared(|m| {
            let mut below: Vec<BDDFunction> = vec![BDDFunction::t(m), BDDFunction::f(m)];
            for level in (self.k..nv).rev() {
                let mut here: Vec<BDDFunction> = Vec::new();
                for t in &below {
                    for e in &below {
                        if t == e {
                            continue;
                        }
                        if m.num_inner_nodes() >= target {
                            pool.extend(here);
                            return m.num_inner_nodes() == target;
                        }
                        let before = m.num_inner_nodes();
                        match mk_edge(m, level, t.as_edge(m), e.as_edge(m)) {
                            Ok(edge) => {
                                let f = BDDFunction::from_edge(m, edge);
                                here.push(f);
                                if m.num_inner_nodes() != before + 1 {
                                    pool.extend(here);
                                    return false;
                                }
                            }
                            Err(_) => {
                                pool.extend(here);
                                return false;
                            }
                        }
                    }
                }
                below.extend(here.iter().cloned());
                pool.extend(here);
            }
            m.num_inner_nodes() == target
        });
        if done { Some(pool) } else { None }
    }

    /// Free slots are handed out in whole lists: a worker thread that needs a slot takes a complete
    /// free list from the shared state into its thread-local state and keeps what it does not use.
    /// After a collection all free slots form ONE list, so a parallel operation can fail although
    /// enough slots are free (the first worker owns them all). This splits the free slots into `n`
    /// lists of one slot each (allocate `n` ballast nodes, then release and collect them one by
    /// one, each in its own manager session: the session's local list goes back to the shared state
    /// as a list of its own) plus the remainder; with `n >= needed` the operation cannot fail.
    fn split_free_lists(&self, n: usize) -> bool {
        let free = self.cap - self.capped.count();
        let n = n.min(free);
        let Some(mut pool) = self.fill(free - n) else {
            self.capped.gc();
            return false;
        };
        while let Some(f) = pool.pop() {
            drop(f);
            self.capped.gc();
        }
        n > 0
    }

    fn probe(&mut self, j: usize, needed: usize, asym: bool, op: &str, args: &[String], line: &str, ctx: &mut Ctx) -> Result<&'static str, ()> {
        let k = self.k;
        let cap = self.cap;
        let a: Option<Vec<&Tt>> = args.iter().map(|x| self.tts.get(x)).collect();
        let Some(a) = a else { return Ok("bad-op") };
        let Some(want) = op_sem(op, &a) else { return Ok("bad-op") };
        // ---- reference manager (one worker, split depth 0, ample capacity), once per operation
        let key = format!("{} {}", op, args.join(" "));
        if !self.refs.contains_key(&key) {
            let before = self.reference.gc();
            let Some(r) = self.reference.op(op, args) else { return Ok("bad-op") };
            let Ok(r) = r else {
                ctx.fail("paroom-ref-result", &format!("`{}` fails on the reference manager", key));
                return Ok("bad-op");
            };
            let d = self.reference.count() - before;
            let t = self.reference.mref.with_manager_shared(|m| tt_of(m, &r, 0, k));
            drop(r);
            self.reference.gc();
            if t != want {
                ctx.fail("paroom-ref-result", &format!("`{}` on the reference manager gives table {} but the semantics on truth tables gives {}", key, tt_hex(&t), tt_hex(&want)));
            }
            if d != needed {
                ctx.fail("paroom-needed", &format!("`{}`: the reference manager gains {} nodes, the generator's independent builder predicted {}", key, d, needed));
            }
            self.refs.insert(key.clone(), (t, d));
        }
        let needed = self.refs[&key].1;
        let cfg = format!("w{}_d{}", self.workers, self.depth);
        let par = self.workers > 0 && self.depth > 0;

        // ---- capped manager
        if self.fresh {
            // a new manager: no slot has ever been freed, so there are no free lists, every thread
            // takes its slots one by one from the never-used tail and reaches all of them
            let mut side = Side::new(cap, self.cache, k + BALLAST_VARS, self.workers, self.depth);
            for (name, t) in &self.defs {
                if !define(&mut side, name, t, k, ctx) {
                    return Ok("bad-op");
                }
            }
            self.capped = side;
        }
        let base = self.capped.gc();
        let live = self.capped.mref.with_manager_shared(|m| reachable(m, self.capped.h.values()));
        if base != live {
            // (a leak of an earlier probe: reported there; this one starts from a dirty store)
            ctx.count("probes_on_dirty_store");
        }
        let Some(ballast) = self.fill(j) else {
            // reused manager: free slots kept in the thread-local lists of idle workers are out of
            // reach for this thread, the store cannot be filled
            if self.fresh {
                ctx.fail("paroom-fill", &format!("`{}`: a new manager with {} operand nodes and capacity {} cannot be filled to {} free slots", line, base, cap, j));
            }
            // (whether this happens depends on thread scheduling, so it is not printed)
            ctx.count("probes_skipped");
            self.capped.gc();
            return Ok("ok");
        };
        ctx.count("probes");
        ctx.count(if self.fresh { "probes_fresh_manager" } else { "probes_reused_manager" });
        ctx.count(&format!("probes_{cfg}"));
        if asym {
            ctx.count("probes_asym");
        }
        let ballast_tt: Vec<Tt> = self.capped.mref.with_manager_shared(|m| ballast.iter().map(|f| tt_of(m, f, k, BALLAST_VARS)).collect());
        let before = self.capped.count();
        if before != cap - j {
            ctx.fail("paroom-fill", &format!("filled to {} nodes, wanted {}", before, cap - j));
        }

        // ---- the operation under test
        let capped = &self.capped;
        let res = match catch_unwind(AssertUnwindSafe(|| capped.op(op, args))) {
            Ok(Some(r)) => r,
            Ok(None) => return Ok("bad-op"),
            Err(e) => {
                let msg = e.downcast_ref::<String>().cloned().or_else(|| e.downcast_ref::<&str>().map(|s| s.to_string())).unwrap_or_else(|| "?".into());
                ctx.fail("paroom-panic", &format!("`{}` panics with {} free slots ({} workers, split depth {}): {}", line, j, self.workers, self.depth, msg));
                std::mem::forget(ballast);
                return Err(());
            }
        };
        let after = self.capped.count();
        let outcome = if res.is_ok() { "success" } else { "OOM" };
        let setting = format!("j = {}, {}, {} workers, split depth {}, {} manager", j, outcome, self.workers, self.depth, if self.fresh { "new" } else { "reused" });
        match &res {
            Err(_) => {
                ctx.count("oom_runs");
                ctx.count(&format!("oom_{op}"));
                ctx.count(&format!("oom_{cfg}"));
                if j > 0 {
                    ctx.count("oom_partial");
                    ctx.count(&format!("oom_partial_{op}"));
                    if par {
                        ctx.count("oom_partial_parallel");
                    }
                }
                if after > before {
                    // nodes of the partial result stay behind as garbage
                    ctx.count("oom_left_garbage");
                }
                if j >= needed {
                    // reused manager: legal (free slots in another thread's local list)
                    ctx.count("oom_enough_free");
                }
                if self.fresh && after != cap {
                    ctx.fail("paroom-spurious-oom", &format!("`{}` ({}) reported out of memory although only {} of {} node slots are in use afterwards", line, setting, after, cap));
                }
            }
            Ok(r) => {
                ctx.count("ok_runs");
                ctx.count(&format!("ok_{op}"));
                ctx.count(&format!("ok_{cfg}"));
                let t = self.capped.mref.with_manager_shared(|m| tt_of(m, r, 0, k));
                if t != want {
                    ctx.fail("paroom-wrong-result", &format!("`{}` ({}) gives table {} instead of {}", line, setting, tt_hex(&t), tt_hex(&want)));
                }
                if j < needed {
                    ctx.fail("paroom-success-impossible", &format!("`{}` ({}) succeeds although it needs {} fresh nodes", line, setting, needed));
                }
                if after - before != needed {
                    ctx.fail("paroom-delta", &format!("`{}` ({}) took {} slots, the reference manager {}", line, setting, after - before, needed));
                }
            }
        }
        // ---- the manager is intact: handles, structure, reference counts
        self.capped.mref.with_manager_shared(|m| {
            for (name, f) in &self.capped.h {
                if tt_of(m, f, 0, k) != self.tts[name] {
                    ctx.fail("paroom-handle", &format!("operand {} changed by `{}` ({})", name, line, setting));
                    break;
                }
            }
            for (i, f) in ballast.iter().enumerate() {
                if tt_of(m, f, k, BALLAST_VARS) != ballast_tt[i] {
                    ctx.fail("paroom-handle", &format!("ballast handle {} changed by `{}` ({})", i, line, setting));
                    break;
                }
            }
            if let Err(e) = <oxv::kinds::KBdd as oxv::bf::Kind>::audit(m) {
                ctx.fail("paroom-audit", &format!("after `{}` ({}): {}", line, setting, e));
            }
            let handles = self.capped.h.values().chain(ballast.iter()).chain(res.as_ref().ok().into_iter());
            if let Err(e) = rc_audit(m, handles) {
                ctx.fail("paroom-rc", &format!("after `{}` ({}): {}", line, setting, e));
            }
        });
        // ---- leak detector
        drop(res);
        drop(ballast);
        let n = self.capped.gc();
        let live = self.capped.mref.with_manager_shared(|m| reachable(m, self.capped.h.values()));
        if n != live {
            ctx.fail("paroom-leak", &format!("after `{}` ({}), dropping result and ballast and gc(): {} inner nodes stored but only {} reachable from the live handles", line, setting, n, live));
        }
        // ---- retry with free space
        let split = self.split_free_lists(needed + 2);
        let n1 = self.capped.count();
        if n1 != n {
            ctx.fail("paroom-leak-retry", &format!("`{}` ({}): {} inner nodes stored after splitting the free lists, {} before", line, setting, n1, n));
        }
        let capped = &self.capped;
        match catch_unwind(AssertUnwindSafe(|| capped.op(op, args))) {
            Ok(Some(Ok(r))) => {
                let t = self.capped.mref.with_manager_shared(|m| tt_of(m, &r, 0, k));
                if t != want {
                    ctx.fail("paroom-retry", &format!("retry of `{}` ({}) gives table {} instead of {}", line, setting, tt_hex(&t), tt_hex(&want)));
                }
                let d = self.capped.count() - n;
                if d != needed && n == live {
                    ctx.fail("paroom-retry", &format!("retry of `{}` ({}) took {} slots, the reference manager {}", line, setting, d, needed));
                }
                self.capped.mref.with_manager_shared(|m| {
                    if let Err(e) = rc_audit(m, self.capped.h.values().chain(std::iter::once(&r))) {
                        if n == live {
                            ctx.fail("paroom-rc", &format!("after the retry of `{}` ({}): {}", line, setting, e));
                        }
                    }
                });
                drop(r);
                ctx.count("retries_ok");
            }
            Ok(Some(Err(_))) => {
                if self.fresh && split && n == live {
                    ctx.fail("paroom-retry", &format!("retry of `{}` ({}) fails although {} of {} slots are free, {} of them in lists of their own, and {} are needed", line, setting, cap - n, cap, (needed + 2).min(cap - n), needed));
                } else {
                    // reused manager: free slots may sit in the local lists of idle workers
                    ctx.count("retries_oom_reused_manager");
                }
            }
            Ok(None) => {}
            Err(_) => {
                ctx.fail("paroom-panic", &format!("retry of `{}` ({}) panics", line, setting));
                return Err(());
            }
        }
        let n2 = self.capped.gc();
        if n2 != n {
            ctx.fail("paroom-leak-retry", &format!("after the retry of `{}` ({}) and gc(): {} inner nodes stored, {} before the retry", line, setting, n2, n));
        }
        Ok("ok")
    }
}

struct ParOom {
    case: Option<Case>,
    dead: bool,
}

fn kv<'a>(w: &[&'a str], k: &str) -> Option<&'a str> {
    w.iter().find_map(|x| x.strip_prefix(k))
}

impl Scenario for ParOom {
    fn reset(&mut self) {
        self.case = None;
        self.dead = false;
    }
    fn step(&mut self, line: &str, ctx: &mut Ctx) -> String {
        let w = words(line);
        if self.dead {
            return "dead".into();
        }
        if w[0] == "mgr" {
            let num = |k: &str| kv(&w, k).and_then(|x| x.parse::<usize>().ok());
            let (Some(cap), Some(k), Some(workers), Some(depth)) = (num("cap="), num("vars="), num("workers="), num("depth=")) else { return "bad-op".into() };
            let cache = num("cache=").unwrap_or(1024);
            let fresh = num("fresh=").unwrap_or(1) != 0;
            if !(1..=8).contains(&k) || workers == 0 || cap == 0 {
                return "bad-op".into();
            }
            let nv = k as u32 + BALLAST_VARS;
            self.case = Some(Case {
                cap,
                cache,
                k: k as u32,
                workers: workers as u32,
                depth: depth as u32,
                fresh,
                capped: Side::new(cap, cache, nv, workers as u32, depth as u32),
                reference: Side::new(REF_CAP, cache, nv, 1, 0),
                defs: Vec::new(),
                tts: BTreeMap::new(),
                refs: HashMap::new(),
            });
            ctx.count(&format!("cases_w{}_d{}", workers, depth));
            ctx.count(if fresh { "cases_fresh_manager" } else { "cases_reused_manager" });
            return "ok".into();
        }
        let Some(case) = self.case.as_mut() else { return "bad-op".into() };
        match w[0] {
            "def" if w.len() == 3 => {
                let Some(t) = tt_parse(w[2], case.k) else { return "bad-op".into() };
                let k = case.k;
                if case.tts.contains_key(w[1]) {
                    return "bad-op".into();
                }
                for side in [&mut case.capped, &mut case.reference] {
                    if !define(side, w[1], &t, k, ctx) {
                        return "bad-op".into();
                    }
                }
                case.defs.push((w[1].to_string(), t.clone()));
                case.tts.insert(w[1].to_string(), t);
                "ok".into()
            }
            "probe" if w.len() >= 4 => {
                let num = |k: &str| kv(&w, k).and_then(|x| x.parse::<usize>().ok());
                let (Some(j), Some(needed)) = (num("j="), num("needed=")) else { return "bad-op".into() };
                let asym = num("hi=") != num("lo=");
                if asym && num("hi=").unwrap_or(0) > 0 && num("lo=").unwrap_or(0) > 0 {
                    ctx.count("probe_lines_asym_both_branches_allocate");
                }
                let rest: Vec<&str> = w[1..].iter().filter(|x| !x.contains('=')).cloned().collect();
                if rest.is_empty() {
                    return "bad-op".into();
                }
                let args: Vec<String> = rest[1..].iter().map(|x| x.to_string()).collect();
                match case.probe(j, needed, asym, rest[0], &args, line, ctx) {
                    Ok(s) => s.into(),
                    Err(()) => {
                        // the manager may be inconsistent after a panic: leak it
                        std::mem::forget(self.case.take());
                        self.dead = true;
                        "dead".into()
                    }
                }
            }
            _ => "bad-op".into(),
        }
    }
}

// ------------------------------------------------------------------------------------------------
// generator (does not touch the library: `needed` comes from the independent builder `RefBdd`)

/// a function over `n` variables that depends on a random subset of `s` of them
fn rand_sub(rng: &mut Rng, n: u32, s: u32) -> Tt {
    let mut vars: Vec<u32> = (0..n).collect();
    rng.shuffle(&mut vars);
    vars.truncate(s as usize);
    let small: Vec<bool> = (0..1usize << s).map(|_| rng.chance(1, 2)).collect();
    (0..1usize << n)
        .map(|a| {
            let mut i = 0;
            for (p, v) in vars.iter().enumerate() {
                if (a >> v) & 1 != 0 {
                    i |= 1 << p;
                }
            }
            small[i]
        })
        .collect()
}

/// a tiny function over `n` variables: constant, literal, or a two-literal connective
fn tiny_sub(rng: &mut Rng, n: u32) -> Tt {
    let v1 = rng.below(n as u64) as usize;
    let v2 = rng.below(n as u64) as usize;
    let kind = rng.below(6);
    (0..1usize << n)
        .map(|a| {
            let (x, y) = ((a >> v1) & 1 != 0, (a >> v2) & 1 != 0);
            match kind {
                0 => false,
                1 => true,
                2 => x,
                3 => !x,
                4 => x & y,
                _ => x ^ y,
            }
        })
        .collect()
}

/// `x0 ? hi : lo`
fn join_x0(hi: &Tt, lo: &Tt) -> Tt {
    let mut t = Vec::with_capacity(hi.len() * 2);
    for i in 0..hi.len() {
        t.push(lo[i]);
        t.push(hi[i]);
    }
    t
}

fn cof(t: &Tt, x0: bool) -> Tt {
    t.iter().skip(x0 as usize).step_by(2).cloned().collect()
}

struct Cand {
    op: &'static str,
    args: Vec<String>,
    needed: usize,
    hi: usize,
    lo: usize,
}

fn generate(cfg: &GenCfg, rng: &mut Rng, w: &mut dyn Write) {
    let cases = if cfg.thorough { 700 } else { 70 } * cfg.scale;
    let ops_per_case = if cfg.thorough { 10 } else { 5 };
    let controls: [(u32, u32); 6] = [(1, 0), (4, 0), (1, 1), (1, 2), (1, 3), (2, 0)];
    let mut done = 0u64;
    let mut attempts = 0u64;
    while done < cases && attempts < 200 * cases {
        attempts += 1;
        let k = rng.range(4, 8) as u32;
        let (workers, depth) = if done % 8 == 7 { controls[(done / 8) as usize % controls.len()] } else { (rng.range(2, 8) as u32, rng.range(1, 3) as u32) };
        let cache = *rng.pick(&[16usize, 64, 1024]);
        // three of four cases: a new capped manager for every probe (exact); else one per case
        let fresh = !rng.chance(1, 4);
        // orientation of the case: which cofactor of x0 is the large one
        let big_hi = rng.chance(1, 2);
        let nops = rng.range(3, 4) as usize;
        let names = ["f", "g", "h", "p"];
        let mut tts: Vec<Tt> = Vec::new();
        for i in 0..nops {
            let n = k - 1;
            let s = rng.range(2, 5.min(n as u64)) as u32;
            let big = rand_sub(rng, n, s);
            let small = match rng.below(8) {
                // the small cofactor is already present: a cofactor of an earlier operand
                0 | 1 if i > 0 => cof(&tts[rng.below(i as u64) as usize], rng.chance(1, 2)),
                // both cofactors are large
                2 => {
                    let s2 = rng.range(2, 4.min(n as u64)) as u32;
                    rand_sub(rng, n, s2)
                }
                _ => tiny_sub(rng, n),
            };
            let flip = rng.chance(1, 5);
            let t = if big_hi != flip { join_x0(&big, &small) } else { join_x0(&small, &big) };
            tts.push(t);
        }
        let mut rb = RefBdd::default();
        let roots: Vec<usize> = tts.iter().map(|t| rb.build(t, 0)).collect();
        let mut live = HashSet::new();
        for r in &roots {
            rb.reach(*r, &mut live);
        }
        let base = live.len();
        // operations
        let mut chosen: Vec<&'static str> = ALL_OPS.to_vec();
        rng.shuffle(&mut chosen);
        chosen.truncate(ops_per_case);
        let mut cands: Vec<Cand> = Vec::new();
        for op in chosen {
            let mut best: Option<(usize, Cand)> = None;
            for _ in 0..4 {
                let mut idx: Vec<usize> = (0..nops).collect();
                rng.shuffle(&mut idx);
                let ar = match op {
                    "not" => 1,
                    "ite" => 3,
                    _ => 2,
                };
                idx.truncate(ar);
                let a: Vec<&Tt> = idx.iter().map(|i| &tts[*i]).collect();
                let res = op_sem(op, &a).unwrap();
                let count_new = |rb: &mut RefBdd, t: &[bool], level: usize| {
                    let r = rb.build(t, level);
                    let mut s = HashSet::new();
                    rb.reach(r, &mut s);
                    s.difference(&live).count()
                };
                let needed = count_new(&mut rb, &res, 0);
                let hi = count_new(&mut rb, &cof(&res, true), 1);
                let lo = count_new(&mut rb, &cof(&res, false), 1);
                let score = needed.min(10) + 3 * hi.abs_diff(lo).min(6) + if hi.min(lo) > 0 { 2 } else { 0 };
                let c = Cand { op, args: idx.iter().map(|i| names[*i].to_string()).collect(), needed, hi, lo };
                if best.as_ref().map_or(true, |b| score > b.0) {
                    best = Some((score, c));
                }
            }
            cands.push(best.unwrap().1);
        }
        let max_needed = cands.iter().map(|c| c.needed).max().unwrap_or(0);
        let cap = base + max_needed + 1 + rng.below(3) as usize;
        // capacities of 100 and more enable the background collector; 254 ballast nodes at most
        if cap >= 100 || max_needed < 2 {
            continue;
        }
        writeln!(w, "case paroom-{}-w{}-d{}-k{}-{}", done, workers, depth, k, if fresh { "new" } else { "reuse" }).unwrap();
        writeln!(w, "mgr cap={} cache={} vars={} workers={} depth={} fresh={}", cap, cache, k, workers, depth, fresh as u32).unwrap();
        for (i, t) in tts.iter().enumerate() {
            writeln!(w, "def {} {}", names[i], tt_hex(t)).unwrap();
        }
        for c in &cands {
            // every number of free slots from "none" to "one more than needed", in random order
            // for half of the groups (the cache and the free lists then differ from probe to probe)
            let mut js: Vec<usize> = (0..=c.needed + 1).collect();
            if rng.chance(1, 2) {
                rng.shuffle(&mut js);
            }
            for j in js {
                writeln!(w, "probe j={} {} {} needed={} hi={} lo={}", j, c.op, c.args.join(" "), c.needed, c.hi, c.lo).unwrap();
            }
        }
        done += 1;
    }
}

fn make(_f: &BTreeMap<String, String>) -> Box<dyn Scenario> {
    Box::new(ParOom { case: None, dead: false })
}

fn main() {
    let _ = BIN_OPS;
    harness_main(generate, make)
}
