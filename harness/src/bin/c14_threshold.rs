//! C14, predicted out-of-memory thresholds (stream `c14-threshold`, model protocol `c14t`).
//!
//! Every line runs on the real index-based BDD manager with a small node capacity (one worker
//! thread, split depth 0, background collector off because the capacity is below 100) and on a
//! large reference manager. The output stream is the capped manager's: for an operation `OOM` or
//! the canonical tree of the result followed by `+d`, the number of node slots the operation took
//! (`num_inner_nodes` after − before); for `gc`/`dropballast` the number of stored nodes. The Lean
//! driver `c14t` executes the capacity-bounded store-level model on the same lines and must
//! print the same stream: it *predicts* for every number of free slots whether the operation runs
//! out of memory, what it returns, and how many slots it takes.
//!
//! `ballast j` fills the capped store, node by node (`reduce` + `get_or_insert` on three variables
//! at the bottom of the order that no operand uses), until exactly `j` slots are free
//! (`capacity − num_inner_nodes = j`; the capacity of the index manager is exactly
//! `inner_node_capacity` slots, a slot is taken only after the unique-table lookup missed, and a
//! single thread reaches every free slot: its local list, the shared stack of lists, the
//! never-used tail). It prints the number of ballast nodes, which the model predicts as
//! `cap − count − j` — so the model's node count *including garbage* is compared as well.
//!
//! Oracles, independent of the model (the reference manager is the yardstick):
//! * `threshold-needed`: an operation fails iff `j < needed`, where `needed` is the number of nodes
//!   the reference manager gained by the same operation from the same state;
//! * `spurious-oom`: after a failure the store is exactly full;
//! * `capacity-dependent-result` / `delta`: on success tree and slot count equal the reference's;
//! * `threshold-monotone`: within a group, once `j` succeeds every larger `j` succeeds;
//! * `after-oom-*`: after a failure the structural audit passes and all handles have their trees;
//! * `post-gc-count`: after every `gc` line both managers hold equally many nodes (a reference
//!   leaked on a failure path keeps garbage alive in the capped manager only).
use oxidd::bdd::{BDDFunction, BDDManagerRef};
use oxidd::util::AllocResult;
use oxidd::{BooleanFunction, BooleanFunctionQuant, BooleanOperator, Function, FunctionSubst, Manager, ManagerRef, Subst};
use oxidd_core::{DiagramRules, HasLevel, LevelNo, Node};
use oxidd_rules_bdd::simple::BDDTerminal;
use oxv::*;
use std::collections::BTreeMap;
use std::io::Write;

const BIN_OPS: [&str; 8] = ["and", "or", "nand", "nor", "xor", "equiv", "imp", "imp_strict"];
const BALLAST_VARS: u32 = 3;

fn tree<M>(m: &M, e: &M::Edge) -> String
where
    M: Manager<Terminal = BDDTerminal>,
    M::InnerNode: HasLevel,
{
    match m.get_node(e) {
        Node::Terminal(t) => (if *std::borrow::Borrow::<BDDTerminal>::borrow(&t) == BDDTerminal::True { "T" } else { "F" }).into(),
        Node::Inner(n) => {
            use oxidd::InnerNode;
            let v = m.level_to_var(n.level());
            format!("(v{} {} {})", v, tree(m, &n.child(0)), tree(m, &n.child(1)))
        }
    }
}

/// `reduce` + `get_or_insert`: the primitive node constructor (no apply cache involved)
fn mk_edge<M: Manager>(m: &M, level: LevelNo, t: &M::Edge, e: &M::Edge) -> AllocResult<M::Edge>
where
    M::InnerNode: HasLevel,
{
    let c = [m.clone_edge(t), m.clone_edge(e)];
    <M::Rules as DiagramRules<_, _, _>>::reduce(m, level, c).then_insert(m, level)
}

fn bool_op(op: &str) -> Option<BooleanOperator> {
    Some(match op {
        "and" => BooleanOperator::And,
        "or" => BooleanOperator::Or,
        "nand" => BooleanOperator::Nand,
        "nor" => BooleanOperator::Nor,
        "xor" => BooleanOperator::Xor,
        "equiv" => BooleanOperator::Equiv,
        "imp" => BooleanOperator::Imp,
        "imp_strict" => BooleanOperator::ImpStrict,
        _ => return None,
    })
}

enum Out {
    Ok,
    Bad,
    Oom,
    Tree(String, usize),
    Count(usize),
}

struct Mgr {
    mref: BDDManagerRef,
    nvars: u32,
    h: BTreeMap<String, BDDFunction>,
    substs: BTreeMap<String, Subst<BDDFunction>>,
    ballast: Vec<BDDFunction>,
}

impl Mgr {
    fn new(cap: usize, cache: usize, vars: u32) -> Mgr {
        let mref = oxidd::bdd::new_manager(cap, cache, 1);
        mref.with_manager_exclusive(|m| {
            m.add_vars(vars);
        });
        {
            use oxidd::{HasWorkers, WorkerPool};
            mref.with_manager_shared(|m| m.workers().set_split_depth(Some(0)));
        }
        Mgr { mref, nvars: vars, h: BTreeMap::new(), substs: BTreeMap::new(), ballast: Vec::new() }
    }
    fn count(&self) -> usize {
        self.mref.with_manager_shared(|m| m.num_inner_nodes())
    }
    fn get(&self, name: &str) -> Option<BDDFunction> {
        match name {
            "T" => Some(self.mref.with_manager_shared(|m| BDDFunction::t(m))),
            "F" => Some(self.mref.with_manager_shared(|m| BDDFunction::f(m))),
            _ => self.h.get(name).cloned(),
        }
    }
    fn tree_of(&self, f: &BDDFunction) -> String {
        f.with_manager_shared(|m, e| tree(m, e))
    }
    fn put(&mut self, name: &str, before: usize, r: AllocResult<BDDFunction>) -> Out {
        match r {
            Ok(f) => {
                let t = self.tree_of(&f);
                self.h.insert(name.to_string(), f);
                Out::Tree(t, self.count() - before)
            }
            Err(_) => Out::Oom,
        }
    }
    fn gc(&self) -> usize {
        self.mref.with_manager_shared(|m| {
            m.gc();
        });
        self.count() - self.ballast.len()
    }

    /// fill the store with ballast nodes until exactly `free` slots are left; `None` if impossible
    fn fill(&mut self, cap: usize, free: usize) -> Option<usize> {
        if !self.ballast.is_empty() || self.count() + free > cap {
            return None;
        }
        let target = cap - free;
        let lo = self.nvars - BALLAST_VARS;
        let mref = self.mref.clone();
        let mut pool: Vec<BDDFunction> = Vec::new();
        let done = mref.with_manager_shared(|m| {
            // candidates for children: the terminals and all ballast nodes of lower levels
            let mut below: Vec<BDDFunction> = vec![BDDFunction::t(m), BDDFunction::f(m)];
            for level in (lo..self.nvars).rev() {
                let mut here: Vec<BDDFunction> = Vec::new();
                for t in &below {
                    for e in &below {
                        if t == e {
                            continue;
                        }
                        if m.num_inner_nodes() >= target {
                            pool.extend(here);
                            return m.num_inner_nodes() == target;
                        }
                        let before = m.num_inner_nodes();
                        match mk_edge(m, level, t.as_edge(m), e.as_edge(m)) {
                            Ok(edge) => {
                                let f = BDDFunction::from_edge(m, edge);
                                if m.num_inner_nodes() != before + 1 {
                                    // the node existed (cannot happen: no operand uses these levels)
                                    pool.extend(here);
                                    return false;
                                }
                                here.push(f);
                            }
                            Err(_) => {
                                pool.extend(here);
                                return false;
                            }
                        }
                    }
                }
                below.extend(here.iter().cloned());
                pool.extend(here);
            }
            m.num_inner_nodes() == target
        });
        self.ballast = pool;
        if done { Some(self.ballast.len()) } else { None }
    }

    fn run(&mut self, w: &[&str]) -> Out {
        let before = self.count();
        match w[0] {
            "var" | "notvar" if w.len() == 3 => {
                let Ok(v) = w[2].parse::<u32>() else { return Out::Bad };
                let r = self.mref.with_manager_shared(|m| if w[0] == "var" { BDDFunction::var(m, v) } else { BDDFunction::not_var(m, v) });
                self.put(w[1], before, r)
            }
            "op" if w.len() >= 4 => {
                let Some(a) = self.get(w[3]) else { return Out::Bad };
                if w[2] == "not" {
                    return self.put(w[1], before, a.not());
                }
                let Some(b) = w.get(4).and_then(|x| self.get(x)) else { return Out::Bad };
                if w[2] == "ite" {
                    let Some(c) = w.get(5).and_then(|x| self.get(x)) else { return Out::Bad };
                    return self.put(w[1], before, a.ite(&b, &c));
                }
                let r = match w[2] {
                    "and" => a.and(&b),
                    "or" => a.or(&b),
                    "nand" => a.nand(&b),
                    "nor" => a.nor(&b),
                    "xor" => a.xor(&b),
                    "equiv" => a.equiv(&b),
                    "imp" => a.imp(&b),
                    "imp_strict" => a.imp_strict(&b),
                    _ => return Out::Bad,
                };
                self.put(w[1], before, r)
            }
            "cube" if w.len() >= 2 => {
                // ⊤ ∧ l1 ∧ l2 ∧ …, left to right; every literal and every conjunction may fail
                let mut acc = self.mref.with_manager_shared(|m| BDDFunction::t(m));
                for l in &w[2..] {
                    let Ok(v) = l[1..].parse::<u32>() else { return Out::Bad };
                    let x = self.mref.with_manager_shared(|m| match &l[..1] {
                        "+" => Some(BDDFunction::var(m, v)),
                        "-" => Some(BDDFunction::not_var(m, v)),
                        _ => None,
                    });
                    let Some(x) = x else { return Out::Bad };
                    let Ok(x) = x else { return Out::Oom };
                    match acc.and(&x) {
                        Ok(r) => acc = r,
                        Err(_) => return Out::Oom,
                    }
                }
                self.put(w[1], before, Ok(acc))
            }
            "quant" if w.len() == 5 => {
                let (Some(f), Some(vs)) = (self.get(w[3]), self.get(w[4])) else { return Out::Bad };
                let r = match w[2] {
                    "forall" => f.forall(&vs),
                    "exists" => f.exists(&vs),
                    "unique" => f.unique(&vs),
                    _ => return Out::Bad,
                };
                self.put(w[1], before, r)
            }
            "applyq" if w.len() == 7 => {
                let Some(op) = bool_op(w[3]) else { return Out::Bad };
                let (Some(f), Some(g), Some(vs)) = (self.get(w[4]), self.get(w[5]), self.get(w[6])) else { return Out::Bad };
                let r = match w[2] {
                    "forall" => f.apply_forall(op, &g, &vs),
                    "exists" => f.apply_exists(op, &g, &vs),
                    "unique" => f.apply_unique(op, &g, &vs),
                    _ => return Out::Bad,
                };
                self.put(w[1], before, r)
            }
            "restrict" if w.len() == 4 => {
                let (Some(f), Some(cs)) = (self.get(w[2]), self.get(w[3])) else { return Out::Bad };
                self.put(w[1], before, f.restrict(&cs))
            }
            "mksubst" if w.len() >= 2 => {
                let mut vars = Vec::new();
                let mut reps = Vec::new();
                for p in &w[2..] {
                    let Some((v, h)) = p.split_once('=') else { return Out::Bad };
                    let (Ok(v), Some(f)) = (v.parse::<u32>(), self.get(h)) else { return Out::Bad };
                    vars.push(v);
                    reps.push(f);
                }
                self.substs.insert(w[1].to_string(), Subst::new(vars, reps));
                Out::Ok
            }
            "subst" if w.len() == 4 => {
                let Some(f) = self.get(w[2]) else { return Out::Bad };
                let Some(s) = self.substs.get(w[3]) else { return Out::Bad };
                let r = f.substitute(s);
                self.put(w[1], before, r)
            }
            "drop" if w.len() == 2 => {
                self.h.remove(w[1]);
                Out::Ok
            }
            "dropsubst" if w.len() == 2 => {
                self.substs.remove(w[1]);
                Out::Ok
            }
            "gc" => Out::Count(self.gc()),
            "nodes" => Out::Count(self.count() - self.ballast.len()),
            "dropballast" => {
                self.ballast.clear();
                Out::Count(self.gc())
            }
            _ => Out::Bad,
        }
    }
}

fn show(o: &Out) -> String {
    match o {
        Out::Ok => "ok".into(),
        Out::Bad => "bad-op".into(),
        Out::Oom => "OOM".into(),
        Out::Tree(t, d) => format!("{} +{}", t, d),
        Out::Count(n) => format!("n={}", n),
    }
}

struct Thr {
    cap: usize,
    capped: Option<Mgr>,
    reference: Option<Mgr>,
    /// free slots left by the last `ballast` line (None: no ballast)
    free: Option<usize>,
    /// the current group: (op line, smallest j that succeeded, largest j that failed)
    group: Option<(String, Option<usize>, Option<usize>)>,
}

impl Scenario for Thr {
    fn reset(&mut self) {
        self.capped = None;
        self.reference = None;
        self.free = None;
        self.group = None;
    }
    fn step(&mut self, line: &str, ctx: &mut Ctx) -> String {
        let w = words(line);
        if w[0] == "mgr" {
            let kv = |k: &str| w.iter().find_map(|x| x.strip_prefix(k)).and_then(|x| x.parse::<usize>().ok());
            let (Some(cap), Some(vars)) = (kv("cap="), kv("vars=")) else { return "bad-op".into() };
            let cache = kv("cache=").unwrap_or(1024);
            self.cap = cap;
            self.capped = Some(Mgr::new(cap, cache, vars as u32));
            // (a generator run needs no reference manager)
            self.reference = if ctx.extra.contains_key("noref") { None } else { Some(Mgr::new(4096, cache, vars as u32)) };
            return "ok".into();
        }
        let Some(capped) = self.capped.as_mut() else { return "bad-op".into() };
        match w[0] {
            "begin" => {
                self.group = Some((String::new(), None, None));
                return "ok".into();
            }
            "end" => {
                let Some((op, ok, fail)) = self.group.take() else { return "bad-op".into() };
                if let (Some(s), Some(f)) = (ok, fail) {
                    if f > s {
                        ctx.fail("threshold-monotone", &format!("`{}` succeeds with {} free slots but fails with {}", op, s, f));
                    }
                }
                ctx.count("groups");
                return match ok {
                    Some(j) => format!("threshold={}", j),
                    None => "threshold=none".into(),
                };
            }
            "ballast" => {
                let Some(j) = w.get(1).and_then(|x| x.parse::<usize>().ok()) else { return "bad-op".into() };
                return match capped.fill(self.cap, j) {
                    Some(k) => {
                        self.free = Some(j);
                        ctx.count("ballast_fill_exact");
                        format!("ok {}", k)
                    }
                    None => {
                        ctx.count("ballast_fill_inexact");
                        "bad-op".into()
                    }
                };
            }
            _ => {}
        }
        let is_op = matches!(w[0], "var" | "notvar" | "op" | "cube" | "quant" | "applyq" | "restrict" | "subst");
        // snapshot of all handles, to be compared after a failure
        let snap: Vec<(String, String)> = if is_op { capped.h.iter().map(|(k, f)| (k.clone(), capped.tree_of(f))).collect() } else { Vec::new() };
        let out = capped.run(&w);
        if w[0] == "dropballast" {
            self.free = None;
        }
        let out_ref = self.reference.as_mut().map(|r| r.run(&w));
        let capped = self.capped.as_mut().unwrap();
        match (&out, &out_ref) {
            (Out::Oom, _) => {
                ctx.count("oom_results");
                ctx.count(&format!("oom_{}", if w[0] == "op" && matches!(w[2], "not" | "ite") { w[2] } else { w[0] }));
                let inner = capped.count();
                if inner != self.cap {
                    ctx.fail("spurious-oom", &format!("`{}` reported out of memory although {} of {} node slots are in use", line, inner, self.cap));
                }
                if let (Some(j), Some(Out::Tree(_, d))) = (self.free, &out_ref) {
                    if j >= *d {
                        ctx.fail("threshold-needed", &format!("`{}` fails with {} free slots although the reference manager needs only {} nodes for it", line, j, d));
                    }
                }
                // the manager is intact
                let audit = capped.mref.with_manager_shared(|m| <oxv::kinds::KBdd as oxv::bf::Kind>::audit(m).map(|_| ()));
                if let Err(e) = audit {
                    ctx.fail("after-oom-audit", &format!("after the failure of `{}`: {}", line, e));
                }
                for (k, t) in &snap {
                    if capped.h.get(k).map(|f| capped.tree_of(f)).as_ref() != Some(t) {
                        ctx.fail("after-oom-corrupted-handle", &format!("handle {} changed by the failed `{}`", k, line));
                        break;
                    }
                }
                if let Some(g) = self.group.as_mut() {
                    g.0 = line.to_string();
                    if let Some(j) = self.free {
                        g.2 = Some(g.2.map_or(j, |x| x.max(j)));
                    }
                }
            }
            (Out::Tree(t, d), Some(Out::Tree(tr, dr))) => {
                ctx.count("ok_under_capacity");
                if t != tr {
                    ctx.fail("capacity-dependent-result", &format!("`{}` gives {} under capacity {} but {} without limit", line, t, self.cap, tr));
                }
                if d != dr {
                    ctx.fail("delta", &format!("`{}` takes {} slots under capacity {} but {} in the reference manager", line, d, self.cap, dr));
                }
                if let Some(j) = self.free {
                    if j < *dr {
                        ctx.fail("threshold-needed", &format!("`{}` succeeds with {} free slots although the reference manager needs {} nodes for it", line, j, dr));
                    }
                    if let Some(g) = self.group.as_mut() {
                        g.0 = line.to_string();
                        g.1 = Some(g.1.map_or(j, |x| x.min(j)));
                    }
                    ctx.count(&format!("probe_ok_{}", if w[0] == "op" && matches!(w[2], "not" | "ite") { w[2] } else { w[0] }));
                    if *d == 0 && j == 0 {
                        ctx.count("ok_on_full_store");
                    }
                }
            }
            (Out::Tree(..), Some(_)) => {
                ctx.fail("capacity-dependent-result", &format!("`{}` succeeds under capacity {} but not without limit", line, self.cap));
            }
            (Out::Count(n), Some(Out::Count(nr))) => {
                // (after a failed probe the reference manager still holds the result until `drop r`)
                if w[0] == "gc" && n != nr {
                    ctx.fail("post-gc-count", &format!("after `{}` the capped manager holds {} nodes, the reference manager {}", line, n, nr));
                }
            }
            _ => {}
        }
        show(&out)
    }
}

// ------------------------------------------------------------------------------------------------
// generator: runs the real code on a large manager to learn node counts and `needed`, so that it
// can choose the capacity and enumerate j = 0 ..= needed + 1 for every operation

struct Sim {
    sc: Thr,
    ctx: Ctx,
    lines: Vec<String>,
}

impl Sim {
    fn new() -> Sim {
        let mut extra = BTreeMap::new();
        extra.insert("noref".to_string(), "1".to_string());
        Sim {
            sc: Thr { cap: 0, capped: None, reference: None, free: None, group: None },
            ctx: Ctx { line_no: 0, case: String::new(), failures: Vec::new(), stats: BTreeMap::new(), extra },
            lines: Vec::new(),
        }
    }
    /// execute on the simulation manager and record
    fn emit(&mut self, l: String) -> String {
        let o = self.sc.step(&l, &mut self.ctx);
        self.lines.push(l);
        o
    }
    /// record only (lines that concern the capped manager alone)
    fn note(&mut self, l: String) {
        self.lines.push(l);
    }
    fn count(&mut self) -> usize {
        self.sc.step("nodes", &mut self.ctx)[2..].parse().unwrap()
    }
}

fn delta(out: &str) -> usize {
    out.rsplit_once('+').and_then(|x| x.1.parse().ok()).unwrap_or(0)
}

fn generate(cfg: &GenCfg, rng: &mut Rng, w: &mut dyn Write) {
    let cases = if cfg.thorough { 2500 } else { 400 } * cfg.scale;
    let mut done = 0;
    let mut attempt = 0;
    while done < cases {
        attempt += 1;
        let n = rng.range(3, 7) as u32;
        let nv = n + BALLAST_VARS;
        let cache = *rng.pick(&[16usize, 64, 1024]);
        let mut sim = Sim::new();
        sim.sc.step(&format!("mgr cap=60000 cache={} vars={}", cache, nv), &mut sim.ctx);
        let mut peak = 0usize;
        let mut pool: Vec<String> = Vec::new();
        for v in 0..n {
            if rng.chance(3, 4) {
                sim.emit(format!("var x{} {}", v, v));
                pool.push(format!("x{v}"));
            }
        }
        if pool.len() < 2 {
            sim.emit(format!("var y{} {}", n - 1, n - 1));
            sim.emit(format!("notvar ny{} {}", 0, 0));
            pool.push(format!("y{}", n - 1));
            pool.push("ny0".into());
        }
        let nbuild = rng.range(4, 12);
        for s in 0..nbuild {
            let l = if rng.chance(1, 6) {
                format!("op g{} ite {} {} {}", s, rng.pick(&pool), rng.pick(&pool), rng.pick(&pool))
            } else if rng.chance(1, 8) {
                format!("op g{} not {}", s, rng.pick(&pool))
            } else {
                format!("op g{} {} {} {}", s, rng.pick(&BIN_OPS), rng.pick(&pool), rng.pick(&pool))
            };
            sim.emit(l);
            pool.push(format!("g{s}"));
        }
        peak = peak.max(sim.count());
        // some handles are dropped again: their nodes are garbage until the collection
        for _ in 0..rng.below(3) {
            let i = rng.below(pool.len() as u64) as usize;
            if pool.len() > 2 {
                let name = pool.remove(i);
                sim.emit(format!("drop {}", name));
            }
        }
        sim.emit("gc".into());
        let nops = if cfg.thorough { 6 } else { 4 };
        let mut need_cap = peak;
        for _ in 0..nops {
            // a few candidates are tried on the simulation manager (state restored afterwards);
            // the one that allocates most is taken, so that most groups have a real threshold
            let mut best: Option<(usize, (Vec<String>, String, Vec<String>))> = None;
            // connective 20 %, ite 10 %, not 5 %, quant 20 %, apply_quant 15 %, restrict 10 %, substitute 20 %
            let kind = [0u64, 0, 0, 0, 3, 3, 4, 5, 5, 5, 5, 6, 6, 6, 7, 7, 8, 8, 9, 9][rng.below(20) as usize];
            for _ in 0..(if rng.chance(1, 6) { 1 } else { 8 }) {
                let f = rng.pick(&pool).clone();
                let g = rng.pick(&pool).clone();
                let h = rng.pick(&pool).clone();
                let v1 = rng.below(n as u64) as u32;
                let v2 = rng.below(n as u64) as u32;
                let v3 = (v1 + 1) % n;
                let q = *rng.pick(&["exists", "forall", "unique"]);
                let sg = |r: &mut Rng| if r.chance(1, 2) { "+" } else { "-" };
                let cand: (Vec<String>, String, Vec<String>) = match kind {
                    0 | 1 | 2 => (vec![], format!("op r {} {} {}", rng.pick(&BIN_OPS), f, g), vec![]),
                    3 => (vec![], format!("op r ite {} {} {}", f, g, h), vec![]),
                    4 => (vec![], format!("op r not {}", f), vec![]),
                    5 => {
                        // 1..3 quantified variables (nested quantification creates garbage)
                        let mut vsv = vec![v1, v2];
                        if rng.chance(1, 2) {
                            vsv.push(v3);
                        }
                        vsv.sort();
                        vsv.dedup();
                        let lits = vsv.iter().map(|v| format!("+{}", v)).collect::<Vec<_>>().join(" ");
                        (vec![format!("cube vs {}", lits)], format!("quant r {} {} vs", q, f), vec!["drop vs".into()])
                    }
                    6 => (vec![if v1 == v2 { format!("cube vs +{}", v1) } else { format!("cube vs +{} +{}", v1.min(v2), v1.max(v2)) }], format!("applyq r {} {} {} {} vs", q, rng.pick(&BIN_OPS), f, g), vec!["drop vs".into()]),
                    7 => {
                        let (a, b) = (v1.min(v3), v1.max(v3));
                        (vec![format!("cube cs {}{} {}{}", sg(rng), a, sg(rng), b)], format!("restrict r {} cs", f), vec!["drop cs".into()])
                    }
                    8 => (vec![format!("mksubst s {}={}", v1, g)], format!("subst r {} s", f), vec!["dropsubst s".into()]),
                    _ => (vec![format!("mksubst s {}={} {}={}", v1, g, v3, h)], format!("subst r {} s", f), vec!["dropsubst s".into()]),
                };
                for p in &cand.0 {
                    sim.sc.step(p, &mut sim.ctx);
                }
                sim.sc.step("gc", &mut sim.ctx);
                let d = delta(&sim.sc.step(&cand.1, &mut sim.ctx));
                sim.sc.step("drop r", &mut sim.ctx);
                for c in &cand.2 {
                    sim.sc.step(c, &mut sim.ctx);
                }
                sim.sc.step("gc", &mut sim.ctx);
                if best.as_ref().map_or(true, |b| d > b.0) {
                    best = Some((d, cand));
                }
            }
            let (_, (prep, op, cleanup)) = best.unwrap();
            for p in &prep {
                sim.emit(p.clone());
            }
            peak = peak.max(sim.count());
            let base: usize = sim.emit("gc".into())[2..].parse().unwrap();
            // learn `needed` on the simulation manager, then restore the state
            let o = sim.sc.step(&op, &mut sim.ctx);
            let d = delta(&o);
            sim.sc.step("drop r", &mut sim.ctx);
            sim.sc.step("gc", &mut sim.ctx);
            need_cap = need_cap.max(base + d + 1);
            sim.note("begin".into());
            for j in 0..=d + 1 {
                sim.note(format!("ballast {}", j));
                sim.note(op.clone());
                sim.note("dropballast".into());
                sim.note("drop r".into());
                sim.note("gc".into());
            }
            sim.note("end".into());
            // warm probe: the operation has just been computed (its nodes are stored, the cache may
            // still know it); repeated on a completely full store it needs nothing
            if rng.chance(1, 2) {
                sim.note(op.clone());
                sim.note("ballast 0".into());
                sim.note(op.replacen(" r ", " r2 ", 1));
                sim.note("dropballast".into());
                sim.note("drop r".into());
                sim.note("drop r2".into());
                sim.note("gc".into());
            }
            for c in &cleanup {
                sim.emit(c.clone());
            }
            sim.emit("gc".into());
        }
        sim.note("nodes".into());
        let cap = need_cap.max(peak) + rng.below(3) as usize;
        // 254 ballast nodes at most; capacities of 100 and more enable the background collector
        if cap >= 100 || cap < 4 {
            if attempt > 50 * cases {
                break;
            }
            continue;
        }
        writeln!(w, "case c14t-{}", done).unwrap();
        writeln!(w, "mgr cap={} cache={} vars={}", cap, cache, nv).unwrap();
        for l in &sim.lines {
            writeln!(w, "{}", l).unwrap();
        }
        done += 1;
        std::mem::forget(sim);
    }
}

fn make(_f: &BTreeMap<String, String>) -> Box<dyn Scenario> {
    Box::new(Thr { cap: 0, capped: None, reference: None, free: None, group: None })
}

fn main() {
    harness_main(generate, make)
}
