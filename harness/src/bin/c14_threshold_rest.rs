//! C14, predicted out-of-memory thresholds for the operations `c14_threshold_kinds` leaves out:
//! streams `c14-threshold-rest-zbdd|mtbdd|tdd|bcdd` (`--kind zbdd|mtbdd|tdd|bcdd` for `gen` and
//! `run`), model protocols `c14tzv`, `c14tmv`, `c14ttv`, `c14tcv`.
//!
//! Same scenario as `c14_threshold_kinds.rs` (capped manager + 65536-slot reference manager, every
//! script replayed under every capacity, `try <operation line>` answered
//! `need=<k> free=<j> thr=<oom|ok> OOM` / `need=<k> free=<j> thr=<oom|ok> <tree> +<d>`, the same
//! oracles: `threshold-needed`, `spurious-oom`, `capacity-dependent-result`, `delta`,
//! `threshold-monotone`, `after-oom-handle`, `post-gc-count`, and for ZBDD/BCDD everything inside
//! `Bf` — truth tables, canonicity, audit). New tried forms:
//!
//! * zbdd:  `var <n> v`, `singleton <n> v` (variable creation: up to `level+1` nodes / one node) and
//!          `addvars k`: the reference manager makes the call, `need` = slots it gained; if the
//!          capped manager has fewer free slots the real `add_vars` would **abort the process**
//!          (KF-zbdd-addvars-oom): the harness does not make the call, prints
//!          `need=<k> free=<j> thr=abort abort` and stops comparing with the reference manager for
//!          the rest of the case; otherwise it makes the call and checks that exactly `need` slots
//!          were taken (`need=<k> free=<j> thr=ok <n>..<n+k> +<d>`). `skip` when the reference
//!          manager is out of step. The old forms (`op`, `union`…, `subset0`…) stay in the mix.
//! * mtbdd: `var <n> v` (one node, up to two terminals: the two capacities), `const <n> value`
//! * tdd:   `var <n> v`
//! * bcdd:  `var <n> v`, `notvar <n> v`, `op <n> not a`, `op <n> <binary> a b`, `op <n> ite a b c`
//!          (the BCDD thresholds had no `try` stream; results are checked against truth tables
//!          inside `Bf<KBcdd>`: C04)
//!
//! Generators are new (case names `thrv…`); the output of `c14_threshold_kinds` is untouched.
use oxidd::mtbdd::terminal::I64;
use oxidd::mtbdd::{MTBDDFunction, MTBDDManagerRef};
use oxidd::tdd::{TDDFunction, TDDManagerRef};
use oxidd::{Function, HasLevel, InnerNode, Manager, ManagerRef, Node, PseudoBooleanFunction, TVLFunction};
use oxidd_rules_tdd::TDDTerminal;
use oxv::bf::{Bf, Kind};
use oxv::kinds::{KBcdd, KZbdd};
use oxv::*;
use std::borrow::Borrow;
use std::collections::{BTreeMap, HashMap};
use std::io::Write;

const BIG: usize = 1 << 16;

// ------------------------------------------------------------------------------------------------
// generators

fn after_try(rng: &mut Rng, out: &mut Vec<String>, pool: &mut Vec<String>, keep: &[&str]) {
    match rng.below(6) {
        0 | 1 | 2 => out.push("gc".into()),
        3 => {
            // drop an operand: the next operation runs in a store with garbage
            let d = pool.swap_remove(rng.below(pool.len() as u64) as usize);
            if !keep.contains(&d.as_str()) {
                out.push(format!("drop {}", d));
            } else {
                pool.push(d);
            }
        }
        _ => {}
    }
}

fn script_zbdd(rng: &mut Rng, n0: u32, tries: usize) -> Vec<String> {
    let mut n = n0;
    let mut out: Vec<String> = Vec::new();
    let mut pool: Vec<String> = Vec::new();
    out.push("const cT T".into());
    out.push("zconst cB base".into());
    pool.push("cT".into());
    pool.push("cB".into());
    // few untried variables: most are created by tried lines, in stores of every shape
    for v in 0..n {
        if rng.chance(1, 4) {
            out.push(format!("var x{} {}", v, v));
            pool.push(format!("x{v}"));
        }
        if rng.chance(1, 4) {
            out.push(format!("singleton s{} {}", v, v));
            pool.push(format!("s{v}"));
        }
    }
    out.push("gc".into());
    let mut addvars = 0;
    for i in 0..tries {
        let name = format!("t{}", i);
        let a = rng.pick(&pool).clone();
        let b = rng.pick(&pool).clone();
        match rng.below(12) {
            0..=3 => {
                out.push(format!("try var {} {}", name, rng.below(n as u64)));
                pool.push(name);
            }
            4..=6 => {
                out.push(format!("try singleton {} {}", name, rng.below(n as u64)));
                pool.push(name);
            }
            7 if addvars < 2 && n < 5 => {
                let k = rng.below(3) as u32;
                out.push("gc".into());
                out.push(format!("try addvars {}", k));
                n += k;
                addvars += 1;
                continue;
            }
            7 | 8 => {
                out.push(format!("try op {} {} {} {}", name, *rng.pick(&["and", "or", "xor", "xor"]), a, b));
                pool.push(name);
            }
            9 => {
                out.push(format!("try op {} not {}", name, a));
                pool.push(name);
            }
            10 => {
                out.push(format!("try {} {} {} {}", *rng.pick(&["union", "intsec", "diff"]), name, a, b));
                pool.push(name);
            }
            _ => {
                out.push(format!("try {} {} {} {}", *rng.pick(&["subset0", "subset1", "change"]), name, a, rng.below(n as u64)));
                pool.push(name);
            }
        }
        after_try(rng, &mut out, &mut pool, &["cT", "cB"]);
    }
    out.push("gc".into());
    out.push("dropall".into());
    out.push("gc".into());
    out
}

const MT_POOL: [&str; 8] = ["0", "1", "2", "3", "-1", "5", "nan", "+inf"];
const MT_OPS: [&str; 6] = ["add", "sub", "mul", "div", "min", "max"];

fn script_mtbdd(rng: &mut Rng, n: u32, tries: usize) -> Vec<String> {
    let mut out: Vec<String> = Vec::new();
    let mut pool: Vec<String> = Vec::new();
    // constants first in half of the scripts: `var` then finds 0 / 1 stored or not
    for i in 0..rng.below(3) {
        out.push(format!("const k{} {}", i, *rng.pick(&MT_POOL)));
        pool.push(format!("k{i}"));
    }
    if rng.chance(1, 3) {
        let v = rng.below(n as u64);
        out.push(format!("var x{} {}", v, v));
        pool.push(format!("x{v}"));
    }
    out.push("gc".into());
    for i in 0..tries {
        let name = format!("t{}", i);
        let l = match rng.below(10) {
            0..=4 => format!("var {} {}", name, rng.below(n as u64)),
            5 | 6 => format!("const {} {}", name, *rng.pick(&MT_POOL)),
            7 if !pool.is_empty() => {
                let (c, a, b) = (rng.pick(&pool).clone(), rng.pick(&pool).clone(), rng.pick(&pool).clone());
                format!("ite {} {} {} {}", name, c, a, b)
            }
            _ if !pool.is_empty() => {
                let (a, b) = (rng.pick(&pool).clone(), rng.pick(&pool).clone());
                format!("op {} {} {} {}", name, *rng.pick(&MT_OPS), a, b)
            }
            _ => format!("var {} {}", name, rng.below(n as u64)),
        };
        let was_var = l.starts_with("var ");
        out.push(format!("try {}", l));
        pool.push(name);
        if was_var && rng.chance(1, 3) {
            // directly after a (possibly failed) `var`, no collection in between: which of the
            // terminals 1 / 0 the failed call left behind decides whether this line needs a slot
            out.push(format!("try const c{} {}", i, *rng.pick(&["0", "1"])));
            pool.push(format!("c{i}"));
        }
        after_try(rng, &mut out, &mut pool, &[]);
    }
    out.push("gc".into());
    out.push("dropall".into());
    out.push("gc".into());
    out
}

const TD_OPS: [&str; 8] = ["and", "or", "nand", "nor", "xor", "equiv", "imp", "imp_strict"];

fn script_tdd(rng: &mut Rng, n: u32, tries: usize) -> Vec<String> {
    let mut out: Vec<String> = Vec::new();
    let mut pool: Vec<String> = Vec::new();
    for c in ["t", "u", "f"] {
        if rng.chance(1, 2) {
            out.push(format!("const c{} {}", c, c));
            pool.push(format!("c{c}"));
        }
    }
    if rng.chance(1, 3) || pool.is_empty() {
        let v = rng.below(n as u64);
        out.push(format!("var x{} {}", v, v));
        pool.push(format!("x{v}"));
    }
    out.push("gc".into());
    for i in 0..tries {
        let name = format!("t{}", i);
        let a = rng.pick(&pool).clone();
        let b = rng.pick(&pool).clone();
        let c = rng.pick(&pool).clone();
        let l = match rng.below(10) {
            0..=5 => format!("var {} {}", name, rng.below(n as u64)),
            6 => format!("not {} {}", name, a),
            7 => format!("ite {} {} {} {}", name, c, a, b),
            _ => format!("op {} {} {} {}", name, *rng.pick(&TD_OPS), a, b),
        };
        out.push(format!("try {}", l));
        pool.push(name);
        after_try(rng, &mut out, &mut pool, &[]);
    }
    out.push("gc".into());
    out.push("dropall".into());
    out.push("gc".into());
    out
}

fn script_bcdd(rng: &mut Rng, n: u32, tries: usize) -> Vec<String> {
    let mut out: Vec<String> = Vec::new();
    let mut pool: Vec<String> = Vec::new();
    out.push("const cT T".into());
    out.push("const cF F".into());
    pool.push("cT".into());
    pool.push("cF".into());
    for v in 0..n {
        if rng.chance(1, 2) {
            out.push(format!("{} x{} {}", if rng.chance(1, 4) { "notvar" } else { "var" }, v, v));
            pool.push(format!("x{v}"));
        }
    }
    for i in 0..rng.below(3) {
        let a = rng.pick(&pool).clone();
        let b = rng.pick(&pool).clone();
        out.push(format!("op b{} {} {} {}", i, *rng.pick(&TD_OPS), a, b));
        pool.push(format!("b{i}"));
    }
    out.push("gc".into());
    for i in 0..tries {
        let name = format!("t{}", i);
        let a = rng.pick(&pool).clone();
        let b = rng.pick(&pool).clone();
        let c = rng.pick(&pool).clone();
        let l = match rng.below(12) {
            0 | 1 => format!("var {} {}", name, rng.below(n as u64)),
            2 => format!("notvar {} {}", name, rng.below(n as u64)),
            3 => format!("op {} not {}", name, a),
            4..=7 => format!("op {} ite {} {} {}", name, c, a, b),
            _ => format!("op {} {} {} {}", name, *rng.pick(&TD_OPS), a, b),
        };
        out.push(format!("try {}", l));
        pool.push(name);
        after_try(rng, &mut out, &mut pool, &["cT", "cF"]);
    }
    out.push("gc".into());
    out.push("dropall".into());
    out.push("gc".into());
    out
}

fn generate(cfg: &GenCfg, rng: &mut Rng, w: &mut dyn Write) {
    let kind = cfg.extra.get("kind").cloned().unwrap_or("zbdd".into());
    let emit = |w: &mut dyn Write, tag: &str, sc: u64, n: u32, mgr: String, lines: &[String]| {
        writeln!(w, "case thrv{}-s{}-n{}-cap{}", &kind[..1], sc, n, tag).unwrap();
        writeln!(w, "{}", mgr).unwrap();
        for l in lines {
            writeln!(w, "{}", l).unwrap();
        }
    };
    match kind.as_str() {
        "zbdd" => {
            let scripts = if cfg.thorough { 300 } else { 50 } * cfg.scale;
            for sc in 0..scripts {
                let n = 2 + (sc % 3) as u32;
                let lines = script_zbdd(rng, n, if cfg.thorough { 10 } else { 7 });
                for cap in n..=6 * n + 16 {
                    let cache = [1usize, 2, 16, 1024][((sc + cap as u64) % 4) as usize];
                    emit(w, &format!("{}-c{}", cap, cache), sc, n, format!("mgr nodes={} cache={} threads=1 vars={}", cap, cache, n), &lines);
                }
            }
        }
        "bcdd" => {
            let scripts = if cfg.thorough { 300 } else { 50 } * cfg.scale;
            for sc in 0..scripts {
                let n = 2 + (sc % 3) as u32;
                let lines = script_bcdd(rng, n, if cfg.thorough { 10 } else { 7 });
                for cap in 0..=4 * n + 12 {
                    let cache = [1usize, 2, 16, 1024][((sc + cap as u64) % 4) as usize];
                    emit(w, &format!("{}-c{}", cap, cache), sc, n, format!("mgr nodes={} cache={} threads=1 vars={}", cap, cache, n), &lines);
                }
            }
        }
        "mtbdd" => {
            let scripts = if cfg.thorough { 250 } else { 40 } * cfg.scale;
            for sc in 0..scripts {
                let n = 2 + (sc % 3) as u32;
                let lines = script_mtbdd(rng, n, if cfg.thorough { 9 } else { 6 });
                let cache = [1usize, 2, 16, 1024][(sc % 4) as usize];
                let nmax = 3 * n + 8;
                for ncap in 0..=nmax {
                    emit(w, &format!("{}x64", ncap), sc, n, format!("mgr vars={} nodes={} terms=64 cache={}", n, ncap, cache), &lines);
                }
                for tcap in 0..=10u32 {
                    emit(w, &format!("64x{}", tcap), sc, n, format!("mgr vars={} nodes=64 terms={} cache={}", n, tcap, cache), &lines);
                }
                let both = if cfg.thorough { 24 } else { 8 };
                for _ in 0..both {
                    let (a, b) = (rng.range(0, nmax as u64), rng.range(0, 7));
                    emit(w, &format!("{}x{}", a, b), sc, n, format!("mgr vars={} nodes={} terms={} cache={}", n, a, b, cache), &lines);
                }
            }
        }
        _ => {
            let scripts = if cfg.thorough { 300 } else { 50 } * cfg.scale;
            for sc in 0..scripts {
                let n = 2 + (sc % 3) as u32;
                let lines = script_tdd(rng, n, if cfg.thorough { 9 } else { 6 });
                for cap in 0..=4 * n + 12 {
                    let cache = [1usize, 2, 16, 1024][((sc + cap as u64) % 4) as usize];
                    emit(w, &format!("{}-c{}", cap, cache), sc, n, format!("mgr vars={} nodes={} cache={}", n, cap, cache), &lines);
                }
            }
        }
    }
}

// ------------------------------------------------------------------------------------------------
// one manager with its handles: the three kinds

trait Side {
    fn reset(&mut self);
    /// the `mgr` line (as generated, or with the capacities replaced by `BIG`)
    fn mgr(&mut self, line: &str, ctx: &mut Ctx) -> String;
    fn has_mgr(&self) -> bool;
    /// occupied slots per store (inner nodes[, terminals])
    fn counts(&self) -> Vec<usize>;
    /// any line other than `mgr` / `try`
    fn step(&mut self, line: &str, ctx: &mut Ctx) -> String;
    fn bound(&self, name: &str) -> bool;
    fn handles(&self) -> BTreeMap<String, String>;
    fn audit(&mut self, ctx: &mut Ctx);
    /// target name of a well-formed tried operation whose operands are bound (else `bad-op`)
    fn try_target<'a>(&self, w: &[&'a str]) -> Option<&'a str>;
    /// an operation that aborts the process instead of returning an error when slots are missing
    fn abort_op(&self, _w: &[&str]) -> bool {
        false
    }
}

fn caps_of(w: &[&str], keys: &[&str]) -> Vec<usize> {
    keys.iter().map(|k| w.iter().find_map(|x| x.strip_prefix(k)).and_then(|s| s.parse().ok()).unwrap_or(BIG)).collect()
}

// ---- ZBDD (through the shared `Bf` scenario: truth-table oracle included)

struct ZSide(Bf<KZbdd>);

impl ZSide {
    fn var_out_of_range(&self, w: &[&str]) -> bool {
        let idx = match w[0] {
            "var" | "singleton" => 2,
            "subset0" | "subset1" | "change" => 3,
            _ => return false,
        };
        w.get(idx).and_then(|s| s.parse::<u32>().ok()).map(|v| v >= self.0.n).unwrap_or(true)
    }
}

impl Side for ZSide {
    fn reset(&mut self) {
        self.0.reset();
    }
    fn mgr(&mut self, line: &str, ctx: &mut Ctx) -> String {
        let w = words(line);
        let cap = caps_of(&w, &["nodes="])[0];
        let vars = caps_of(&w, &["vars="])[0];
        if vars > cap {
            // `add_vars` would abort the process (KF-zbdd-addvars-oom)
            return "abort".into();
        }
        self.0.step(line, ctx)
    }
    fn has_mgr(&self) -> bool {
        self.0.mref.is_some()
    }
    fn counts(&self) -> Vec<usize> {
        vec![self.0.mref().with_manager_shared(|m| m.num_inner_nodes())]
    }
    fn step(&mut self, line: &str, ctx: &mut Ctx) -> String {
        let w = words(line);
        match w[0] {
            "ninner" => self.counts()[0].to_string(),
            "var" | "singleton" | "subset0" | "subset1" | "change" if self.var_out_of_range(&w) => "bad-op".into(),
            "addvars" if w.len() == 2 && w[1].parse::<u32>().is_ok() => self.0.step(line, ctx),
            "op" | "var" | "singleton" | "const" | "zconst" | "clone" | "union" | "intsec" | "diff" | "subset0" | "subset1" | "change" | "drop" | "dropall" | "show" | "eq" | "gc" => self.0.step(line, ctx),
            _ => "bad-op".into(),
        }
    }
    fn abort_op(&self, w: &[&str]) -> bool {
        w.len() == 2 && w[0] == "addvars" && w[1].parse::<u32>().is_ok()
    }
    fn bound(&self, name: &str) -> bool {
        self.0.h.contains_key(name)
    }
    fn handles(&self) -> BTreeMap<String, String> {
        self.0.h.iter().map(|(k, f)| (k.clone(), self.0.tree_of(f))).collect()
    }
    fn audit(&mut self, ctx: &mut Ctx) {
        self.0.step("audit", ctx);
    }
    fn try_target<'a>(&self, w: &[&'a str]) -> Option<&'a str> {
        let (name, ops): (&str, Vec<&str>) = match w.first().copied() {
            Some("op") if w.len() == 4 && w[2] == "not" => (w[1], vec![w[3]]),
            Some("op") if w.len() == 5 && matches!(w[2], "and" | "or" | "xor") => (w[1], vec![w[3], w[4]]),
            Some("union" | "intsec" | "diff") if w.len() == 4 => (w[1], vec![w[2], w[3]]),
            Some("subset0" | "subset1" | "change") if w.len() == 4 => (w[1], vec![w[2]]),
            Some("var" | "singleton") if w.len() == 3 => (w[1], vec![]),
            _ => return None,
        };
        if !ops.iter().all(|a| self.bound(a)) || self.var_out_of_range(w) {
            return None;
        }
        Some(name)
    }
}

// ---- BCDD (through the shared `Bf` scenario: truth-table oracle included)

struct BSide(Bf<KBcdd>);

impl Side for BSide {
    fn reset(&mut self) {
        self.0.reset();
    }
    fn mgr(&mut self, line: &str, ctx: &mut Ctx) -> String {
        self.0.step(line, ctx)
    }
    fn has_mgr(&self) -> bool {
        self.0.mref.is_some()
    }
    fn counts(&self) -> Vec<usize> {
        vec![self.0.mref().with_manager_shared(|m| m.num_inner_nodes())]
    }
    fn step(&mut self, line: &str, ctx: &mut Ctx) -> String {
        let w = words(line);
        match w[0] {
            "ninner" => self.counts()[0].to_string(),
            "var" | "notvar" if w.len() != 3 || w[2].parse::<u32>().map(|v| v >= self.0.n).unwrap_or(true) => "bad-op".into(),
            "op" | "var" | "notvar" | "const" | "clone" | "drop" | "dropall" | "show" | "eq" | "gc" => self.0.step(line, ctx),
            _ => "bad-op".into(),
        }
    }
    fn bound(&self, name: &str) -> bool {
        self.0.h.contains_key(name)
    }
    fn handles(&self) -> BTreeMap<String, String> {
        self.0.h.iter().map(|(k, f)| (k.clone(), self.0.tree_of(f))).collect()
    }
    fn audit(&mut self, ctx: &mut Ctx) {
        self.0.step("audit", ctx);
    }
    fn try_target<'a>(&self, w: &[&'a str]) -> Option<&'a str> {
        match w {
            ["var" | "notvar", h, v] if v.parse::<u32>().map(|v| v < self.0.n).unwrap_or(false) => Some(*h),
            ["op", h, "not", a] if self.bound(a) => Some(*h),
            ["op", h, "ite", a, b, c] if self.bound(a) && self.bound(b) && self.bound(c) => Some(*h),
            ["op", h, o, a, b] if TD_OPS.contains(o) && self.bound(a) && self.bound(b) => Some(*h),
            _ => None,
        }
    }
}

// ---- MTBDD over I64 (two capacities)

fn mt_tok(t: &I64) -> String {
    match t {
        I64::NaN => "nan".into(),
        I64::MinusInf => "-inf".into(),
        I64::PlusInf => "+inf".into(),
        I64::Num(n) => n.to_string(),
    }
}

fn mt_parse(s: &str) -> Option<I64> {
    match s {
        "nan" => Some(I64::NaN),
        "-inf" => Some(I64::MinusInf),
        "+inf" => Some(I64::PlusInf),
        _ if s.starts_with('+') => None,
        _ => s.parse::<i64>().ok().map(I64::Num),
    }
}

fn mt_tree<M>(m: &M, e: &M::Edge) -> String
where
    M: Manager<Terminal = I64>,
    M::InnerNode: HasLevel,
{
    match m.get_node(e) {
        Node::Inner(n) => format!("(v{} {} {})", m.level_to_var(n.level()), mt_tree(m, &n.child(0)), mt_tree(m, &n.child(1))),
        Node::Terminal(t) => format!("#{}", mt_tok(t.borrow())),
    }
}

fn mt_zero_one<M>(m: &M, e: &M::Edge) -> bool
where
    M: Manager<Terminal = I64>,
    M::InnerNode: HasLevel,
{
    match m.get_node(e) {
        Node::Inner(n) => mt_zero_one(m, &n.child(0)) && mt_zero_one(m, &n.child(1)),
        Node::Terminal(t) => matches!(t.borrow(), I64::Num(0) | I64::Num(1)),
    }
}

#[derive(Default)]
struct MSide {
    // field order: handles are dropped before the manager
    hs: HashMap<String, MTBDDFunction<I64>>,
    mref: Option<MTBDDManagerRef<I64>>,
    n: u32,
}

impl MSide {
    fn put<E>(&mut self, name: &str, r: Result<MTBDDFunction<I64>, E>) -> String {
        match r {
            Ok(f) => {
                let t = f.with_manager_shared(|m, e| mt_tree(m, e));
                self.hs.insert(name.to_string(), f);
                t
            }
            Err(_) => "OOM".into(),
        }
    }
}

impl Side for MSide {
    fn reset(&mut self) {
        self.hs.clear();
        self.mref = None;
        self.n = 0;
    }
    fn mgr(&mut self, line: &str, _ctx: &mut Ctx) -> String {
        let w = words(line);
        let c = caps_of(&w, &["nodes=", "terms=", "vars=", "cache="]);
        self.reset();
        self.n = if c[2] == BIG { 0 } else { c[2] as u32 };
        let mref = oxidd::mtbdd::new_manager::<I64>(c[0], c[1], if c[3] == BIG { 1024 } else { c[3] }, 1);
        let n = self.n;
        mref.with_manager_exclusive(|m| {
            m.add_vars(n);
        });
        self.mref = Some(mref);
        "ok".into()
    }
    fn has_mgr(&self) -> bool {
        self.mref.is_some()
    }
    fn counts(&self) -> Vec<usize> {
        self.mref.as_ref().unwrap().with_manager_shared(|m| vec![m.num_inner_nodes(), m.num_terminals()])
    }
    fn step(&mut self, line: &str, _ctx: &mut Ctx) -> String {
        let w = words(line);
        let mref = self.mref.clone().unwrap();
        match w.as_slice() {
            ["const", h, v] => match mt_parse(v) {
                Some(t) => {
                    let r = mref.with_manager_shared(|m| MTBDDFunction::constant(m, t));
                    self.put(h, r)
                }
                None => "bad-op".into(),
            },
            ["var", h, v] => match v.parse::<u32>() {
                Ok(v) if v < self.n => {
                    let r = mref.with_manager_shared(|m| MTBDDFunction::<I64>::var(m, v));
                    self.put(h, r)
                }
                Ok(_) => "err range".into(),
                Err(_) => "bad-op".into(),
            },
            ["op", h, o, a, b] => {
                if !MT_OPS.contains(o) {
                    return "bad-op".into();
                }
                let (f, g) = match (self.hs.get(*a), self.hs.get(*b)) {
                    (Some(f), Some(g)) => (f.clone(), g.clone()),
                    _ => return "err handle".into(),
                };
                let r = match *o {
                    "add" => f.add(&g),
                    "sub" => f.sub(&g),
                    "mul" => f.mul(&g),
                    "div" => f.div(&g),
                    "min" => PseudoBooleanFunction::min(&f, &g),
                    _ => PseudoBooleanFunction::max(&f, &g),
                };
                self.put(h, r)
            }
            ["ite", h, c, a, b] => {
                let (fc, fa, fb) = match (self.hs.get(*c), self.hs.get(*a), self.hs.get(*b)) {
                    (Some(x), Some(y), Some(z)) => (x.clone(), y.clone(), z.clone()),
                    _ => return "err handle".into(),
                };
                if !fc.with_manager_shared(|m, e| mt_zero_one(m, e)) {
                    return "err precond".into();
                }
                let r = fc.ite(&fa, &fb);
                self.put(h, r)
            }
            ["clone", h, a] => match self.hs.get(*a).cloned() {
                Some(f) => {
                    self.hs.insert(h.to_string(), f);
                    "ok".into()
                }
                None => "err handle".into(),
            },
            ["drop", a] => {
                if self.hs.remove(*a).is_some() {
                    "ok".into()
                } else {
                    "err handle".into()
                }
            }
            ["dropall"] => {
                self.hs.clear();
                "ok".into()
            }
            ["gc"] => {
                mref.with_manager_shared(|m| m.gc());
                let c = self.counts();
                format!("{} {}", c[0], c[1])
            }
            ["ninner"] => self.counts()[0].to_string(),
            ["nterms"] => self.counts()[1].to_string(),
            ["show", a] => match self.hs.get(*a) {
                Some(f) => f.with_manager_shared(|m, e| mt_tree(m, e)),
                None => "err handle".into(),
            },
            _ => "bad-op".into(),
        }
    }
    fn bound(&self, name: &str) -> bool {
        self.hs.contains_key(name)
    }
    fn handles(&self) -> BTreeMap<String, String> {
        self.hs.iter().map(|(k, f)| (k.clone(), f.with_manager_shared(|m, e| mt_tree(m, e)))).collect()
    }
    fn audit(&mut self, _ctx: &mut Ctx) {}
    fn try_target<'a>(&self, w: &[&'a str]) -> Option<&'a str> {
        match w {
            ["var", h, v] if v.parse::<u32>().map(|v| v < self.n).unwrap_or(false) => Some(*h),
            ["const", h, v] if mt_parse(v).is_some() => Some(*h),
            ["op", h, o, a, b] if MT_OPS.contains(o) && self.bound(a) && self.bound(b) => Some(*h),
            ["ite", h, c, a, b] if self.bound(c) && self.bound(a) && self.bound(b) => {
                if self.hs[*c].with_manager_shared(|m, e| mt_zero_one(m, e)) {
                    Some(*h)
                } else {
                    None
                }
            }
            _ => None,
        }
    }
}

// ---- TDD

fn td_tree<M>(m: &M, e: &M::Edge) -> String
where
    M: Manager<Terminal = TDDTerminal>,
    M::InnerNode: HasLevel,
{
    match m.get_node(e) {
        Node::Inner(n) => format!("(v{} {} {} {})", m.level_to_var(n.level()), td_tree(m, &n.child(0)), td_tree(m, &n.child(1)), td_tree(m, &n.child(2))),
        Node::Terminal(t) => match t.borrow() {
            TDDTerminal::False => "F".into(),
            TDDTerminal::Unknown => "U".into(),
            TDDTerminal::True => "T".into(),
        },
    }
}

#[derive(Default)]
struct TSide {
    hs: HashMap<String, TDDFunction>,
    mref: Option<TDDManagerRef>,
    n: u32,
}

impl TSide {
    fn put<E>(&mut self, name: &str, r: Result<TDDFunction, E>) -> String {
        match r {
            Ok(f) => {
                let t = f.with_manager_shared(|m, e| td_tree(m, e));
                self.hs.insert(name.to_string(), f);
                t
            }
            Err(_) => "OOM".into(),
        }
    }
}

impl Side for TSide {
    fn reset(&mut self) {
        self.hs.clear();
        self.mref = None;
        self.n = 0;
    }
    fn mgr(&mut self, line: &str, _ctx: &mut Ctx) -> String {
        let w = words(line);
        let c = caps_of(&w, &["nodes=", "vars=", "cache="]);
        self.reset();
        self.n = if c[1] == BIG { 0 } else { c[1] as u32 };
        let mref = oxidd::tdd::new_manager(c[0], if c[2] == BIG { 1024 } else { c[2] }, 1);
        let n = self.n;
        mref.with_manager_exclusive(|m| {
            m.add_vars(n);
        });
        self.mref = Some(mref);
        "ok".into()
    }
    fn has_mgr(&self) -> bool {
        self.mref.is_some()
    }
    fn counts(&self) -> Vec<usize> {
        vec![self.mref.as_ref().unwrap().with_manager_shared(|m| m.num_inner_nodes())]
    }
    fn step(&mut self, line: &str, _ctx: &mut Ctx) -> String {
        let w = words(line);
        let mref = self.mref.clone().unwrap();
        match w.as_slice() {
            ["const", h, v] => {
                if !["t", "u", "f"].contains(v) {
                    return "bad-op".into();
                }
                let f = mref.with_manager_shared(|m| match *v {
                    "t" => TDDFunction::t(m),
                    "u" => TDDFunction::u(m),
                    _ => TDDFunction::f(m),
                });
                self.put::<()>(h, Ok(f))
            }
            ["var", h, v] => match v.parse::<u32>() {
                Ok(v) if v < self.n => {
                    let r = mref.with_manager_shared(|m| TDDFunction::var(m, v));
                    self.put(h, r)
                }
                Ok(_) => "err range".into(),
                Err(_) => "bad-op".into(),
            },
            ["not", h, a] => match self.hs.get(*a).cloned() {
                Some(f) => {
                    let r = f.not();
                    self.put(h, r)
                }
                None => "err handle".into(),
            },
            ["op", h, o, a, b] => {
                if !TD_OPS.contains(o) {
                    return "bad-op".into();
                }
                let (f, g) = match (self.hs.get(*a), self.hs.get(*b)) {
                    (Some(f), Some(g)) => (f.clone(), g.clone()),
                    _ => return "err handle".into(),
                };
                let r = match *o {
                    "and" => f.and(&g),
                    "or" => f.or(&g),
                    "nand" => f.nand(&g),
                    "nor" => f.nor(&g),
                    "xor" => f.xor(&g),
                    "equiv" => f.equiv(&g),
                    "imp" => f.imp(&g),
                    _ => f.imp_strict(&g),
                };
                self.put(h, r)
            }
            ["ite", h, c, a, b] => {
                let (fc, fa, fb) = match (self.hs.get(*c), self.hs.get(*a), self.hs.get(*b)) {
                    (Some(x), Some(y), Some(z)) => (x.clone(), y.clone(), z.clone()),
                    _ => return "err handle".into(),
                };
                let r = fc.ite(&fa, &fb);
                self.put(h, r)
            }
            ["clone", h, a] => match self.hs.get(*a).cloned() {
                Some(f) => {
                    self.hs.insert(h.to_string(), f);
                    "ok".into()
                }
                None => "err handle".into(),
            },
            ["drop", a] => {
                if self.hs.remove(*a).is_some() {
                    "ok".into()
                } else {
                    "err handle".into()
                }
            }
            ["dropall"] => {
                self.hs.clear();
                "ok".into()
            }
            ["gc"] => {
                mref.with_manager_shared(|m| m.gc());
                self.counts()[0].to_string()
            }
            ["ninner"] => self.counts()[0].to_string(),
            ["show", a] => match self.hs.get(*a) {
                Some(f) => f.with_manager_shared(|m, e| td_tree(m, e)),
                None => "err handle".into(),
            },
            _ => "bad-op".into(),
        }
    }
    fn bound(&self, name: &str) -> bool {
        self.hs.contains_key(name)
    }
    fn handles(&self) -> BTreeMap<String, String> {
        self.hs.iter().map(|(k, f)| (k.clone(), f.with_manager_shared(|m, e| td_tree(m, e)))).collect()
    }
    fn audit(&mut self, _ctx: &mut Ctx) {}
    fn try_target<'a>(&self, w: &[&'a str]) -> Option<&'a str> {
        match w {
            ["var", h, v] if v.parse::<u32>().map(|v| v < self.n).unwrap_or(false) => Some(*h),
            ["not", h, a] if self.bound(a) => Some(*h),
            ["op", h, o, a, b] if TD_OPS.contains(o) && self.bound(a) && self.bound(b) => Some(*h),
            ["ite", h, c, a, b] if self.bound(c) && self.bound(a) && self.bound(b) => Some(*h),
            _ => None,
        }
    }
}

// ------------------------------------------------------------------------------------------------
// the scenario: capped manager + reference manager

struct Thr<S: Side> {
    capped: S,
    refm: S,
    cap_keys: Vec<&'static str>,
    caps: Vec<usize>,
    hard: bool,
    soft: bool,
    /// no garbage: no `drop` and no failed `try` since the last `gc`
    clean: bool,
    /// (script, tried operation line, handles with their trees) -> capacities that succeeded, tree
    mono: HashMap<(String, String, String), Vec<(Vec<usize>, String)>>,
}

/// `thrz-s3-n2-cap7-c16` -> `thrz-s3-n2`
fn group_of(case: &str) -> String {
    match case.find("-cap") {
        Some(i) => case[..i].to_string(),
        None => case.to_string(),
    }
}

fn commas(v: &[usize]) -> String {
    v.iter().map(|x| x.to_string()).collect::<Vec<_>>().join(",")
}

impl<S: Side> Scenario for Thr<S> {
    fn reset(&mut self) {
        self.capped.reset();
        self.refm.reset();
        self.caps.clear();
        self.hard = false;
        self.soft = false;
        self.clean = false;
    }

    fn step(&mut self, line: &str, ctx: &mut Ctx) -> String {
        let w = words(line);
        match w[0] {
            "mgr" => {
                self.caps = caps_of(&w, &self.cap_keys);
                self.soft = false;
                self.clean = true;
                let out = self.capped.mgr(line, ctx);
                self.hard = out != "ok";
                if !self.hard {
                    let big: Vec<String> = w
                        .iter()
                        .map(|x| {
                            if self.cap_keys.iter().any(|k| x.starts_with(k)) {
                                format!("{}={}", x.split('=').next().unwrap(), BIG)
                            } else if x.starts_with("cache=") {
                                "cache=1024".into()
                            } else {
                                x.to_string()
                            }
                        })
                        .collect();
                    self.refm.mgr(&big.join(" "), ctx);
                }
                out
            }
            "try" if w.len() > 1 && self.capped.has_mgr() && self.capped.abort_op(&w[1..]) => {
                // an operation that aborts the process when slots are missing (`add_vars`)
                if self.hard || self.soft {
                    return "skip".into();
                }
                let opline = w[1..].join(" ");
                let r0 = self.refm.counts();
                let ref_out = self.refm.step(&opline, ctx);
                let need: Vec<usize> = self.refm.counts().iter().zip(&r0).map(|(a, b)| a - b).collect();
                let c0 = self.capped.counts();
                let free: Vec<usize> = self.caps.iter().zip(&c0).map(|(c, n)| c - n).collect();
                let short = need.iter().zip(&free).any(|(k, j)| *k > 0 && j < k);
                ctx.count(&format!("try_abortop_need_{}", commas(&need)));
                if short {
                    // the real call would abort the process (KF-zbdd-addvars-oom): not made
                    ctx.count("try_abortop_would_abort");
                    self.hard = true;
                    return format!("need={} free={} thr=abort abort", commas(&need), commas(&free));
                }
                ctx.count("try_abortop_ok");
                let out = self.capped.step(&opline, ctx);
                let c1 = self.capped.counts();
                let delta: Vec<usize> = c1.iter().zip(&c0).map(|(a, b)| a - b).collect();
                if out != ref_out {
                    ctx.fail("capacity-dependent-result", &format!("`{}` gives {} but {} in the reference manager", opline, out, ref_out));
                }
                if delta != need {
                    ctx.fail("delta", &format!("`{}` took {} slots but {} in the reference manager", opline, commas(&delta), commas(&need)));
                }
                let (a, b) = (self.capped.handles(), self.refm.handles());
                if a != b {
                    ctx.fail("after-addvars-handle", &format!("after `{}` the handles are {:?} but {:?} in the reference manager", opline, a, b));
                }
                self.clean = false;
                format!("need={} free={} thr=ok {} +{}", commas(&need), commas(&free), out, commas(&delta))
            }
            "try" => {
                let rest = &w[1..];
                if !self.capped.has_mgr() {
                    return "bad-op".into();
                }
                let name = match self.capped.try_target(rest) {
                    Some(n) if !self.capped.bound(n) => n,
                    _ => return "bad-op".into(),
                };
                let synced = !self.hard && !self.soft;
                let opline = rest.join(" ");
                // the reference manager: how many slots does the operation take?
                let mut need: Option<Vec<usize>> = None;
                let mut ref_tree = String::new();
                let mut state = String::new();
                if !self.hard {
                    if synced && self.clean {
                        state = format!("{:?}", self.refm.handles());
                    }
                    let r0 = self.refm.counts();
                    ref_tree = self.refm.step(&opline, ctx);
                    if synced {
                        need = Some(self.refm.counts().iter().zip(&r0).map(|(a, b)| a - b).collect());
                    }
                }
                let c0 = self.capped.counts();
                let free: Vec<usize> = self.caps.iter().zip(&c0).map(|(c, n)| c - n).collect();
                let out = self.capped.step(&opline, ctx);
                let c1 = self.capped.counts();
                let delta: Vec<usize> = c1.iter().zip(&c0).map(|(a, b)| a - b).collect();
                let oom = out == "OOM";
                let pre = format!("need={} free={} thr={}", need.as_ref().map(|k| commas(k)).unwrap_or("?".into()), commas(&free), if oom { "oom" } else { "ok" });
                ctx.count(if oom { "try_oom" } else { "try_ok" });
                if let Some(k) = &need {
                    ctx.count(&format!("try_need_{}", commas(&k.iter().map(|x| *x.min(&6)).collect::<Vec<_>>())));
                    let short: Vec<bool> = k.iter().zip(&free).map(|(k, j)| *k > 0 && j < k).collect();
                    let should_fail = short.iter().any(|b| *b);
                    if should_fail != oom {
                        ctx.fail("threshold-needed", &format!("`{}` with {} free slots: the reference manager takes {} slots, but the capped manager {}", opline, commas(&free), commas(k), if oom { "reports OutOfMemory" } else { "succeeds" }));
                    }
                    if oom {
                        ctx.count(&format!("try_oom_short_in_store_{}", short.iter().map(|b| if *b { "1" } else { "0" }).collect::<Vec<_>>().join("")));
                    }
                    // monotonicity over the capacities of one script
                    if !state.is_empty() {
                        let key = (group_of(&ctx.case), opline.clone(), state);
                        let seen = self.mono.entry(key).or_default();
                        for (c, t) in seen.iter() {
                            if c.iter().zip(&self.caps).all(|(a, b)| a <= b) {
                                ctx.count("monotone_checked");
                                if oom {
                                    ctx.fail("threshold-monotone", &format!("`{}` succeeded with capacity {} but fails with capacity {}", opline, commas(c), commas(&self.caps)));
                                } else if *t != out {
                                    ctx.fail("capacity-dependent-result", &format!("`{}` gives {} with capacity {} but {} with capacity {}", opline, t, commas(c), out, commas(&self.caps)));
                                }
                                break;
                            }
                        }
                        if !oom && seen.len() < 64 {
                            seen.push((self.caps.clone(), out.clone()));
                        }
                    }
                }
                if oom {
                    if !c1.iter().zip(&self.caps).any(|(n, c)| n == c) {
                        ctx.fail("spurious-oom", &format!("`{}` reports OutOfMemory but {} of {} slots are used", opline, commas(&c1), commas(&self.caps)));
                    }
                    if self.capped.bound(name) {
                        ctx.fail("after-oom-handle", &format!("`{}` failed but {} is bound", opline, name));
                    }
                    // the reference manager must forget the result as well
                    if !self.hard {
                        self.refm.step(&format!("drop {}", name), ctx);
                    }
                    self.capped.audit(ctx);
                    if !self.hard {
                        let (a, b) = (self.capped.handles(), self.refm.handles());
                        if a != b {
                            ctx.fail("after-oom-handle", &format!("after the failed `{}` the handles are {:?} but {:?} in the reference manager", opline, a, b));
                        }
                    }
                    self.soft = true;
                    self.clean = false;
                    format!("{} OOM", pre)
                } else {
                    if !self.hard {
                        if out != ref_tree {
                            ctx.fail("capacity-dependent-result", &format!("`{}` gives {} but {} in the reference manager", opline, out, ref_tree));
                        }
                        if let Some(k) = &need {
                            if delta != *k {
                                ctx.fail("delta", &format!("`{}` took {} slots but {} in the reference manager", opline, commas(&delta), commas(k)));
                            }
                        }
                    }
                    format!("{} {} +{}", pre, out, commas(&delta))
                }
            }
            _ => {
                if !self.capped.has_mgr() {
                    return "bad-op".into();
                }
                let out = self.capped.step(line, ctx);
                if !self.hard {
                    let r = self.refm.step(line, ctx);
                    if w[0] == "gc" && r != out {
                        ctx.fail("post-gc-count", &format!("after gc the capped manager holds {} nodes, the reference manager {}", out, r));
                    }
                }
                match w[0] {
                    "gc" => {
                        self.soft = false;
                        self.clean = true;
                    }
                    "drop" | "dropall" => self.clean = false,
                    _ => {}
                }
                if out == "OOM" || out == "abort" {
                    ctx.count("untried_oom");
                    self.hard = true;
                }
                out
            }
        }
    }
}

fn make(f: &BTreeMap<String, String>) -> Box<dyn Scenario> {
    fn thr<S: Side + 'static>(capped: S, refm: S, keys: Vec<&'static str>) -> Box<dyn Scenario> {
        Box::new(Thr { capped, refm, cap_keys: keys, caps: vec![], hard: false, soft: false, clean: false, mono: HashMap::new() })
    }
    match f.get("kind").map(|s| s.as_str()).unwrap_or("zbdd") {
        "mtbdd" => thr(MSide::default(), MSide::default(), vec!["nodes=", "terms="]),
        "tdd" => thr(TSide::default(), TSide::default(), vec!["nodes="]),
        "bcdd" => thr(BSide(Bf::<KBcdd>::new(f)), BSide(Bf::<KBcdd>::new(f)), vec!["nodes="]),
        _ => thr(ZSide(Bf::<KZbdd>::new(f)), ZSide(Bf::<KZbdd>::new(f)), vec!["nodes="]),
    }
}

fn main() {
    let _ = <KZbdd as Kind>::NAME;
    harness_main(generate, make)
}
