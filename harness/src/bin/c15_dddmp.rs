//! C15 — DDDMP export/import round trip, codec correspondence with the Lean model, malformed input.
//!
//! Protocol `dddmp` (one output line per operation line):
//! ```text
//! mgr kind=<bdd|bcdd|zbdd|mtbdd|tdd> nvars=<n> order=<l2v,..|-> names=<hex|_,..|->    -> ok
//! fn <name> <spec>                                                                   -> ok
//! export ascii=<0|1> ver=<2|3> strict=<0|1> dd=<hex|_> named=<0|1> roots=<f[:hex|:_],..|-> ;
//!        nterm=<k> termT=<0|1> terms=<hex,..|-> nodes=<lvl:c1:c2[:c3],..|-> rootids=<i,..|->      -> <ok|err> <hex file>
//! import kind=<k> cmpl=<not|id> nvars=<n> order=<l2v|-> file=<hex>                   -> ok <hdr> | <tree>.. / err:* / panic:* / reject:*
//! ```
//! Oracle-only operations (stream `dddmp_fuzz`, no model): `truncall ...`, `fuzz ...` (see `step`).
#![allow(clippy::type_complexity)]

use oxidd::bcdd::BCDDFunction;
use oxidd::bdd::BDDFunction;
use oxidd::mtbdd::MTBDDFunction;
use oxidd::mtbdd::terminal::I64;
use oxidd::tdd::TDDFunction;
use oxidd::zbdd::ZBDDFunction;
use oxidd::{
    BooleanFunction, Edge, Function, HasLevel, InnerNode, Manager, ManagerRef, Node, PseudoBooleanFunction,
    TVLFunction,
};
use oxidd_dump::AsciiDisplay;
use oxidd_dump::dddmp::{self, DDDMPVersion, DumpHeader, ExportSettings};
use oxv::*;
use std::collections::{BTreeMap, BTreeSet};
use std::fmt;
use std::io::{self, Write};
use std::panic::{AssertUnwindSafe, catch_unwind};

// ------------------------------------------------------------------------------------------------
// small helpers

fn to_hex(b: &[u8]) -> String {
    const H: &[u8; 16] = b"0123456789abcdef";
    let mut s = String::with_capacity(b.len() * 2);
    for &c in b {
        s.push(H[(c >> 4) as usize] as char);
        s.push(H[(c & 15) as usize] as char);
    }
    s
}
fn from_hex(s: &str) -> Option<Vec<u8>> {
    let b = s.as_bytes();
    if b.len() % 2 != 0 {
        return None;
    }
    let v = |c: u8| match c {
        b'0'..=b'9' => Some(c - b'0'),
        b'a'..=b'f' => Some(c - b'a' + 10),
        _ => None,
    };
    let mut o = Vec::with_capacity(b.len() / 2);
    for p in b.chunks(2) {
        o.push(v(p[0])? * 16 + v(p[1])?);
    }
    Some(o)
}
fn hex_name(s: &[u8]) -> String {
    if s.is_empty() { "_".into() } else { to_hex(s) }
}
fn from_hex_name(s: &str) -> Option<Vec<u8>> {
    if s == "_" { Some(Vec::new()) } else { from_hex(s) }
}
fn kv<'a>(ws: &[&'a str], key: &str) -> Option<&'a str> {
    ws.iter().find_map(|w| w.strip_prefix(key).and_then(|r| r.strip_prefix('=')))
}
fn split_comma(s: &str) -> Vec<&str> {
    if s == "-" { Vec::new() } else { s.split(',').collect() }
}
fn comma<T: fmt::Display>(xs: &[T]) -> String {
    if xs.is_empty() {
        "-".into()
    } else {
        xs.iter().map(|x| x.to_string()).collect::<Vec<_>>().join(",")
    }
}
fn panic_msg(e: Box<dyn std::any::Any + Send>) -> String {
    if let Some(s) = e.downcast_ref::<String>() {
        s.clone()
    } else if let Some(s) = e.downcast_ref::<&str>() {
        s.to_string()
    } else {
        "?".into()
    }
}
/// stable signature of an importer panic
fn panic_sig(msg: &str) -> &'static str {
    if msg.contains("index out of bounds") {
        "import-panic-index-oob"
    } else if msg.contains("subtract with overflow") {
        "import-panic-sub-overflow"
    } else if msg.contains("could not find the T terminal") {
        "import-panic-no-T-terminal"
    } else if msg.contains("capacity overflow") {
        "import-panic-capacity-overflow"
    } else if msg.contains("check_level") {
        "import-panic-level-assert"
    } else {
        "import-panic"
    }
}

struct Asc<'a, T>(&'a T);
impl<T: AsciiDisplay> fmt::Display for Asc<'_, T> {
    fn fmt(&self, f: &mut fmt::Formatter<'_>) -> fmt::Result {
        self.0.fmt(f)
    }
}

#[derive(Clone, Debug)]
struct ExpSettings {
    ascii: bool,
    v3: bool,
    strict: bool,
    dd: String,
}

#[derive(Clone, Debug, Default)]
struct MgrInfo {
    nvars: u32,
    names: Vec<String>,
    v2l: Vec<u32>,
    l2v: Vec<u32>,
    nterm: usize,
}

/// structured view of a diagram in export order (what the model exporter consumes)
#[derive(Clone, Debug, Default, PartialEq)]
struct SView {
    terms: Vec<String>,
    nodes: Vec<(u32, Vec<i64>)>,
    rootids: Vec<i64>,
}

#[derive(Clone, Copy, PartialEq)]
enum Rule {
    /// children pairwise different is not required, only "not all equal" (BDD, MTBDD: t != e; TDD)
    NotAllEqual,
    Bcdd,
    Zbdd,
}

// ------------------------------------------------------------------------------------------------
// generic walks over a manager

/// unfolded tree with variable numbers, `~` marks a complemented edge
fn tree_str<M: Manager>(m: &M, e: &M::Edge, out: &mut String)
where
    M::InnerNode: HasLevel,
    M::Terminal: AsciiDisplay,
{
    if e.tag() != Default::default() {
        out.push('~');
    }
    match m.get_node(e) {
        Node::Inner(n) => {
            out.push_str(&format!("(v{}", m.level_to_var(n.level())));
            for c in n.children() {
                out.push(' ');
                tree_str(m, &c, out);
            }
            out.push(')');
        }
        Node::Terminal(t) => {
            use std::borrow::Borrow;
            out.push_str(&Asc::<M::Terminal>(t.borrow()).to_string());
        }
    }
}

fn support_levels<M: Manager>(m: &M, e: &M::Edge, seen: &mut BTreeSet<oxidd::NodeID>, levels: &mut BTreeSet<u32>)
where
    M::InnerNode: HasLevel,
{
    if let Node::Inner(n) = m.get_node(e) {
        if !seen.insert(e.node_id()) {
            return;
        }
        levels.insert(n.level());
        for c in n.children() {
            support_levels(m, &c, seen, levels);
        }
    }
}

/// structural sanity of a diagram: ordered and reduced w.r.t. the kind's rule
fn check_sane<M: Manager>(m: &M, e: &M::Edge, rule: Rule, seen: &mut BTreeSet<oxidd::NodeID>) -> Result<(), String>
where
    M::InnerNode: HasLevel,
    M::Terminal: AsciiDisplay,
{
    if let Node::Inner(n) = m.get_node(e) {
        if !seen.insert(e.node_id()) {
            return Ok(());
        }
        let lvl = n.level();
        if lvl >= m.num_levels() {
            return Err(format!("level {lvl} out of range"));
        }
        let mut strs = Vec::new();
        for (i, c) in n.children().enumerate() {
            if m.get_node(&c).level() <= lvl {
                return Err(format!("child level {} <= node level {lvl}", m.get_node(&c).level()));
            }
            let mut s = String::new();
            tree_str(m, &c, &mut s);
            if rule == Rule::Bcdd && i == 0 && c.tag() != Default::default() {
                return Err("complemented then-edge".into());
            }
            if rule == Rule::Zbdd && i == 0 && s == "E" {
                return Err("hi edge to the empty set".into());
            }
            strs.push(s);
        }
        if rule != Rule::Zbdd && strs.iter().all(|s| *s == strs[0]) {
            return Err("all children equal".into());
        }
        for c in n.children() {
            check_sane(m, &c, rule, seen)?;
        }
    }
    Ok(())
}

fn mgr_info<M: Manager>(m: &M) -> MgrInfo {
    let nvars = m.num_vars();
    MgrInfo {
        nvars,
        names: (0..nvars).map(|v| m.var_name(v).to_string()).collect(),
        v2l: (0..nvars).map(|v| m.var_to_level(v)).collect(),
        l2v: (0..nvars).map(|l| m.level_to_var(l)).collect(),
        nterm: m.num_terminals(),
    }
}

// ------------------------------------------------------------------------------------------------
// per-kind operations on concrete function types

trait KindF: Function + Clone + PartialEq + 'static {
    const KIND: &'static str;
    const CAN_IMPORT: bool;
    fn new_mref(nvars: u32) -> Self::ManagerRef;
    fn build(mref: &Self::ManagerRef, nvars: u32, spec: &str) -> Option<Self>;
    /// value table over all assignments of `nvars` variables (empty if not available)
    fn table(&self, nvars: u32) -> String;
    fn export(
        mref: &Self::ManagerRef,
        roots: &[(&Self, String)],
        named: bool,
        st: &ExpSettings,
    ) -> (Vec<u8>, io::Result<()>);
    fn info(mref: &Self::ManagerRef) -> MgrInfo;
    /// fresh manager with `nvars` variables (named if `names` is given) and the given order
    fn make(nvars: u32, l2v: &[u32], names: Option<&[String]>) -> Option<Self::ManagerRef>;
    fn tree(&self) -> String;
    fn supp_levels(mref: &Self::ManagerRef, roots: &[&Self]) -> Vec<u32>;
    fn sane(&self) -> Result<(), String>;
    /// `dddmp::import` with `support_vars`; `not`: pass `not_edge_owned` as complement, else identity
    fn import(
        mref: &Self::ManagerRef,
        rd: &mut &[u8],
        header: &DumpHeader,
        support_vars: &[u32],
        not: bool,
    ) -> io::Result<Vec<Self>>;
}

/// inner node capacity of a scenario manager
fn node_capacity(nvars: u32) -> usize {
    if nvars <= 12 { 1 << 16 } else { 1 << 22 }
}

fn parse_tt(spec: &str, nvars: u32) -> Option<Vec<bool>> {
    let h = spec.strip_prefix("tt=")?;
    let n = 1usize << nvars;
    let mut bits = Vec::with_capacity(n);
    for c in h.chars() {
        let v = c.to_digit(16)?;
        for k in 0..4 {
            bits.push((v >> k) & 1 != 0);
        }
    }
    if bits.len() < n {
        return None;
    }
    bits.truncate(n);
    Some(bits)
}

fn build_bool<F: BooleanFunction>(mref: &F::ManagerRef, nvars: u32, spec: &str) -> Option<F> {
    let tt = parse_tt(spec, nvars)?;
    mref.with_manager_shared(|manager| {
        let vars: Vec<F> = (0..nvars).map(|v| F::var(manager, v).unwrap()).collect();
        fn rec<'id, F: BooleanFunction>(m: &F::Manager<'id>, vars: &[F], tt: &[bool], v: usize, base: usize) -> F {
            if v == 0 {
                return if tt[base] { F::t(m) } else { F::f(m) };
            }
            // split on the highest variable first: sub-tables are contiguous
            let half = 1usize << (v - 1);
            let lo = rec(m, vars, tt, v - 1, base);
            let hi = rec(m, vars, tt, v - 1, base + half);
            if lo == hi {
                return lo;
            }
            vars[v - 1].ite(&hi, &lo).unwrap()
        }
        Some(rec(manager, &vars, &tt, nvars as usize, 0))
    })
}

fn table_bool<F: BooleanFunction>(f: &F, nvars: u32) -> String {
    if nvars > 12 {
        return String::new();
    }
    (0..1u32 << nvars)
        .map(|a| if f.eval((0..nvars).map(|v| (v, (a >> v) & 1 != 0))) { '1' } else { '0' })
        .collect()
}

fn parse_i64_term(s: &str) -> Option<I64> {
    Some(match s {
        "NaN" => I64::NaN,
        "+Inf" => I64::PlusInf,
        "-Inf" => I64::MinusInf,
        _ => I64::Num(s.parse().ok()?),
    })
}

macro_rules! common_kind_fns {
    ($rule:expr) => {
        fn export(
            mref: &Self::ManagerRef,
            roots: &[(&Self, String)],
            named: bool,
            st: &ExpSettings,
        ) -> (Vec<u8>, io::Result<()>) {
            let mut out = Vec::new();
            let r = mref.with_manager_shared(|manager| {
                let s = ExportSettings::default()
                    .version(if st.v3 { DDDMPVersion::V3_0 } else { DDDMPVersion::V2_0 })
                    .strict(st.strict)
                    .diagram_name(&st.dd);
                let s = if st.ascii { s.ascii() } else { s.binary() };
                if named {
                    s.export_with_names(&mut out, manager, roots.iter().map(|(f, n)| (*f, n.as_str())))
                } else {
                    s.export(&mut out, manager, roots.iter().map(|(f, _)| *f))
                }
            });
            (out, r)
        }
        fn info(mref: &Self::ManagerRef) -> MgrInfo {
            mref.with_manager_shared(|manager| mgr_info(manager))
        }
        fn make(nvars: u32, l2v: &[u32], names: Option<&[String]>) -> Option<Self::ManagerRef> {
            let mref = Self::new_mref(nvars);
            let ok = mref.with_manager_exclusive(|m| {
                match names {
                    Some(ns) => {
                        if m.add_named_vars(ns.iter().cloned()).is_err() {
                            return false;
                        }
                    }
                    None => {
                        m.add_vars(nvars);
                    }
                }
                if m.num_vars() != nvars {
                    return false;
                }
                if !l2v.is_empty() {
                    oxidd_reorder::set_var_order(m, l2v);
                }
                true
            });
            ok.then_some(mref)
        }
        fn tree(&self) -> String {
            self.with_manager_shared(|manager, e| {
                let mut s = String::new();
                tree_str(manager, e, &mut s);
                s
            })
        }
        fn supp_levels(mref: &Self::ManagerRef, roots: &[&Self]) -> Vec<u32> {
            mref.with_manager_shared(|manager| {
                let mut seen = BTreeSet::new();
                let mut lv = BTreeSet::new();
                for r in roots {
                    support_levels(manager, r.as_edge(manager), &mut seen, &mut lv);
                }
                lv.into_iter().collect()
            })
        }
        fn sane(&self) -> Result<(), String> {
            self.with_manager_shared(|manager, e| check_sane(manager, e, $rule, &mut BTreeSet::new()))
        }
    };
}

macro_rules! bool_kind {
    ($ty:ty, $name:expr, $rule:expr, $new:expr) => {
        impl KindF for $ty {
            const KIND: &'static str = $name;
            const CAN_IMPORT: bool = true;
            fn new_mref(nvars: u32) -> Self::ManagerRef {
                let cap = node_capacity(nvars);
                $new(cap, 1 << 12, 1)
            }
            fn build(mref: &Self::ManagerRef, nvars: u32, spec: &str) -> Option<Self> {
                build_bool::<$ty>(mref, nvars, spec)
            }
            fn table(&self, nvars: u32) -> String {
                table_bool(self, nvars)
            }
            common_kind_fns!($rule);
            fn import(
                mref: &Self::ManagerRef,
                rd: &mut &[u8],
                header: &DumpHeader,
                support_vars: &[u32],
                not: bool,
            ) -> io::Result<Vec<Self>> {
                mref.with_manager_shared(|manager| {
                    if not {
                        dddmp::import::<$ty>(rd, header, manager, support_vars.iter().copied(), <$ty>::not_edge_owned)
                    } else {
                        dddmp::import::<$ty>(rd, header, manager, support_vars.iter().copied(), |_, e| Ok(e))
                    }
                })
            }
        }
    };
}

bool_kind!(BDDFunction, "bdd", Rule::NotAllEqual, oxidd::bdd::new_manager);
bool_kind!(BCDDFunction, "bcdd", Rule::Bcdd, oxidd::bcdd::new_manager);
bool_kind!(ZBDDFunction, "zbdd", Rule::Zbdd, oxidd::zbdd::new_manager);

type MT = MTBDDFunction<I64>;
impl KindF for MT {
    const KIND: &'static str = "mtbdd";
    const CAN_IMPORT: bool = true;
    fn new_mref(nvars: u32) -> Self::ManagerRef {
        oxidd::mtbdd::new_manager::<I64>(node_capacity(nvars), 1 << 10, 1 << 12, 1)
    }
    fn build(mref: &Self::ManagerRef, nvars: u32, spec: &str) -> Option<Self> {
        let vals: Vec<I64> = spec.strip_prefix("vals=")?.split(',').map(parse_i64_term).collect::<Option<_>>()?;
        if vals.len() != 1usize << nvars {
            return None;
        }
        mref.with_manager_shared(|manager| {
            if vals.iter().all(|v| *v == vals[0]) {
                // constant: do not create any other terminal
                return Some(MT::constant(manager, vals[0]).unwrap());
            }
            let vars: Vec<MT> = (0..nvars).map(|v| MT::var(manager, v).unwrap()).collect();
            fn rec<'id>(
                m: &<MT as Function>::Manager<'id>,
                vars: &[MT],
                vals: &[I64],
                v: usize,
                base: usize,
            ) -> MT {
                if v == 0 {
                    return MT::constant(m, vals[base]).unwrap();
                }
                let half = 1usize << (v - 1);
                let lo = rec(m, vars, vals, v - 1, base);
                let hi = rec(m, vars, vals, v - 1, base + half);
                if lo == hi {
                    return lo;
                }
                vars[v - 1].ite(&hi, &lo).unwrap()
            }
            Some(rec(manager, &vars, &vals, nvars as usize, 0))
        })
    }
    fn table(&self, nvars: u32) -> String {
        if nvars > 12 {
            return String::new();
        }
        (0..1u32 << nvars)
            .map(|a| Asc(&self.eval((0..nvars).map(|v| (v, (a >> v) & 1 != 0)))).to_string())
            .collect::<Vec<_>>()
            .join(",")
    }
    common_kind_fns!(Rule::NotAllEqual);
    fn import(
        mref: &Self::ManagerRef,
        rd: &mut &[u8],
        header: &DumpHeader,
        support_vars: &[u32],
        _not: bool,
    ) -> io::Result<Vec<Self>> {
        mref.with_manager_shared(|manager| {
            dddmp::import::<MT>(rd, header, manager, support_vars.iter().copied(), |_, e| Ok(e))
        })
    }
}

impl KindF for TDDFunction {
    const KIND: &'static str = "tdd";
    const CAN_IMPORT: bool = false;
    fn new_mref(nvars: u32) -> Self::ManagerRef {
        oxidd::tdd::new_manager(node_capacity(nvars), 1 << 12, 1)
    }
    /// `tv=<digits>`: one digit (0 = F, 1 = T, 2 = U) per Boolean assignment; Shannon expansion with
    /// the ternary `ite`
    fn build(mref: &Self::ManagerRef, nvars: u32, spec: &str) -> Option<Self> {
        let vals: Vec<u8> = spec.strip_prefix("tv=")?.bytes().map(|b| b.wrapping_sub(b'0')).collect();
        if vals.len() != 1usize << nvars || vals.iter().any(|&v| v > 2) {
            return None;
        }
        mref.with_manager_shared(|manager| {
            let vars: Vec<TDDFunction> = (0..nvars).map(|v| TDDFunction::var(manager, v).unwrap()).collect();
            fn rec<'id>(
                m: &<TDDFunction as Function>::Manager<'id>,
                vars: &[TDDFunction],
                vals: &[u8],
                v: usize,
                base: usize,
            ) -> TDDFunction {
                if v == 0 {
                    return match vals[base] {
                        0 => TDDFunction::f(m),
                        1 => TDDFunction::t(m),
                        _ => TDDFunction::u(m),
                    };
                }
                let half = 1usize << (v - 1);
                let lo = rec(m, vars, vals, v - 1, base);
                let hi = rec(m, vars, vals, v - 1, base + half);
                if lo == hi {
                    return lo;
                }
                vars[v - 1].ite(&hi, &lo).unwrap()
            }
            Some(rec(manager, &vars, &vals, nvars as usize, 0))
        })
    }
    fn table(&self, _nvars: u32) -> String {
        String::new()
    }
    common_kind_fns!(Rule::NotAllEqual);
    fn import(
        _mref: &Self::ManagerRef,
        _rd: &mut &[u8],
        _header: &DumpHeader,
        _support_vars: &[u32],
        _not: bool,
    ) -> io::Result<Vec<Self>> {
        Err(io::Error::other("the importer only supports binary nodes"))
    }
}

// ------------------------------------------------------------------------------------------------
// manager life time
//
// Before /repo bfc0a3c a manager dropped before its GC thread first reached `wait` was never
// released (lost wakeup: two threads and its address space stayed). Scenario managers are
// retired into a list that is emptied only after a short pause; harmless now, and it keeps the
// scenario usable on a tree without that fix.

thread_local! {
    static GRAVEYARD: std::cell::RefCell<Vec<Box<dyn std::any::Any>>> = const { std::cell::RefCell::new(Vec::new()) };
}

fn bury() {
    let n = GRAVEYARD.with(|g| g.borrow().len());
    if n != 0 {
        std::thread::sleep(std::time::Duration::from_millis(3));
        let dead = GRAVEYARD.with(|g| std::mem::take(&mut *g.borrow_mut()));
        drop(dead);
    }
}

fn retire<T: 'static>(x: T) {
    let n = GRAVEYARD.with(|g| {
        g.borrow_mut().push(Box::new(x));
        g.borrow().len()
    });
    if n >= 128 {
        bury();
    }
}

/// a manager that is retired instead of dropped
struct Mgr<F: KindF>(Option<F::ManagerRef>);

impl<F: KindF> Mgr<F> {
    fn new(nvars: u32, l2v: &[u32], names: Option<&[String]>) -> Option<Self> {
        F::make(nvars, l2v, names).map(|m| Mgr(Some(m)))
    }
}
impl<F: KindF> std::ops::Deref for Mgr<F> {
    type Target = F::ManagerRef;
    fn deref(&self) -> &F::ManagerRef {
        self.0.as_ref().unwrap()
    }
}
impl<F: KindF> Drop for Mgr<F> {
    fn drop(&mut self) {
        if let Some(m) = self.0.take() {
            retire(m);
        }
    }
}

// ------------------------------------------------------------------------------------------------
// a manager with named functions

struct World<F: KindF> {
    mref: Mgr<F>,
    funcs: Vec<(String, F)>,
}

#[derive(Clone, Debug)]
struct RootSpec {
    func: String,
    /// `None`: no name given on the line (`export`), `Some`: the name passed to `export_with_names`
    name: Option<Vec<u8>>,
}

/// header accessors in the canonical text form shared with the model
fn hdr_str(h: &DumpHeader, ascii: bool) -> String {
    let names = match h.var_names() {
        None => "-".to_string(),
        Some(ns) => ns.iter().map(|n| hex_name(n.as_bytes())).collect::<Vec<_>>().join(","),
    };
    let rootnames = match h.root_names() {
        None => "-".to_string(),
        Some(ns) => ns.iter().map(|n| hex_name(n.as_bytes())).collect::<Vec<_>>().join(","),
    };
    format!(
        "mode={} nnodes={} nvars={} ids={} permids={} svo={} names={} rootnames={} dd={}",
        if ascii { "A" } else { "B" },
        h.num_nodes(),
        h.num_vars(),
        comma(h.support_vars()),
        comma(h.support_var_to_level()),
        comma(h.support_var_order()),
        names,
        rootnames,
        hex_name(h.diagram_name().unwrap_or("").as_bytes())
    )
}

fn file_mode_is_ascii(file: &[u8]) -> bool {
    // last `.mode` line before `.nodes` decides; only used for printing
    let mut ascii = true;
    for l in file.split(|&b| b == b'\n') {
        if l.starts_with(b".nodes") {
            break;
        }
        if l.starts_with(b".mode") {
            let v: Vec<u8> = l[5..].iter().copied().filter(|b| *b != b' ' && *b != b'\t' && *b != b'\r').collect();
            if v == b"B" {
                ascii = false
            } else if v == b"A" {
                ascii = true
            }
        }
    }
    ascii
}

enum ImpOut<F> {
    LoadErr,
    LoadPanic(String),
    Reject(&'static str),
    ImpErr,
    ImpPanic(String),
    Ok { hdr: String, roots: Vec<F> },
}

impl<F> ImpOut<F> {
    fn token(&self) -> String {
        match self {
            ImpOut::LoadErr => "err:load".into(),
            ImpOut::LoadPanic(_) => "panic:load".into(),
            ImpOut::Reject(w) => format!("reject:{w}"),
            ImpOut::ImpErr => "err:import".into(),
            ImpOut::ImpPanic(_) => "panic:import".into(),
            ImpOut::Ok { .. } => "ok".into(),
        }
    }
}

/// load the header and import into `mref`; `support`: `None` = `header.support_var_order()`
fn import_into<F: KindF>(mref: &F::ManagerRef, file: &[u8], not: bool, check_caller: bool) -> ImpOut<F> {
    let mut rd: &[u8] = file;
    let header = match catch_unwind(AssertUnwindSafe(|| DumpHeader::load(&mut rd))) {
        Err(e) => return ImpOut::LoadPanic(panic_msg(e)),
        Ok(Err(_)) => return ImpOut::LoadErr,
        Ok(Ok(h)) => h,
    };
    let info = F::info(mref);
    let support: Vec<u32> = header.support_var_order().to_vec();
    if check_caller {
        // obligations of the caller of `import` (its two `assert!`s and `var_to_level`)
        if header.support_vars().iter().any(|&v| v >= info.nvars) {
            return ImpOut::Reject("vars");
        }
        let lv: Vec<u32> = support.iter().map(|&v| info.v2l[v as usize]).collect();
        if !lv.windows(2).all(|w| w[0] < w[1]) {
            return ImpOut::Reject("order");
        }
    }
    let ascii = file_mode_is_ascii(file);
    match catch_unwind(AssertUnwindSafe(|| F::import(mref, &mut rd, &header, &support, not))) {
        Err(e) => ImpOut::ImpPanic(panic_msg(e)),
        Ok(Err(_)) => ImpOut::ImpErr,
        Ok(Ok(roots)) => ImpOut::Ok { hdr: hdr_str(&header, ascii), roots },
    }
}

/// parse the node section of an ASCII file written by the real exporter (harness-side reader,
/// independent of the importer): terminals, inner nodes `(var_idx, children)` and `.rootids`
fn parse_ascii_struct(file: &[u8]) -> Option<(Vec<String>, Vec<(u32, Vec<i64>)>, Vec<i64>)> {
    let text = std::str::from_utf8(file).ok()?;
    let mut in_nodes = false;
    let mut terms = Vec::new();
    let mut nodes = Vec::new();
    let mut rootids = Vec::new();
    for l in text.split('\n') {
        if !in_nodes {
            if let Some(r) = l.strip_prefix(".rootids") {
                rootids = r.split_ascii_whitespace().map(|x| x.parse().ok()).collect::<Option<_>>()?;
            }
            if l == ".nodes" {
                in_nodes = true;
            }
            continue;
        }
        if l == ".end" {
            break;
        }
        let w: Vec<&str> = l.split(' ').collect();
        if w.len() < 4 {
            return None;
        }
        let id: usize = w[0].parse().ok()?;
        if id != terms.len() + nodes.len() + 1 {
            return None;
        }
        let ch: Vec<i64> = w[2..].iter().map(|x| x.parse().ok()).collect::<Option<_>>()?;
        if ch.iter().all(|&c| c == 0) {
            if !nodes.is_empty() {
                return None;
            }
            terms.push(w[1].to_string());
        } else {
            nodes.push((w[1].parse().ok()?, ch));
        }
    }
    Some((terms, nodes, rootids))
}

/// unfold the structured view into tree strings (same format as `tree_str`)
fn sview_trees(sv: &SView, l2v: &[u32]) -> Vec<String> {
    let mut strs: Vec<String> = sv.terms.clone();
    for (lvl, ch) in &sv.nodes {
        let mut s = format!("(v{}", l2v.get(*lvl as usize).copied().unwrap_or(u32::MAX));
        for &c in ch {
            s.push(' ');
            if c < 0 {
                s.push('~');
            }
            s.push_str(strs.get(c.unsigned_abs() as usize - 1).map(|x| x.as_str()).unwrap_or("?"));
        }
        s.push(')');
        strs.push(s);
    }
    sv.rootids
        .iter()
        .map(|&r| {
            let t = strs.get(r.unsigned_abs() as usize - 1).cloned().unwrap_or("?".into());
            if r < 0 { format!("~{t}") } else { t }
        })
        .collect()
}

fn is_ctl_or_space(b: u8) -> bool {
    b.is_ascii_control() || b == b' '
}

impl<F: KindF> World<F> {
    fn get(&self, name: &str) -> Option<&F> {
        self.funcs.iter().find(|(n, _)| n == name).map(|(_, f)| f)
    }

    fn roots<'a>(&'a self, specs: &[RootSpec]) -> Option<Vec<(&'a F, String)>> {
        specs
            .iter()
            .map(|r| {
                let f = self.get(&r.func)?;
                let n = String::from_utf8(r.name.clone().unwrap_or_default()).ok()?;
                Some((f, n))
            })
            .collect()
    }

    /// the structured view of the diagram reachable from `specs` in the exporter's node order
    /// (taken from an ASCII export of the same roots; levels from the harness's own walk)
    fn sview(&self, specs: &[RootSpec]) -> Option<SView> {
        let roots = self.roots(specs)?;
        let st = ExpSettings { ascii: true, v3: false, strict: false, dd: String::new() };
        let (file, _) = F::export(&self.mref, &roots, false, &st);
        let (terms, nodes, rootids) = parse_ascii_struct(&file)?;
        let fs: Vec<&F> = roots.iter().map(|(f, _)| *f).collect();
        let lv = F::supp_levels(&self.mref, &fs);
        let nodes = nodes
            .into_iter()
            .map(|(vi, ch)| lv.get(vi as usize).map(|&l| (l, ch)))
            .collect::<Option<Vec<_>>>()?;
        Some(SView { terms, nodes, rootids })
    }
}

// ------------------------------------------------------------------------------------------------
// mutations of valid files

/// (start of the node section, start of the final `.end` line)
fn nodes_region(file: &[u8]) -> (usize, usize) {
    let pat = b"\n.nodes\n";
    let start = file.windows(pat.len()).position(|w| w == pat).map(|p| p + pat.len()).unwrap_or(file.len());
    let end = if file.ends_with(b".end\n") { file.len() - 5 } else { file.len() };
    (start.min(end), end)
}

fn line_starts(file: &[u8]) -> Vec<usize> {
    let mut v = vec![0];
    for (i, &b) in file.iter().enumerate() {
        if b == b'\n' && i + 1 < file.len() {
            v.push(i + 1);
        }
    }
    v
}

/// one seeded mutation; with `safe` the text part only receives bytes < 0x80 (so that the
/// importer's lossy UTF-8 conversion of names is the identity on what the model sees)
fn mutate(file: &[u8], rng: &mut Rng, safe: bool) -> (Vec<u8>, String) {
    let (ns, ne) = nodes_region(file);
    let binary = !file_mode_is_ascii(file);
    let mut f = file.to_vec();
    if f.is_empty() {
        return (f, "empty".into());
    }
    let text_byte = |rng: &mut Rng, pos: usize| -> u8 {
        let in_bin = binary && pos >= ns && pos < ne;
        if in_bin || !safe { rng.below(256) as u8 } else { rng.below(128) as u8 }
    };
    // lines that are text (all lines in ASCII mode, header and `.end` in binary mode)
    let starts: Vec<usize> = line_starts(file).into_iter().filter(|&s| !binary || s < ns || s >= ne).collect();
    let line_end = |s: usize| file[s..].iter().position(|&b| b == b'\n').map(|p| s + p + 1).unwrap_or(file.len());
    match rng.below(12) {
        0 => {
            let p = rng.below(f.len() as u64) as usize;
            f.truncate(p);
            (f, format!("trunc@{p}"))
        }
        1 => {
            let p = rng.below(f.len() as u64) as usize;
            let in_bin = binary && p >= ns && p < ne;
            let k = if in_bin || !safe { rng.below(8) } else { rng.below(7) };
            f[p] ^= 1 << k;
            (f, format!("flip@{p}.{k}"))
        }
        2 => {
            let p = rng.below(f.len() as u64) as usize;
            f[p] = text_byte(rng, p);
            (f, format!("set@{p}"))
        }
        3 => {
            let p = rng.below(f.len() as u64) as usize;
            f.remove(p);
            (f, format!("del@{p}"))
        }
        4 => {
            let p = rng.below(f.len() as u64 + 1) as usize;
            let b = text_byte(rng, p.min(f.len() - 1));
            f.insert(p, b);
            (f, format!("ins@{p}"))
        }
        5 => {
            let s = *rng.pick(&starts);
            let e = line_end(s);
            let l = file[s..e].to_vec();
            let at = *rng.pick(&starts);
            f.splice(at..at, l);
            (f, format!("dupline@{s}->{at}"))
        }
        6 => {
            let s = *rng.pick(&starts);
            let e = line_end(s);
            f.drain(s..e);
            (f, format!("delline@{s}"))
        }
        7 | 8 => {
            // numeric tweak
            let cands: Vec<usize> = starts.iter().copied().filter(|&s| file[s..line_end(s)].iter().any(|b| b.is_ascii_digit())).collect();
            if cands.is_empty() {
                return (f, "none".into());
            }
            let s = *rng.pick(&cands);
            let e = line_end(s);
            let l = &file[s..e];
            let key: Vec<u8> = l.iter().copied().take_while(|b| *b != b' ' && *b != b'\n').collect();
            // digit runs (skip the digits inside the key itself, e.g. ".ver DDDMP-2.0" is kept as a candidate)
            let mut runs = Vec::new();
            let mut i = 0;
            while i < l.len() {
                if l[i].is_ascii_digit() {
                    let st = i;
                    while i < l.len() && l[i].is_ascii_digit() {
                        i += 1;
                    }
                    runs.push((st, i));
                } else {
                    i += 1;
                }
            }
            let (a, b) = *rng.pick(&runs);
            let v: u128 = std::str::from_utf8(&l[a..b]).unwrap().parse().unwrap_or(0);
            let small = [v + 1, v.saturating_sub(1), 0, v + 2];
            let mid = [v + 1, v.saturating_sub(1), 0, 2 * v + 1, 4294967295, 4294967296, 1 << 63];
            // since fix 178db83 no capacity is taken from these counts (before: capacity overflow panic
            // from 2^61 on, allocation abort of the whole process below that)
            let huge = [v + 1, v.saturating_sub(1), 0, 1 << 40, 1 << 61, 1 << 63, u64::MAX as u128, 1 << 64];
            let nv = match key.as_slice() {
                b".nvars" | b".nsuppvars" => *rng.pick(&small),
                b".nnodes" | b".nroots" => *rng.pick(&huge),
                _ => *rng.pick(&mid),
            };
            f.splice(s + a..s + b, nv.to_string().into_bytes());
            (f, format!("num@{}:{}->{}", s + a, v, nv))
        }
        9 => {
            if starts.len() < 2 {
                return (f, "none".into());
            }
            let k = rng.below(starts.len() as u64 - 1) as usize;
            let (s1, s2) = (starts[k], starts[k + 1]);
            let (e1, e2) = (line_end(s1), line_end(s2));
            if e1 != s2 {
                return (f, "none".into());
            }
            let mut n = file[..s1].to_vec();
            n.extend_from_slice(&file[s2..e2]);
            n.extend_from_slice(&file[s1..e1]);
            n.extend_from_slice(&file[e2..]);
            (n, format!("swaplines@{s1}"))
        }
        10 => {
            if binary && ne > ns {
                // replace a byte of the node section by an "interesting" one
                let p = ns + rng.below((ne - ns) as u64) as usize;
                let vals = [0u8, 1, 2, 3, 4, 0x0a, 0x0d, 0x1a, 0x60, 0x7f, 0x40, 0x20, 0x24, 0xff, 0x80, 0x6c];
                f[p] = *rng.pick(&vals);
                (f, format!("binset@{p}"))
            } else {
                // toggle a sign in the text
                let p = rng.below(f.len() as u64) as usize;
                if f[p] == b'-' {
                    f.remove(p);
                } else if f[p] == b' ' {
                    f.insert(p + 1, b'-');
                }
                (f, format!("sign@{p}"))
            }
        }
        _ => {
            // flip the mode line
            let pat = if binary { b".mode B" } else { b".mode A" };
            if let Some(p) = file.windows(7).position(|w| w == pat) {
                f[p + 6] = if binary { b'A' } else { b'B' };
            }
            (f, "modeflip".into())
        }
    }
}

// ------------------------------------------------------------------------------------------------
// steps on the real code, with the property-level oracles

fn sanitized(n: &[u8]) -> Vec<u8> {
    n.iter().map(|&b| if is_ctl_or_space(b) { b'_' } else { b }).collect()
}

/// import like `oxidd-cli`: fresh manager with `header.num_vars()` variables, support variables
/// ordered as in the file
fn import_cli_style<F: KindF>(file: &[u8], not: bool) -> (ImpOut<F>, Option<Mgr<F>>) {
    let mut rd: &[u8] = file;
    let header = match catch_unwind(AssertUnwindSafe(|| DumpHeader::load(&mut rd))) {
        Err(e) => return (ImpOut::LoadPanic(panic_msg(e)), None),
        Ok(Err(_)) => return (ImpOut::LoadErr, None),
        Ok(Ok(h)) => h,
    };
    if header.num_vars() > 4096 {
        return (ImpOut::Reject("nvars"), None);
    }
    let names: Option<Vec<String>> = header.var_names().map(|n| n.to_vec());
    // names are only used if they are accepted by the manager (unique)
    let mref = match Mgr::<F>::new(header.num_vars(), header.support_var_order(), names.as_deref()) {
        Some(m) => m,
        None => match Mgr::<F>::new(header.num_vars(), header.support_var_order(), None) {
            Some(m) => m,
            None => return (ImpOut::Reject("manager"), None),
        },
    };
    let out = import_into::<F>(&mref, file, not, false);
    (out, Some(mref))
}

/// oracles on an accepted (possibly mutated) file: ordered + reduced, and re-export / re-import
/// in the same manager gives the same handles
fn check_imported<F: KindF>(mref: &F::ManagerRef, roots: &[F], ctx: &mut Ctx, what: &str) {
    for r in roots {
        if let Err(e) = r.sane() {
            ctx.fail("import-unsane", &format!("{what}: imported diagram is not ordered/reduced: {e}"));
            return;
        }
    }
    let rs: Vec<(&F, String)> = roots.iter().map(|f| (f, String::new())).collect();
    let st = ExpSettings { ascii: true, v3: false, strict: false, dd: String::new() };
    let (file, res) = F::export(mref, &rs, false, &st);
    if res.is_err() {
        ctx.fail("import-unstable", &format!("{what}: re-export of imported roots failed"));
        return;
    }
    match import_into::<F>(mref, &file, true, false) {
        ImpOut::Ok { roots: again, .. } => {
            if again.len() != roots.len() || again.iter().zip(roots).any(|(a, b)| a != b) {
                ctx.fail("import-unstable", &format!("{what}: re-export/re-import changes the handles"));
            }
        }
        o => ctx.fail("import-unstable", &format!("{what}: re-import of a re-export gives {}", o.token())),
    }
}

thread_local! {
    static REPORTED: std::cell::RefCell<BTreeMap<(String, &'static str), u32>> = const { std::cell::RefCell::new(BTreeMap::new()) };
}

/// an importer panic is an oracle failure; at most three reports per case and signature
fn report_panic(ctx: &mut Ctx, what: &str, msg: &str) {
    let sig = panic_sig(msg);
    ctx.count(&format!("panics-{sig}"));
    let n = REPORTED.with(|r| {
        let mut r = r.borrow_mut();
        let e = r.entry((ctx.case.clone(), sig)).or_insert(0);
        *e += 1;
        *e
    });
    if n <= 3 {
        ctx.fail(sig, &format!("{what}: importer panicked: {msg}"));
    }
}

trait DynWorld {
    fn define(&mut self, name: &str, spec: &str) -> bool;
    fn info(&self) -> MgrInfo;
    fn sview_of(&self, specs: &[RootSpec]) -> Option<SView>;
    fn export_bytes(&self, st: &ExpSettings, specs: &[RootSpec], named: bool) -> Option<(Vec<u8>, bool)>;
    fn export_step(&self, st: &ExpSettings, specs: &[RootSpec], named: bool, line_sv: Option<&SView>, ctx: &mut Ctx)
    -> String;
    fn truncall(&self, st: &ExpSettings, specs: &[RootSpec], ctx: &mut Ctx) -> String;
    fn fuzz(&self, st: &ExpSettings, specs: &[RootSpec], seed: u64, n: u64, ctx: &mut Ctx) -> String;
}

impl<F: KindF> World<F> {
    fn orig_trees(&self, specs: &[RootSpec]) -> Vec<String> {
        specs.iter().map(|r| self.get(&r.func).map(|f| f.tree()).unwrap_or_default()).collect()
    }

    fn export_oracles(&self, st: &ExpSettings, specs: &[RootSpec], named: bool, file: &[u8], reported_err: bool, ctx: &mut Ctx) {
        let info = F::info(&self.mref);
        let roots = self.roots(specs).unwrap();
        let fs: Vec<&F> = roots.iter().map(|(f, _)| *f).collect();
        let trees: Vec<String> = fs.iter().map(|f| f.tree()).collect();
        let what = format!(
            "export kind={} ascii={} v3={} strict={} named={}",
            F::KIND, st.ascii, st.v3, st.strict, named
        );
        // --- header
        let mut rd: &[u8] = file;
        let header = match catch_unwind(AssertUnwindSafe(|| DumpHeader::load(&mut rd))) {
            Err(e) => return report_panic(ctx, &what, &panic_msg(e)),
            Ok(Err(e)) => {
                if !reported_err {
                    ctx.fail("export-not-accepted", &format!("{what}: header of a file written without error is rejected: {e}"));
                } else {
                    ctx.count("strict-error-file-rejected");
                }
                return;
            }
            Ok(Ok(h)) => h,
        };
        let lv = F::supp_levels(&self.mref, &fs);
        let mut supp_vars: Vec<u32> = lv.iter().map(|&l| info.l2v[l as usize]).collect();
        let order: Vec<u32> = supp_vars.clone();
        supp_vars.sort();
        let permids: Vec<u32> = supp_vars.iter().map(|&v| info.v2l[v as usize]).collect();
        if header.num_vars() != info.nvars
            || header.support_vars() != supp_vars
            || header.support_var_to_level() != permids
            || header.support_var_order() != order
            || header.num_roots() != specs.len()
            || header.num_support_vars() as usize != supp_vars.len()
        {
            ctx.fail("metadata-support-order", &format!("{what}: nvars/support/order/roots in the header differ from the manager: {header:?}"));
        }
        // --- variable names
        let all_named = info.names.iter().all(|n| !n.is_empty());
        let any_named = info.names.iter().any(|n| !n.is_empty());
        let expect_names = if st.strict { all_named } else { any_named };
        let needs = |n: &str| n.bytes().any(is_ctl_or_space);
        match header.var_names() {
            None => {
                if expect_names && info.nvars > 0 {
                    ctx.fail("metadata-names", &format!("{what}: variable names missing from the file"));
                }
            }
            Some(hn) => {
                if !expect_names {
                    ctx.fail("metadata-names", &format!("{what}: variable names exported although not all variables are named (strict)"));
                }
                let mut seen = BTreeSet::new();
                for (i, n) in hn.iter().enumerate() {
                    if n.is_empty() || n.bytes().any(is_ctl_or_space) {
                        ctx.fail("metadata-names", &format!("{what}: exported name {n:?} of variable {i} is empty or has a space/control character"));
                    }
                    if !seen.insert(n.clone()) {
                        ctx.fail("names-not-unique", &format!("{what}: exported variable name {n:?} occurs twice ({hn:?}; manager names {:?})", info.names));
                    }
                }
                // per variable (format 2.0 only identifies the support variables)
                for (i, orig) in info.names.iter().enumerate() {
                    if !st.v3 && !supp_vars.contains(&(i as u32)) {
                        continue;
                    }
                    let got = hn.get(i).cloned().unwrap_or_default();
                    let san = String::from_utf8(sanitized(orig.as_bytes())).unwrap();
                    let ok = if orig.is_empty() {
                        let t = got.trim_start_matches('_');
                        got.starts_with('_') && t == format!("x{i}")
                    } else if !needs(orig) {
                        got == *orig
                    } else {
                        got == san || (got.starts_with('_') && got.trim_start_matches('_') == format!("x{i}_{san}"))
                    };
                    if !ok {
                        ctx.fail("metadata-names", &format!("{what}: variable {i} named {orig:?} is exported as {got:?}"));
                    }
                }
                if !st.v3 {
                    // the non-support names keep their multiset
                    let mut a: Vec<&String> = hn.iter().collect();
                    a.sort();
                    a.dedup();
                    if a.len() != hn.len() {
                        ctx.count("v2-names-multiset-dups");
                    }
                }
            }
        }
        // --- root names
        let exp_roots: Option<Vec<String>> = if named && !specs.is_empty() {
            Some(
                specs
                    .iter()
                    .enumerate()
                    .map(|(i, r)| {
                        let n = r.name.clone().unwrap_or_default();
                        if n.is_empty() { format!("_f{i}") } else { String::from_utf8(sanitized(&n)).unwrap() }
                    })
                    .collect(),
            )
        } else {
            None
        };
        if header.root_names().map(|x| x.to_vec()) != exp_roots {
            ctx.fail("metadata-rootnames", &format!("{what}: root names {:?}, expected {:?}", header.root_names(), exp_roots));
        }
        // --- strict-mode reporting
        let dd_ctl = st.dd.bytes().any(|b| b.is_ascii_control());
        let names_need = expect_names && info.names.iter().any(|n| needs(n));
        let roots_need = named && specs.iter().any(|r| r.name.as_ref().map(|n| n.is_empty() || n.iter().any(|&b| is_ctl_or_space(b))).unwrap_or(true));
        let should_err = st.strict && (dd_ctl || names_need || roots_need);
        if should_err != reported_err {
            ctx.fail("strict-report", &format!("{what}: strict-mode error reported = {reported_err}, expected {should_err}"));
        }
        if reported_err {
            ctx.count("export-strict-error");
        }
        let dd_exp: String = st.dd.chars().map(|c| if c.is_ascii_control() { ' ' } else { c }).collect();
        if header.diagram_name().unwrap_or("") != dd_exp.trim_matches(|c| c == ' ' || c == '\t') {
            ctx.fail("metadata-dd", &format!("{what}: diagram name {:?} vs {:?}", header.diagram_name(), st.dd));
        } else if header.diagram_name().unwrap_or("") != dd_exp {
            ctx.count("dd-name-trimmed");
        }
        if !F::CAN_IMPORT {
            ctx.count("export-only-kind");
            return;
        }
        if F::KIND == "mtbdd" && !file_mode_is_ascii(file) {
            // known finding: `binary_supported()` only looks at the current number of terminals
            ctx.fail(
                "binary-export-loses-constant",
                &format!("{what}: an MTBDD manager holding a single terminal is exported in binary mode without an error; the file does not contain the terminal's value and the importer rejects it"),
            );
            return;
        }
        // --- same manager: handles equal
        match import_into::<F>(&self.mref, file, true, false) {
            ImpOut::Ok { roots: got, .. } => {
                if got.len() != fs.len() || got.iter().zip(&fs).any(|(a, b)| a != *b) {
                    ctx.fail("import-same-neq", &format!("{what}: importing into the same manager gives different handles"));
                }
                ctx.count("roundtrip-same-ok");
            }
            ImpOut::ImpPanic(m) | ImpOut::LoadPanic(m) => report_panic(ctx, &format!("{what} (same manager)"), &m),
            o => {
                if !reported_err {
                    ctx.fail("export-not-accepted", &format!("{what}: file written without error is not accepted ({})", o.token()));
                }
            }
        }
        // --- fresh manager (as the CLI does it): same functions, names from the header accepted
        if let Some(hn) = header.var_names() {
            if Mgr::<F>::new(header.num_vars(), &[], Some(hn)).is_none() {
                ctx.fail("fresh-names-rejected", &format!("{what}: a fresh manager does not accept the exported variable names {hn:?} (manager names {:?})", info.names));
            }
        }
        let (out, fresh) = import_cli_style::<F>(file, true);
        match out {
            ImpOut::Ok { roots: got, .. } => {
                let gt: Vec<String> = got.iter().map(|f| f.tree()).collect();
                let tb_o: Vec<String> = fs.iter().map(|f| f.table(info.nvars)).collect();
                let tb_g: Vec<String> = got.iter().map(|f| f.table(info.nvars)).collect();
                if gt != trees || tb_o != tb_g {
                    ctx.fail("import-fresh-differs", &format!("{what}: functions imported into a fresh manager differ: {gt:?} vs {trees:?}"));
                }
                if let Some(m) = &fresh {
                    let fi = F::info(m);
                    let lv2: Vec<u32> = header.support_var_order().iter().map(|&v| fi.v2l[v as usize]).collect();
                    if !lv2.windows(2).all(|w| w[0] < w[1]) {
                        ctx.fail("import-fresh-differs", &format!("{what}: fresh manager order incompatible"));
                    }
                }
                ctx.count("roundtrip-fresh-ok");
            }
            ImpOut::ImpPanic(m) | ImpOut::LoadPanic(m) => report_panic(ctx, &format!("{what} (fresh manager)"), &m),
            o => {
                if !reported_err {
                    ctx.fail("export-not-accepted", &format!("{what}: file written without error is not accepted by a fresh manager ({})", o.token()));
                }
            }
        }
    }
}

impl<F: KindF> DynWorld for World<F> {
    fn define(&mut self, name: &str, spec: &str) -> bool {
        let nvars = F::info(&self.mref).nvars;
        match F::build(&self.mref, nvars, spec) {
            Some(f) => {
                self.funcs.retain(|(n, _)| n != name);
                self.funcs.push((name.to_string(), f));
                true
            }
            None => false,
        }
    }
    fn info(&self) -> MgrInfo {
        F::info(&self.mref)
    }
    fn sview_of(&self, specs: &[RootSpec]) -> Option<SView> {
        self.sview(specs)
    }
    fn export_bytes(&self, st: &ExpSettings, specs: &[RootSpec], named: bool) -> Option<(Vec<u8>, bool)> {
        let roots = self.roots(specs)?;
        let (f, r) = F::export(&self.mref, &roots, named, st);
        Some((f, r.is_err()))
    }
    fn export_step(&self, st: &ExpSettings, specs: &[RootSpec], named: bool, line_sv: Option<&SView>, ctx: &mut Ctx) -> String {
        let Some(roots) = self.roots(specs) else { return "bad-op".into() };
        let r = catch_unwind(AssertUnwindSafe(|| F::export(&self.mref, &roots, named, st)));
        let (file, res) = match r {
            Ok(x) => x,
            Err(e) => {
                ctx.fail("export-panic", &format!("exporter panicked: {}", panic_msg(e)));
                return "panic".into();
            }
        };
        ctx.count(&format!("export-{}-{}", F::KIND, if file_mode_is_ascii(&file) { "ascii" } else { "binary" }));
        // the structured view really describes the exported roots
        match self.sview(specs) {
            Some(sv) => {
                let info = F::info(&self.mref);
                if sview_trees(&sv, &info.l2v) != self.orig_trees(specs) {
                    ctx.fail("export-struct-mismatch", "the node list of the ASCII export does not unfold to the exported functions");
                }
                if let Some(l) = line_sv {
                    if *l != sv {
                        ctx.count("node-order-differs-from-generator");
                    }
                }
                ctx.add("exported-nodes", sv.nodes.len() as u64);
            }
            None => ctx.fail("export-struct-mismatch", "cannot parse the node section of the ASCII export"),
        }
        self.export_oracles(st, specs, named, &file, res.is_err(), ctx);
        format!("{} {}", if res.is_err() { "err" } else { "ok" }, to_hex(&file))
    }
    fn truncall(&self, st: &ExpSettings, specs: &[RootSpec], ctx: &mut Ctx) -> String {
        let Some(roots) = self.roots(specs) else { return "bad-op".into() };
        let (file, _) = F::export(&self.mref, &roots, false, st);
        let trees = self.orig_trees(specs);
        let (mut ok, mut err, mut pan) = (0, 0, 0);
        for p in 0..file.len() {
            let (out, m) = import_cli_style::<F>(&file[..p], true);
            match out {
                ImpOut::Ok { roots: got, .. } => {
                    ok += 1;
                    let gt: Vec<String> = got.iter().map(|f| f.tree()).collect();
                    if gt != trees {
                        ctx.fail("trunc-wrong-diagram", &format!("file truncated to {p} of {} bytes is accepted with different functions", file.len()));
                    }
                    check_imported::<F>(m.as_ref().unwrap(), &got, ctx, &format!("truncation at {p}"));
                }
                ImpOut::ImpPanic(m) | ImpOut::LoadPanic(m) => {
                    pan += 1;
                    report_panic(ctx, &format!("truncation at {p}"), &m);
                }
                _ => err += 1,
            }
        }
        ctx.add("truncations", file.len() as u64);
        format!("ok={ok} err={err} panic={pan}")
    }
    fn fuzz(&self, st: &ExpSettings, specs: &[RootSpec], seed: u64, n: u64, ctx: &mut Ctx) -> String {
        let Some(roots) = self.roots(specs) else { return "bad-op".into() };
        let (file, _) = F::export(&self.mref, &roots, true, st);
        let mut rng = Rng::new(seed);
        let (mut ok, mut err, mut pan, mut rej) = (0, 0, 0, 0);
        for _ in 0..n {
            let (mut f, mut label) = mutate(&file, &mut rng, false);
            if rng.chance(1, 4) {
                let (f2, l2) = mutate(&f, &mut rng, false);
                f = f2;
                label = format!("{label}+{l2}");
            }
            ctx.count(&format!("mut-{}", label.split('@').next().unwrap_or("")));
            let (out, m) = import_cli_style::<F>(&f, true);
            match out {
                ImpOut::Ok { roots: got, .. } => {
                    ok += 1;
                    check_imported::<F>(m.as_ref().unwrap(), &got, ctx, &format!("mutation {label} (seed {seed})"));
                }
                ImpOut::ImpPanic(m) | ImpOut::LoadPanic(m) => {
                    pan += 1;
                    report_panic(ctx, &format!("mutation {label} (seed {seed}) of a {} file", if st.ascii { "ascii" } else { "binary" }), &m);
                }
                ImpOut::Reject(_) => rej += 1,
                _ => err += 1,
            }
        }
        ctx.add("fuzz-ok", ok);
        ctx.add("fuzz-err", err);
        ctx.add("fuzz-panic", pan);
        format!("ok={ok} err={err} panic={pan} reject={rej}")
    }
}

/// `import` operation line: fresh manager as described on the line
fn import_step<F: KindF>(nvars: u32, l2v: &[u32], not: bool, file: &[u8], ctx: &mut Ctx) -> String {
    let Some(mref) = Mgr::<F>::new(nvars, l2v, None) else { return "bad-op".into() };
    let out = import_into::<F>(&mref, file, not, true);
    ctx.count(&format!("import-{}-{}", F::KIND, out.token()));
    match &out {
        ImpOut::Ok { hdr, roots } => {
            check_imported::<F>(&mref, roots, ctx, "import line");
            let mut s = format!("ok {hdr}");
            for r in roots {
                s.push_str(" | ");
                s.push_str(&r.tree());
            }
            s
        }
        ImpOut::ImpPanic(m) | ImpOut::LoadPanic(m) => {
            report_panic(ctx, &format!("import line (kind {})", F::KIND), m);
            out.token()
        }
        _ => out.token(),
    }
}

// ------------------------------------------------------------------------------------------------
// scenario

fn make_world(kind: &str, nvars: u32, l2v: &[u32], names: Option<&[String]>) -> Option<Box<dyn DynWorld>> {
    fn mk<F: KindF>(nvars: u32, l2v: &[u32], names: Option<&[String]>) -> Option<Box<dyn DynWorld>> {
        Some(Box::new(World::<F> { mref: Mgr::<F>::new(nvars, l2v, names)?, funcs: Vec::new() }))
    }
    match kind {
        "bdd" => mk::<BDDFunction>(nvars, l2v, names),
        "bcdd" => mk::<BCDDFunction>(nvars, l2v, names),
        "zbdd" => mk::<ZBDDFunction>(nvars, l2v, names),
        "mtbdd" => mk::<MT>(nvars, l2v, names),
        "tdd" => mk::<TDDFunction>(nvars, l2v, names),
        _ => None,
    }
}

fn parse_u32s(s: &str) -> Option<Vec<u32>> {
    split_comma(s).iter().map(|x| x.parse().ok()).collect()
}

fn parse_mgr(ws: &[&str]) -> Option<(String, u32, Vec<u32>, Option<Vec<String>>)> {
    let kind = kv(ws, "kind")?.to_string();
    let nvars: u32 = kv(ws, "nvars")?.parse().ok()?;
    let l2v = parse_u32s(kv(ws, "order")?)?;
    if !l2v.is_empty() && l2v.len() != nvars as usize {
        return None;
    }
    let ns = kv(ws, "names")?;
    let names = if ns == "-" {
        None
    } else {
        let v: Vec<String> =
            ns.split(',').map(|h| from_hex_name(h).and_then(|b| String::from_utf8(b).ok())).collect::<Option<_>>()?;
        if v.len() != nvars as usize {
            return None;
        }
        Some(v)
    };
    Some((kind, nvars, l2v, names))
}

fn parse_settings(ws: &[&str]) -> Option<ExpSettings> {
    Some(ExpSettings {
        ascii: kv(ws, "ascii")? == "1",
        v3: match kv(ws, "ver")? {
            "2" => false,
            "3" => true,
            _ => return None,
        },
        strict: kv(ws, "strict").unwrap_or("0") == "1",
        dd: String::from_utf8(from_hex_name(kv(ws, "dd").unwrap_or("_"))?).ok()?,
    })
}

fn parse_roots(ws: &[&str]) -> Option<Vec<RootSpec>> {
    split_comma(kv(ws, "roots")?)
        .iter()
        .map(|r| {
            let mut it = r.splitn(2, ':');
            let func = it.next()?.to_string();
            let name = match it.next() {
                None => None,
                Some(h) => Some(from_hex_name(h)?),
            };
            Some(RootSpec { func, name })
        })
        .collect()
}

fn parse_line_sview(ws: &[&str]) -> Option<SView> {
    let terms = split_comma(kv(ws, "terms")?)
        .iter()
        .map(|h| from_hex(h).and_then(|b| String::from_utf8(b).ok()))
        .collect::<Option<Vec<_>>>()?;
    let nodes = split_comma(kv(ws, "nodes")?)
        .iter()
        .map(|n| {
            let mut it = n.split(':');
            let l: u32 = it.next()?.parse().ok()?;
            let ch: Vec<i64> = it.map(|c| c.parse().ok()).collect::<Option<_>>()?;
            Some((l, ch))
        })
        .collect::<Option<Vec<_>>>()?;
    let rootids = split_comma(kv(ws, "rootids")?).iter().map(|c| c.parse().ok()).collect::<Option<Vec<i64>>>()?;
    Some(SView { terms, nodes, rootids })
}

struct Dddmp {
    world: Option<Box<dyn DynWorld>>,
}

impl Scenario for Dddmp {
    fn reset(&mut self) {
        self.world = None;
        bury();
        REPORTED.with(|r| r.borrow_mut().clear());
    }
    fn step(&mut self, line: &str, ctx: &mut Ctx) -> String {
        let ws = words(line);
        match ws[0] {
            "mgr" => match parse_mgr(&ws[1..]) {
                Some((kind, nvars, l2v, names)) => match make_world(&kind, nvars, &l2v, names.as_deref()) {
                    Some(w) => {
                        self.world = Some(w);
                        ctx.count(&format!("mgr-{kind}"));
                        "ok".into()
                    }
                    None => "bad-op".into(),
                },
                None => "bad-op".into(),
            },
            "fn" if ws.len() >= 3 => match &mut self.world {
                Some(w) => {
                    if w.define(ws[1], ws[2]) {
                        "ok".into()
                    } else {
                        "bad-op".into()
                    }
                }
                None => "bad-op".into(),
            },
            "export" => {
                let (Some(st), Some(roots), Some(w)) = (parse_settings(&ws[1..]), parse_roots(&ws[1..]), &self.world) else {
                    return "bad-op".into();
                };
                let named = kv(&ws[1..], "named") == Some("1");
                let sv = parse_line_sview(&ws[1..]);
                w.export_step(&st, &roots, named, sv.as_ref(), ctx)
            }
            "import" => {
                let a = &ws[1..];
                let (Some(kind), Some(cmpl), Some(nvars), Some(order), Some(file)) = (
                    kv(a, "kind"),
                    kv(a, "cmpl"),
                    kv(a, "nvars").and_then(|x| x.parse::<u32>().ok()),
                    kv(a, "order").and_then(parse_u32s),
                    kv(a, "file").and_then(from_hex),
                ) else {
                    return "bad-op".into();
                };
                if (!order.is_empty() && order.len() != nvars as usize) || (cmpl != "not" && cmpl != "id") {
                    return "bad-op".into();
                }
                let not = cmpl == "not";
                match (kind, not) {
                    ("bdd", _) => import_step::<BDDFunction>(nvars, &order, not, &file, ctx),
                    ("bcdd", _) => import_step::<BCDDFunction>(nvars, &order, not, &file, ctx),
                    ("zbdd", false) => import_step::<ZBDDFunction>(nvars, &order, false, &file, ctx),
                    ("mtbdd", false) => import_step::<MT>(nvars, &order, false, &file, ctx),
                    _ => "bad-op".into(),
                }
            }
            "truncall" => {
                let (Some(st), Some(roots), Some(w)) = (parse_settings(&ws[1..]), parse_roots(&ws[1..]), &self.world) else {
                    return "bad-op".into();
                };
                w.truncall(&st, &roots, ctx)
            }
            "fuzz" => {
                let a = &ws[1..];
                let (Some(st), Some(roots), Some(w), Some(seed), Some(n)) = (
                    parse_settings(a),
                    parse_roots(a),
                    &self.world,
                    kv(a, "seed").and_then(|x| x.parse::<u64>().ok()),
                    kv(a, "n").and_then(|x| x.parse::<u64>().ok()),
                ) else {
                    return "bad-op".into();
                };
                w.fuzz(&st, &roots, seed, n, ctx)
            }
            _ => "bad-op".into(),
        }
    }
}

fn make(_f: &BTreeMap<String, String>) -> Box<dyn Scenario> {
    Box::new(Dddmp { world: None })
}

// ------------------------------------------------------------------------------------------------
// generator (runs the real exporter to obtain the node order and the bytes to mutate)

const KINDS: [&str; 5] = ["bdd", "bcdd", "zbdd", "mtbdd", "tdd"];

fn can_import(kind: &str) -> bool {
    kind != "tdd"
}

/// a random function of `nvars` variables as a value index table (`palette` values)
fn rand_table(rng: &mut Rng, nvars: u32, palette: u64) -> Vec<u64> {
    let n = 1usize << nvars;
    let vars: Vec<u32> = (0..nvars).collect();
    match rng.below(9) {
        0 => vec![rng.below(palette); n],
        1 if nvars > 0 => {
            let v = rng.below(nvars as u64) as u32;
            let pol = rng.below(2);
            (0..n).map(|a| (((a >> v) & 1) as u64 ^ pol) % palette).collect()
        }
        2 if nvars > 0 => {
            // parity of a subset
            let mask = rng.below(1 << nvars) as usize | 1;
            (0..n).map(|a| ((a & mask).count_ones() as u64 % 2) % palette).collect()
        }
        3 if nvars > 0 => {
            let mask = rng.below(1 << nvars) as usize | 1;
            let th = rng.range(1, mask.count_ones() as u64) as u32;
            (0..n).map(|a| (((a & mask).count_ones() >= th) as u64) % palette).collect()
        }
        _ => {
            // random function of a random subset of the variables (the others are unused)
            let mut sub = vars.clone();
            rng.shuffle(&mut sub);
            let k = if nvars == 0 { 0 } else { rng.range(1, nvars as u64) as usize };
            let sub = &sub[..k];
            let dens = rng.range(1, 9);
            let g: Vec<u64> = (0..1usize << k)
                .map(|_| if palette == 2 { (rng.below(10) < dens) as u64 } else { rng.below(palette) })
                .collect();
            (0..n)
                .map(|a| {
                    let mut idx = 0;
                    for (i, &v) in sub.iter().enumerate() {
                        idx |= ((a >> v) & 1) << i;
                    }
                    g[idx]
                })
                .collect()
        }
    }
}

fn rand_spec(kind: &str, rng: &mut Rng, nvars: u32) -> String {
    match kind {
        "mtbdd" => {
            let all = ["0", "1", "2", "-3", "7", "100", "-1", "+Inf", "-Inf", "NaN", "9223372036854775807", "-9223372036854775808"];
            let k = rng.range(1, 5);
            let pal: Vec<&str> = (0..k).map(|_| *rng.pick(&all)).collect();
            let t = rand_table(rng, nvars, k);
            format!("vals={}", t.iter().map(|&i| pal[i as usize]).collect::<Vec<_>>().join(","))
        }
        "tdd" => {
            let t = rand_table(rng, nvars, 3);
            format!("tv={}", t.iter().map(|&i| char::from(b'0' + i as u8)).collect::<String>())
        }
        _ => {
            let t = rand_table(rng, nvars, 2);
            let mut s = String::from("tt=");
            for c in t.chunks(4) {
                let mut v = 0;
                for (k, &b) in c.iter().enumerate() {
                    v |= (b as u32) << k;
                }
                s.push(char::from_digit(v, 16).unwrap());
            }
            s
        }
    }
}

fn rand_names(rng: &mut Rng, nvars: u32) -> Option<Vec<String>> {
    let style = rng.below(8);
    if style == 0 {
        return None;
    }
    let pool: [&str; 30] = [
        "a b", "a_b", "a\tb", "tab\t", " lead", "trail ", "nl\nx", "del\x7f", "\x01", "ä", "变量", "x\u{85}y", "_x", "__y",
        "___", "_", "_x0", "_x1", "__x1", "__x2", "_x1_a_b", ".nodes", ".end", "-1", "0", "T", "a  b", "a__b", "é t", "p q r",
    ];
    let mut out: Vec<String> = Vec::new();
    for i in 0..nvars {
        let n = match style {
            1 => format!("x{i}"),
            2 => {
                if rng.chance(1, 3) { String::new() } else { format!("v{i}") }
            }
            3 => String::new(),
            _ => match rng.below(10) {
                0 | 1 => String::new(),
                2 | 3 => format!("n{i}"),
                _ => rng.pick(&pool).to_string(),
            },
        };
        // non-empty names must be unique in a manager
        if !n.is_empty() && out.contains(&n) {
            out.push(format!("{n}{i}"));
        } else {
            out.push(n);
        }
    }
    Some(out)
}

fn rand_label(rng: &mut Rng) -> Vec<u8> {
    let pool: [&str; 12] = ["f", "g h", "", "out\t1", "_f0", "_f1", "ünï", "a b c", " x", "y ", "\n", "root"];
    rng.pick(&pool).as_bytes().to_vec()
}

struct G<'a> {
    w: &'a mut dyn Write,
    world: Option<Box<dyn DynWorld>>,
    kind: String,
    nvars: u32,
    l2v: Vec<u32>,
    case_no: u64,
    funcs: Vec<String>,
    /// only the known-finding case may export an MTBDD with a single terminal in binary mode
    allow_single_terminal_binary: bool,
}

impl G<'_> {
    fn case(&mut self, name: &str) {
        self.case_no += 1;
        self.allow_single_terminal_binary = name.starts_with("kf-");
        if name.starts_with("kf-") {
            // known-finding cases are matched by name: no running number
            writeln!(self.w, "case {name}").unwrap();
        } else {
            writeln!(self.w, "case {} {}", self.case_no, name).unwrap();
        }
        self.world = None;
        bury();
        self.funcs.clear();
    }
    fn mgr(&mut self, kind: &str, nvars: u32, l2v: &[u32], names: Option<&[String]>) -> bool {
        let ns = match names {
            None => "-".to_string(),
            Some(v) if v.is_empty() => "-".to_string(),
            Some(v) => v.iter().map(|n| hex_name(n.as_bytes())).collect::<Vec<_>>().join(","),
        };
        writeln!(self.w, "mgr kind={kind} nvars={nvars} order={} names={ns}", comma(l2v)).unwrap();
        self.world = make_world(kind, nvars, l2v, names.filter(|v| !v.is_empty()));
        self.kind = kind.to_string();
        self.nvars = nvars;
        self.l2v = if l2v.is_empty() { (0..nvars).collect() } else { l2v.to_vec() };
        self.world.is_some()
    }
    fn func(&mut self, name: &str, spec: &str) {
        writeln!(self.w, "fn {name} {spec}").unwrap();
        if let Some(w) = &mut self.world {
            if w.define(name, spec) {
                self.funcs.push(name.to_string());
            }
        }
    }
    fn export(&mut self, st: &ExpSettings, specs: &[RootSpec], named: bool) -> Option<(Vec<u8>, bool)> {
        let w = self.world.as_ref()?;
        let sv = w.sview_of(specs)?;
        let info = w.info();
        let mut st = st.clone();
        if self.kind == "mtbdd" && info.nterm == 1 && !self.allow_single_terminal_binary {
            st.ascii = true;
        }
        let st = &st;
        let roots = if specs.is_empty() {
            "-".to_string()
        } else {
            specs
                .iter()
                .map(|r| match &r.name {
                    None => r.func.clone(),
                    Some(n) => format!("{}:{}", r.func, hex_name(n)),
                })
                .collect::<Vec<_>>()
                .join(",")
        };
        let terms = if sv.terms.is_empty() { "-".into() } else { sv.terms.iter().map(|t| to_hex(t.as_bytes())).collect::<Vec<_>>().join(",") };
        let nodes = if sv.nodes.is_empty() {
            "-".into()
        } else {
            sv.nodes
                .iter()
                .map(|(l, ch)| format!("{l}:{}", ch.iter().map(|c| c.to_string()).collect::<Vec<_>>().join(":")))
                .collect::<Vec<_>>()
                .join(",")
        };
        writeln!(
            self.w,
            "export ascii={} ver={} strict={} dd={} named={} roots={roots} ; nterm={} termT={} terms={terms} nodes={nodes} rootids={}",
            st.ascii as u8,
            if st.v3 { 3 } else { 2 },
            st.strict as u8,
            hex_name(st.dd.as_bytes()),
            named as u8,
            info.nterm,
            (self.kind == "bcdd") as u8,
            comma(&sv.rootids)
        )
        .unwrap();
        w.export_bytes(st, specs, named)
    }
    fn import(&mut self, kind: &str, not: bool, nvars: u32, l2v: &[u32], file: &[u8]) {
        writeln!(
            self.w,
            "import kind={kind} cmpl={} nvars={nvars} order={} file={}",
            if not { "not" } else { "id" },
            comma(l2v),
            to_hex(file)
        )
        .unwrap();
    }
    fn rand_roots(&self, rng: &mut Rng, named: bool) -> Vec<RootSpec> {
        if self.funcs.is_empty() {
            return Vec::new();
        }
        let k = match rng.below(12) {
            0 => 0,
            1..=5 => 1,
            6..=8 => 2,
            _ => rng.range(2, 4),
        };
        (0..k)
            .map(|_| RootSpec { func: rng.pick(&self.funcs).clone(), name: if named { Some(rand_label(rng)) } else { None } })
            .collect()
    }
    /// valid import of `file` plus `nmut` mutated variants
    fn imports(&mut self, rng: &mut Rng, file: &[u8], nmut: u64) {
        let kind = self.kind.clone();
        if !can_import(&kind) {
            return;
        }
        let not = match kind.as_str() {
            "bdd" | "bcdd" => !rng.chance(1, 6),
            _ => false,
        };
        let (nvars, l2v) = (self.nvars, self.l2v.clone());
        self.import(&kind, not, nvars, &l2v, file);
        // a different target: more variables / another order / the sibling kind
        if rng.chance(1, 3) {
            let mut o: Vec<u32> = l2v.clone();
            o.extend(nvars..nvars + 2);
            if rng.chance(1, 2) {
                rng.shuffle(&mut o);
            }
            self.import(&kind, not, nvars + 2, &o, file);
        }
        if rng.chance(1, 4) {
            let other = match kind.as_str() {
                "bdd" => "bcdd",
                "bcdd" => "bdd",
                "zbdd" => "bdd",
                _ => "zbdd",
            };
            let n2 = matches!(other, "bdd" | "bcdd");
            self.import(other, n2, nvars, &l2v, file);
        }
        for _ in 0..nmut {
            let (mut f, _) = mutate(file, rng, false);
            if rng.chance(1, 5) {
                f = mutate(&f, rng, false).0;
            }
            self.import(&kind, not, nvars, &l2v, &f);
        }
    }
}

fn all_settings() -> Vec<ExpSettings> {
    let mut v = Vec::new();
    for ascii in [false, true] {
        for v3 in [false, true] {
            for strict in [false, true] {
                v.push(ExpSettings { ascii, v3, strict, dd: String::new() });
            }
        }
    }
    v
}

fn rand_dd(rng: &mut Rng) -> String {
    let pool = ["", "", "dd", "my dd", " lead", "ctl\tx", "trail ", "dïa", "a\nb", " "];
    rng.pick(&pool).to_string()
}

fn perms3() -> Vec<Vec<u32>> {
    vec![vec![0, 1, 2], vec![0, 2, 1], vec![1, 0, 2], vec![1, 2, 0], vec![2, 0, 1], vec![2, 1, 0]]
}

fn crafted(g: &mut G) {
    let hdr = |mode: &str, nnodes: &str, nvars: u32, nsupp: u32, ids: &str, permids: &str, nroots: &str, rootids: &str| {
        format!(
            ".ver DDDMP-2.0\n.mode {mode}\n.varinfo 4\n.nnodes {nnodes}\n.nvars {nvars}\n.nsuppvars {nsupp}\n.ids{ids}\n.permids{permids}\n.nroots {nroots}\n.rootids {rootids}\n.nodes\n"
        )
        .into_bytes()
    };
    let file = |h: Vec<u8>, body: &[u8]| {
        let mut f = h;
        f.extend_from_slice(body);
        f.extend_from_slice(b".end\n");
        f
    };
    // Relative1 / RelativeID variable code with terminal children, fewer support variables than levels
    g.case("crafted-relvar-terminal-children");
    let nc = |var: u8, t: u8, ec: u8, e: u8| (var << 5) | (t << 3) | (ec << 2) | e;
    for (kind, not) in [("bcdd", true), ("bdd", true)] {
        g.import(kind, not, 3, &[], &file(hdr("B", "2", 3, 1, " 0", " 0", "1", "2"), &[0, 0, nc(3, 0, 1, 0)]));
        g.import(kind, not, 3, &[], &file(hdr("B", "2", 3, 1, " 0", " 0", "1", "2"), &[0, 0, nc(2, 0, 1, 0), 2 << 1]));
        g.import(kind, not, 3, &[], &file(hdr("B", "2", 3, 1, " 0", " 0", "1", "2"), &[0, 0, nc(2, 0, 1, 0), 3 << 1]));
        // the same with all levels in the support: accepted
        g.import(kind, not, 1, &[], &file(hdr("B", "2", 1, 1, " 0", " 0", "1", "-2"), &[0, 0, nc(3, 0, 1, 0)]));
        g.import(kind, not, 3, &[], &file(hdr("B", "3", 3, 3, " 0 1 2", " 0 1 2", "1", "3"), &[0, 0, nc(3, 0, 1, 0), nc(3, 3, 1, 0)]));
    }
    // relative child id larger than the node id
    g.case("crafted-relid-underflow");
    for kind in ["bcdd", "bdd"] {
        g.import(kind, true, 1, &[], &file(hdr("B", "2", 1, 1, " 0", " 0", "1", "2"), &[0, 0, nc(1, 2, 1, 0), 0, 0, 5 << 1]));
        g.import(kind, true, 1, &[], &file(hdr("B", "2", 1, 1, " 0", " 0", "1", "2"), &[0, 0, nc(1, 2, 1, 0), 0, 0, 2 << 1]));
        g.import(kind, true, 1, &[], &file(hdr("B", "2", 1, 1, " 0", " 0", "1", "2"), &[0, 0, nc(1, 2, 1, 0), 0, 0, 1 << 1]));
        // over-long 7-bit integer (wraps silently)
        let mut body = vec![0, 0, nc(1, 0, 1, 0)];
        body.extend_from_slice(&[0x05, 1, 1, 1, 1, 1, 1, 1, 1, 0, 0]);
        g.import(kind, true, 1, &[], &file(hdr("B", "2", 1, 1, " 0", " 0", "1", "2"), &body));
    }
    // binary files and kinds without a `T` terminal
    g.case("crafted-binary-into-zbdd-mtbdd");
    for kind in ["zbdd", "mtbdd", "bdd", "bcdd"] {
        let not = matches!(kind, "bdd" | "bcdd");
        g.import(kind, not, 1, &[], &file(hdr("B", "1", 1, 0, "", "", "1", "1"), &[0, 0]));
    }
    // absurd counts
    g.case("crafted-huge-counts");
    for kind in ["bdd", "bcdd", "zbdd", "mtbdd"] {
        let not = matches!(kind, "bdd" | "bcdd");
        let t: &[u8] = match kind {
            "zbdd" => b"1 B 0 0\n",
            "mtbdd" => b"1 5 0 0\n",
            _ => b"1 T 0 0\n",
        };
        g.import(kind, not, 1, &[], &file(hdr("A", "2305843009213693952", 1, 0, "", "", "1", "1"), t));
        g.import(kind, not, 1, &[], &file(hdr("A", "1", 1, 0, "", "", "2305843009213693952", "1"), t));
        g.import(kind, not, 1, &[], &file(hdr("A", "18446744073709551616", 1, 0, "", "", "1", "1"), t));
        g.import(kind, not, 1, &[], &file(hdr("A", "1", 1, 0, "", "", "1", "1"), t));
    }
    g.import("bcdd", true, 1, &[], &file(hdr("B", "2305843009213693952", 1, 0, "", "", "1", "1"), &[0, 0]));
    // header validation, one violated rule per file (base: x0 & x2 over 3 variables, order 2,0,1)
    g.case("crafted-header-validation");
    {
        let base: Vec<(&str, &str)> = vec![
            (".ver", "DDDMP-3.0"), (".mode", "A"), (".varinfo", "4"), (".nnodes", "5"), (".nvars", "3"),
            (".nsuppvars", "2"), (".varnames", "a b c"), (".suppvarnames", "a c"), (".orderedvarnames", "c a b"),
            (".ids", "0 2"), (".permids", "1 0"), (".nroots", "2"), (".rootids", "5 -4"), (".rootnames", "f g"),
        ];
        let nodes = "1 F 0 0\n2 T 0 0\n3 1 2 1\n4 0 2 1\n5 0 3 1\n.end\n";
        let variants: Vec<(&str, &str)> = vec![
            (".ver", "DDDMP-3.0"), (".ver", "DDDMP-1.0"), (".mode", "C"), (".varinfo", "5"), (".varinfo", "0"),
            (".nsuppvars", "4"), (".nsuppvars", "3"), (".nsuppvars", "1"), (".ids", "2 0"), (".ids", "0 0"),
            (".ids", "0 3"), (".ids", "0"), (".ids", "0 1"), (".permids", "1 1"), (".permids", "1 3"), (".permids", "1"),
            (".permids", "0 1"), (".permids", "0 2"), (".nroots", "1"), (".nroots", "3"), (".rootids", "5 0"),
            (".rootids", "5 6"), (".rootids", "5 -6"), (".rootids", "5"), (".rootnames", "f"), (".rootnames", "f g h"),
            (".rootnames", ""), (".varnames", "a b"), (".varnames", "a b c d"), (".varnames", "a b x"),
            (".varnames", "x b c"), (".suppvarnames", "a"), (".suppvarnames", "a b"), (".suppvarnames", "a c x"),
            (".orderedvarnames", "c a"), (".orderedvarnames", "a c b"), (".orderedvarnames", "c a x"),
            (".varnames", ""), (".orderedvarnames", ""), (".suppvarnames", ""), (".nnodes", "4"), (".nnodes", "6"),
            (".nvars", "2"), (".nvars", "4"), (".auxids", "7 8"), (".auxids", "7"), (".dd", "  my  name "),
            (".nodes", "x"), (".bogus", "1"), (".nnodes", "5 "), (".nnodes", "+5"), (".nnodes", ""), (".ids", "0 -2"),
            (".rootids", "5 - 4"), (".rootids", "5 --4"), (".rootids", "5 4-"), (".nvars", "4294967296"),
        ];
        for (k, v) in &variants {
            let mut f = String::new();
            let mut seen = false;
            for (bk, bv) in &base {
                if bk == k {
                    seen = true;
                    if v.is_empty() && k.ends_with("names") {
                        continue; // drop the line
                    }
                    f.push_str(&format!("{bk} {v}\n"));
                } else {
                    f.push_str(&format!("{bk} {bv}\n"));
                }
            }
            if !seen {
                f.push_str(&format!("{k} {v}\n"));
            }
            f.push_str(".nodes\n");
            f.push_str(nodes);
            g.import("bdd", true, 3, &[2, 0, 1], f.as_bytes());
        }
        // only one of the name sections present
        for keep in [".varnames", ".suppvarnames", ".orderedvarnames"] {
            let mut f = String::new();
            for (bk, bv) in &base {
                if bk.ends_with("varnames") && *bk != keep {
                    continue;
                }
                f.push_str(&format!("{bk} {bv}\n"));
            }
            f.push_str(".nodes\n");
            f.push_str(nodes);
            g.import("bdd", true, 3, &[2, 0, 1], f.as_bytes());
        }
    }
    // ASCII node lines: level order, ids, arity, terminal descriptors
    g.case("crafted-ascii-node-lines");
    {
        let h = ".ver DDDMP-2.0\n.mode A\n.varinfo 4\n.nnodes 4\n.nvars 2\n.nsuppvars 2\n.ids 0 1\n.permids 0 1\n.nroots 1\n.rootids 4\n.nodes\n";
        let bodies = [
            "1 F 0 0\n2 T 0 0\n3 1 2 1\n4 0 3 1\n",   // valid
            "1 F 0 0\n2 T 0 0\n3 1 2 1\n4 1 3 1\n",   // level == child level
            "1 F 0 0\n2 T 0 0\n3 0 2 1\n4 1 3 1\n",   // level > child level
            "1 F 0 0\n2 T 0 0\n3 1 2 1\n4 2 3 1\n",   // variable out of range
            "1 F 0 0\n2 T 0 0\n3 1 2 1\n4 0 4 1\n",   // child == node
            "1 F 0 0\n2 T 0 0\n3 1 2 1\n4 0 5 1\n",   // child > node
            "1 F 0 0\n2 T 0 0\n3 1 2 1\n5 0 3 1\n",   // wrong node id
            "1 F 0 0\n2 T 0 0\n3 1 2 1\n4 0 3\n",     // arity 1
            "1 F 0 0\n2 T 0 0\n3 1 2 1\n4 0 3 1 2\n", // arity 3
            "1 F 0 0\n2 T 0 0\n3 1 2 2\n4 0 3 1\n",   // reducible node
            "1 F 0 0\n2 T 0 0\n3 1 2 1\n4 0 3 3\n",   // reducible root
            "1 F 0 0\n2 T 0 0\n3 1 2 -1\n4 0 -3 1\n", // complemented edges
            "1 X 0 0\n2 T 0 0\n3 1 2 1\n4 0 3 1\n",   // unknown terminal
            "1 F 0 0\n2 T 0 0\n3 1 2 0\n4 0 3 1\n",   // one zero child: terminal line with descriptor "1"
            "1 F 0 0\n2 T 0 0\n3 1 2 1\n",             // too few nodes
            "1 F 0 0\n2 T 0 0\n3 1 2 1\n4 0 3 1\n5 0 3 1\n", // too many nodes
            "1 F 0 0\r\n2 T 0 0\r\n3 1 2 1\r\n4 0 3 1\r\n", // CRLF
            "1\tF\t0\t0\n2 T 0 0\n3  1  2  1\n 4 0 3 1\n", // tabs / repeated blanks
            "1 F 0 0\n2 T 0 0\n3 01 02 01\n4 00 3 1\n", // leading zeros
        ];
        for kind in ["bdd", "bcdd", "zbdd", "mtbdd"] {
            let not = matches!(kind, "bdd" | "bcdd");
            for b in bodies {
                let b = match kind {
                    "zbdd" => b.replace(" F ", " E ").replace("\tF\t", "\tE\t").replace(" T ", " B "),
                    "mtbdd" => b.replace(" F ", " 0 ").replace("\tF\t", "\t0\t").replace(" T ", " 1 "),
                    _ => b.to_string(),
                };
                for tail in [".end\n", ".end", ".end \n\n", ".en\n", "", ".end\nx"] {
                    if tail != ".end\n" && !b.starts_with("1 F 0 0\n2 T 0 0\n3 1 2 1\n4 0 3 1\n") && !b.starts_with("1 E") && !b.starts_with("1 0") {
                        continue;
                    }
                    g.import(kind, not, 2, &[], format!("{h}{b}{tail}").as_bytes());
                }
            }
        }
    }
    // generated names vs. names with leading underscores
    g.case("crafted-leading-underscores");
    let names: Vec<String> = ["__x1", "", "_y"].iter().map(|s| s.to_string()).collect();
    if g.mgr("bcdd", 3, &[], Some(&names)) {
        g.func("f0", "tt=e8");
        for v3 in [true, false] {
            for ascii in [true, false] {
                let st = ExpSettings { ascii, v3, strict: false, dd: String::new() };
                g.export(&st, &[RootSpec { func: "f0".into(), name: None }], false);
            }
        }
    }
    let names: Vec<String> = ["a b", "a_b", "", "c\td", "c d"].iter().map(|s| s.to_string()).collect();
    if g.mgr("bdd", 5, &[4, 2, 0, 1, 3], Some(&names)) {
        g.func("f0", "tt=e8e8e8e8");
        g.func("f1", "tt=0ff00ff0");
        for st in all_settings() {
            g.export(&st, &[RootSpec { func: "f0".into(), name: Some(b"x y".to_vec()) }, RootSpec { func: "f1".into(), name: Some(Vec::new()) }], true);
        }
    }
    // known finding: MTBDD with a single terminal in the manager, binary mode is chosen
    g.case("kf-mtbdd-single-constant-binary");
    if g.mgr("mtbdd", 2, &[], None) {
        g.func("c", "vals=5,5,5,5");
        for ascii in [false, true] {
            let st = ExpSettings { ascii, v3: false, strict: true, dd: String::new() };
            if let Some((f, _)) = g.export(&st, &[RootSpec { func: "c".into(), name: None }], false) {
                g.import("mtbdd", false, 2, &[], &f);
            }
        }
    }
}

fn generate(cfg: &GenCfg, rng: &mut Rng, w: &mut dyn Write) {
    let scale = cfg.scale.max(1);
    let mut g = G { w, world: None, kind: String::new(), nvars: 0, l2v: Vec::new(), case_no: 0, funcs: Vec::new(), allow_single_terminal_binary: false };
    let nmut = if cfg.thorough { 30 } else { 10 };
    crafted(&mut g);
    // three variables, every order, sampled subsets of the 256 functions as roots, every setting
    for kind in KINDS {
        for (oi, order) in perms3().iter().enumerate() {
            for rep in 0..scale {
                g.case(&format!("n3-{kind}-o{oi}-r{rep}"));
                let names = rand_names(rng, 3);
                if !g.mgr(kind, 3, order, names.as_deref()) {
                    continue;
                }
                for i in 0..4 {
                    let spec = match kind {
                        "bdd" | "bcdd" | "zbdd" => format!("tt={:02x}", (rng.below(256) as u8).reverse_bits().reverse_bits()),
                        _ => rand_spec(kind, rng, 3),
                    };
                    // tt nibble order: low nibble first
                    let spec = if let Some(h) = spec.strip_prefix("tt=") { format!("tt={}", h.chars().rev().collect::<String>()) } else { spec };
                    g.func(&format!("f{i}"), &spec);
                }
                for mut st in all_settings() {
                    st.dd = rand_dd(rng);
                    let named = rng.chance(1, 2);
                    let roots = g.rand_roots(rng, named);
                    if let Some((file, _)) = g.export(&st, &roots, named) {
                        let m = if rng.chance(1, 4) { nmut / 2 } else { 0 };
                        g.imports(rng, &file, m);
                    }
                }
            }
        }
    }
    // random diagrams over 4..10 variables, shuffled order, unused variables, odd names
    let ncases = if cfg.thorough { 24 } else { 5 } * scale;
    for kind in KINDS {
        for c in 0..ncases {
            let nvars = match kind {
                "mtbdd" | "tdd" => rng.range(3, 7),
                _ => rng.range(4, 10),
            } as u32;
            g.case(&format!("rnd-{kind}-{c}-n{nvars}"));
            let mut order: Vec<u32> = (0..nvars).collect();
            if !rng.chance(1, 5) {
                rng.shuffle(&mut order);
            }
            let names = rand_names(rng, nvars);
            if !g.mgr(kind, nvars, &order, names.as_deref()) {
                continue;
            }
            for i in 0..rng.range(1, 3) {
                let spec = rand_spec(kind, rng, nvars);
                g.func(&format!("f{i}"), &spec);
            }
            let mut sts = all_settings();
            rng.shuffle(&mut sts);
            for mut st in sts.into_iter().take(4) {
                st.dd = rand_dd(rng);
                let named = rng.chance(1, 2);
                let roots = g.rand_roots(rng, named);
                if let Some((file, _)) = g.export(&st, &roots, named) {
                    let m = if rng.chance(1, 2) { nmut } else { 0 };
                    g.imports(rng, &file, m);
                }
            }
        }
    }
    // dense BCDDs in binary mode: two-byte 7-bit integers, escaped bytes 0x00 / 0x0a / 0x1a
    for (c, nvars) in [(0, 8u32), (1, 10), (2, 10)] {
        g.case(&format!("dense-bcdd-{c}-n{nvars}"));
        let mut order: Vec<u32> = (0..nvars).collect();
        rng.shuffle(&mut order);
        if g.mgr("bcdd", nvars, &order, None) {
            for i in 0..2 {
                let bits: String = (0..(1usize << nvars) / 4).map(|_| char::from_digit(rng.below(16) as u32, 16).unwrap()).collect();
                g.func(&format!("f{i}"), &format!("tt={bits}"));
            }
            for (ascii, v3) in [(false, false), (true, true)] {
                let st = ExpSettings { ascii, v3, strict: true, dd: String::new() };
                let roots = [RootSpec { func: "f0".into(), name: None }, RootSpec { func: "f1".into(), name: None }];
                if let Some((file, _)) = g.export(&st, &roots, false) {
                    g.imports(rng, &file, nmut);
                }
            }
        }
    }
    // large diagram: multi-byte 7-bit integers, all escape bytes (export direction only)
    if cfg.thorough {
        for nvars in [14u32, 18] {
            g.case(&format!("big-bcdd-n{nvars}"));
            if g.mgr("bcdd", nvars, &[], None) {
                let bits: String = (0..(1usize << nvars) / 4).map(|_| char::from_digit(rng.below(16) as u32, 16).unwrap()).collect();
                g.func("f0", &format!("tt={bits}"));
                for ascii in [false, true] {
                    let st = ExpSettings { ascii, v3: false, strict: true, dd: String::new() };
                    g.export(&st, &[RootSpec { func: "f0".into(), name: None }], false);
                }
            }
        }
    }
}

/// oracle-only stream: every truncation point and seeded mutations, evaluated at run time
fn generate_fuzz(cfg: &GenCfg, rng: &mut Rng, w: &mut dyn Write) {
    let scale = cfg.scale.max(1);
    let mut g = G { w, world: None, kind: String::new(), nvars: 0, l2v: Vec::new(), case_no: 0, funcs: Vec::new(), allow_single_terminal_binary: false };
    let ncases = if cfg.thorough { 12 } else { 3 } * scale;
    let nmut = if cfg.thorough { 400 } else { 150 };
    for kind in ["bdd", "bcdd", "zbdd", "mtbdd"] {
        for c in 0..ncases {
            let nvars = match kind {
                "mtbdd" => rng.range(3, 5),
                _ => rng.range(3, 7),
            } as u32;
            g.case(&format!("fuzz-{kind}-{c}-n{nvars}"));
            let mut order: Vec<u32> = (0..nvars).collect();
            rng.shuffle(&mut order);
            let names = rand_names(rng, nvars);
            if !g.mgr(kind, nvars, &order, names.as_deref()) {
                continue;
            }
            for i in 0..2 {
                let spec = rand_spec(kind, rng, nvars);
                g.func(&format!("f{i}"), &spec);
            }
            for ascii in [true, false] {
                for v3 in [false, true] {
                    if !ascii && kind != "bcdd" {
                        continue;
                    }
                    let roots = format!("f0:{},f1:{}", hex_name(&rand_label(rng)), hex_name(&rand_label(rng)));
                    if c % 2 == 0 || cfg.thorough {
                        writeln!(g.w, "truncall ascii={} ver={} strict=0 roots={roots}", ascii as u8, if v3 { 3 } else { 2 }).unwrap();
                    }
                    writeln!(
                        g.w,
                        "fuzz seed={} n={nmut} ascii={} ver={} strict=0 roots={roots}",
                        rng.next() >> 16,
                        ascii as u8,
                        if v3 { 3 } else { 2 }
                    )
                    .unwrap();
                }
            }
        }
    }
}

pub fn main_with(fuzz: bool) {
    let fuzz = fuzz || std::env::args().any(|a| a == "--fuzz");
    harness_main(if fuzz { generate_fuzz } else { generate }, make)
}

#[allow(dead_code)]
fn main() {
    main_with(false)
}
