//! C15 — DDDMP export/import round trip, codec correspondence with the Lean model, malformed input.
//!
//! Protocol `dddmp` (one output line per operation line):
//! ```text
//! mgr kind=<bdd|bcdd|zbdd|mtbdd|tdd> nvars=<n> order=<l2v,..|-> names=<hex|_,..|->    -> ok
//! fn <name> <spec>                                                                   -> ok
//! export ascii=<0|1> ver=<2|3> strict=<0|1> dd=<hex|_> named=<0|1> roots=<f[:hex|:_],..|-> ;
//!        nterm=<k> termT=<0|1> terms=<hex,..|-> nodes=<lvl:c1:c2[:c3],..|-> rootids=<i,..|->      -> <ok|err> <hex file>
//! import kind=<k> cmpl=<not|id> nvars=<n> order=<l2v|-> file=<hex>                   -> ok <hdr> | <tree>.. / err:* / panic:* / reject:*
//! ```
//! `fn` specs: `tt=<hex>` (truth table), `vals=..` (MTBDD), `tv=..` (TDD), `ladder=<phase>` (one node per
//! level over all variables, see `ladder_shape`). Two more keys on `export` lines are ignored by
//! the model: `big=1` (big / deep diagram: round-trip oracles that do not unfold it) and
//! `cov=1|2` (self-check of what the binary exports of the case cover of the escape / 7-bit integer
//! layer, signature escape-coverage-incomplete). Every binary BCDD export is also read by the
//! harness's own decoder and compared with the node list (binary-decode-mismatch).
//!
//! Two more keys on `import` lines are ignored by the model: `what=<label>` and
//! `expect=<ok|err:load|err:import|reject:vars|reject:order|!ok>`, the verdict derived by hand from the
//! importer's checks for the crafted boundary inputs (cases `boundary-*`, see `boundaries`: every
//! guard of `import.rs` hit from both sides by a single-field patch of a real export); the run side
//! compares it with the real importer's verdict (signature boundary-verdict). `gen --suite boundaries`
//! writes these cases only.
//!
//! Oracle-only operations (stream `dddmp_fuzz`, no model): `truncall ...`, `fuzz ...` (see `step`).
//!
//! Oracle-only suite `gen --suite oom` (stream `dddmp_oom`, no model): `export` lines (reference
//! count oracles of the exporter, all five kinds) and
//! ```text
//! oom target=<kind> cmpl=<not|id> ascii=<0|1> ver=<2|3> roots=<f,..> res=<f,..|-> neg=<0|1>
//!        -> ok ref=<ok|err> peak=<i>/<t> need=<i>/<t> runs=<n> oomfail=<k> retried=<r> | skip:* | bad-op
//! ```
//! which exports `roots` from the (large) scenario manager and imports the file into fresh managers
//! of kind `target` whose inner-node capacity (and, for MTBDDs, terminal capacity) sweeps from
//! "nothing free" up to just enough (see `oom_target`).
#![allow(clippy::type_complexity)]

use oxidd::bcdd::BCDDFunction;
use oxidd::bdd::BDDFunction;
use oxidd::mtbdd::MTBDDFunction;
use oxidd::mtbdd::terminal::I64;
use oxidd::tdd::TDDFunction;
use oxidd::zbdd::ZBDDFunction;
use oxidd::{
    BooleanFunction, Edge, Function, HasLevel, InnerNode, Manager, ManagerRef, Node, PseudoBooleanFunction,
    TVLFunction,
};
use oxidd_dump::AsciiDisplay;
use oxidd_dump::dddmp::{self, DDDMPVersion, DumpHeader, ExportSettings};
use oxv::*;
use std::collections::{BTreeMap, BTreeSet};
use std::fmt;
use std::io::{self, Write};
use std::panic::{AssertUnwindSafe, catch_unwind};

// ------------------------------------------------------------------------------------------------
// small helpers

fn to_hex(b: &[u8]) -> String {
    const H: &[u8; 16] = b"0123456789abcdef";
    let mut s = String::with_capacity(b.len() * 2);
    for &c in b {
        s.push(H[(c >> 4) as usize] as char);
        s.push(H[(c & 15) as usize] as char);
    }
    s
}
fn from_hex(s: &str) -> Option<Vec<u8>> {
    let b = s.as_bytes();
    if b.len() % 2 != 0 {
        return None;
    }
    let v = |c: u8| match c {
        b'0'..=b'9' => Some(c - b'0'),
        b'a'..=b'f' => Some(c - b'a' + 10),
        _ => None,
    };
    let mut o = Vec::with_capacity(b.len() / 2);
    for p in b.chunks(2) {
        o.push(v(p[0])? * 16 + v(p[1])?);
    }
    Some(o)
}
fn hex_name(s: &[u8]) -> String {
    if s.is_empty() { "_".into() } else { to_hex(s) }
}
fn from_hex_name(s: &str) -> Option<Vec<u8>> {
    if s == "_" { Some(Vec::new()) } else { from_hex(s) }
}
fn kv<'a>(ws: &[&'a str], key: &str) -> Option<&'a str> {
    ws.iter().find_map(|w| w.strip_prefix(key).and_then(|r| r.strip_prefix('=')))
}
fn split_comma(s: &str) -> Vec<&str> {
    if s == "-" { Vec::new() } else { s.split(',').collect() }
}
fn comma<T: fmt::Display>(xs: &[T]) -> String {
    if xs.is_empty() {
        "-".into()
    } else {
        xs.iter().map(|x| x.to_string()).collect::<Vec<_>>().join(",")
    }
}
fn panic_msg(e: Box<dyn std::any::Any + Send>) -> String {
    if let Some(s) = e.downcast_ref::<String>() {
        s.clone()
    } else if let Some(s) = e.downcast_ref::<&str>() {
        s.to_string()
    } else {
        "?".into()
    }
}
/// stable signature of an importer panic
fn panic_sig(msg: &str) -> &'static str {
    if msg.contains("index out of bounds") {
        "import-panic-index-oob"
    } else if msg.contains("subtract with overflow") {
        "import-panic-sub-overflow"
    } else if msg.contains("could not find the T terminal") {
        "import-panic-no-T-terminal"
    } else if msg.contains("capacity overflow") {
        "import-panic-capacity-overflow"
    } else if msg.contains("check_level") {
        "import-panic-level-assert"
    } else {
        "import-panic"
    }
}

struct Asc<'a, T>(&'a T);
impl<T: AsciiDisplay> fmt::Display for Asc<'_, T> {
    fn fmt(&self, f: &mut fmt::Formatter<'_>) -> fmt::Result {
        self.0.fmt(f)
    }
}

#[derive(Clone, Debug)]
struct ExpSettings {
    ascii: bool,
    v3: bool,
    strict: bool,
    dd: String,
}

#[derive(Clone, Debug, Default)]
struct MgrInfo {
    nvars: u32,
    names: Vec<String>,
    v2l: Vec<u32>,
    l2v: Vec<u32>,
    nterm: usize,
}

/// structured view of a diagram in export order (what the model exporter consumes)
#[derive(Clone, Debug, Default, PartialEq)]
struct SView {
    terms: Vec<String>,
    nodes: Vec<(u32, Vec<i64>)>,
    rootids: Vec<i64>,
}

#[derive(Clone, Copy, PartialEq)]
enum Rule {
    /// children pairwise different is not required, only "not all equal" (BDD, MTBDD: t != e; TDD)
    NotAllEqual,
    Bcdd,
    Zbdd,
}

// ------------------------------------------------------------------------------------------------
// generic walks over a manager

/// unfolded tree with variable numbers, `~` marks a complemented edge
fn tree_str<M: Manager>(m: &M, e: &M::Edge, out: &mut String)
where
    M::InnerNode: HasLevel,
    M::Terminal: AsciiDisplay,
{
    if e.tag() != Default::default() {
        out.push('~');
    }
    match m.get_node(e) {
        Node::Inner(n) => {
            out.push_str(&format!("(v{}", m.level_to_var(n.level())));
            for c in n.children() {
                out.push(' ');
                tree_str(m, &c, out);
            }
            out.push(')');
        }
        Node::Terminal(t) => {
            use std::borrow::Borrow;
            out.push_str(&Asc::<M::Terminal>(t.borrow()).to_string());
        }
    }
}

fn support_levels<M: Manager>(m: &M, e: &M::Edge, seen: &mut BTreeSet<oxidd::NodeID>, levels: &mut BTreeSet<u32>)
where
    M::InnerNode: HasLevel,
{
    if let Node::Inner(n) = m.get_node(e) {
        if !seen.insert(e.node_id()) {
            return;
        }
        levels.insert(n.level());
        for c in n.children() {
            support_levels(m, &c, seen, levels);
        }
    }
}

/// structural sanity of a diagram: ordered and reduced w.r.t. the kind's rule
fn check_sane<M: Manager>(m: &M, e: &M::Edge, rule: Rule, seen: &mut BTreeSet<oxidd::NodeID>) -> Result<(), String>
where
    M::InnerNode: HasLevel,
    M::Terminal: AsciiDisplay,
{
    if let Node::Inner(n) = m.get_node(e) {
        if !seen.insert(e.node_id()) {
            return Ok(());
        }
        let lvl = n.level();
        if lvl >= m.num_levels() {
            return Err(format!("level {lvl} out of range"));
        }
        let mut strs = Vec::new();
        for (i, c) in n.children().enumerate() {
            if m.get_node(&c).level() <= lvl {
                return Err(format!("child level {} <= node level {lvl}", m.get_node(&c).level()));
            }
            let mut s = String::new();
            tree_str(m, &c, &mut s);
            if rule == Rule::Bcdd && i == 0 && c.tag() != Default::default() {
                return Err("complemented then-edge".into());
            }
            if rule == Rule::Zbdd && i == 0 && s == "E" {
                return Err("hi edge to the empty set".into());
            }
            strs.push(s);
        }
        if rule != Rule::Zbdd && strs.iter().all(|s| *s == strs[0]) {
            return Err("all children equal".into());
        }
        for c in n.children() {
            check_sane(m, &c, rule, seen)?;
        }
    }
    Ok(())
}

fn mgr_info<M: Manager>(m: &M) -> MgrInfo {
    let nvars = m.num_vars();
    MgrInfo {
        nvars,
        names: (0..nvars).map(|v| m.var_name(v).to_string()).collect(),
        v2l: (0..nvars).map(|v| m.var_to_level(v)).collect(),
        l2v: (0..nvars).map(|l| m.level_to_var(l)).collect(),
        nterm: m.num_terminals(),
    }
}

/// reference counts of all inner nodes as the public API reports them, plus the node counts
#[derive(Clone, Debug, Default, PartialEq)]
struct RcSnap {
    /// node id -> (level, ref_count)
    nodes: BTreeMap<oxidd::NodeID, (u32, usize)>,
    n_inner: usize,
    n_term: usize,
}

fn rc_snap<M: Manager>(m: &M) -> RcSnap
where
    M::InnerNode: HasLevel,
{
    use oxidd_core::LevelView;
    let mut nodes = BTreeMap::new();
    for view in m.levels() {
        let l = view.level_no();
        for e in view.iter() {
            if let Node::Inner(n) = m.get_node(e) {
                nodes.insert(e.node_id(), (l, n.ref_count()));
            }
        }
    }
    RcSnap { nodes, n_inner: m.num_inner_nodes(), n_term: m.num_terminals() }
}

fn describe_node<M: Manager>(m: &M, id: oxidd::NodeID) -> String
where
    M::InnerNode: HasLevel,
    M::Terminal: AsciiDisplay,
{
    use oxidd_core::LevelView;
    for view in m.levels() {
        for e in view.iter() {
            if e.node_id() == id {
                let mut s = String::new();
                tree_str(m, e, &mut s);
                if s.len() > 160 {
                    s.truncate(160);
                    s.push_str("...");
                }
                return s;
            }
        }
    }
    "?".into()
}

/// the exporter's walk: how often each node is reached (children are followed on the first visit)
fn visit_counts<M: Manager>(m: &M, e: &M::Edge, cnt: &mut BTreeMap<oxidd::NodeID, (bool, u32)>)
where
    M::InnerNode: HasLevel,
{
    match m.get_node(e) {
        Node::Inner(n) => {
            let c = cnt.entry(e.node_id()).or_insert((true, 0));
            c.1 += 1;
            if c.1 == 1 {
                for ch in n.children() {
                    visit_counts(m, &ch, cnt);
                }
            }
        }
        Node::Terminal(_) => {
            cnt.entry(e.node_id()).or_insert((false, 0)).1 += 1;
        }
    }
}

/// `e` is the node number `|id|` of the structured view (complemented iff `id < 0`), recursively;
/// `fwd`: node -> number, `used`: numbers seen (both directions must be functions)
fn sview_walk<M: Manager>(
    m: &M,
    e: &M::Edge,
    id: i64,
    sv: &SView,
    fwd: &mut BTreeMap<oxidd::NodeID, usize>,
    used: &mut BTreeSet<usize>,
) -> Result<(), String>
where
    M::InnerNode: HasLevel,
    M::Terminal: AsciiDisplay,
{
    let k = id.unsigned_abs() as usize;
    if (e.tag() != Default::default()) != (id < 0) {
        return Err(format!("complement mark of an edge to node {k}"));
    }
    if k == 0 || k > sv.terms.len() + sv.nodes.len() {
        return Err(format!("node number {k} out of range"));
    }
    if let Some(&k2) = fwd.get(&e.node_id()) {
        return if k2 == k { Ok(()) } else { Err(format!("one node is listed as {k2} and as {k}")) };
    }
    if !used.insert(k) {
        return Err(format!("two nodes are listed as {k}"));
    }
    fwd.insert(e.node_id(), k);
    match m.get_node(e) {
        Node::Terminal(t) => {
            use std::borrow::Borrow;
            let s = Asc::<M::Terminal>(t.borrow()).to_string();
            if sv.terms.get(k - 1) != Some(&s) {
                return Err(format!("node {k} is the terminal {s}"));
            }
        }
        Node::Inner(n) => {
            let Some((lvl, ch)) = k.checked_sub(sv.terms.len() + 1).and_then(|i| sv.nodes.get(i)) else {
                return Err(format!("node {k} is an inner node, listed as a terminal"));
            };
            if *lvl != n.level() || ch.len() != n.children().len() {
                return Err(format!("node {k}: level {} / {} children, listed with level {lvl} / {}", n.level(), n.children().len(), ch.len()));
            }
            for (c, &cid) in n.children().zip(ch) {
                sview_walk(m, &c, cid, sv, fwd, used)?;
            }
        }
    }
    Ok(())
}

/// simultaneous walk of two DAGs (possibly in two managers)
fn iso_walk<MA: Manager, MB: Manager>(
    ma: &MA,
    ea: &MA::Edge,
    mb: &MB,
    eb: &MB::Edge,
    fwd: &mut BTreeMap<oxidd::NodeID, oxidd::NodeID>,
    bwd: &mut BTreeMap<oxidd::NodeID, oxidd::NodeID>,
) -> Result<(), String>
where
    MA::InnerNode: HasLevel,
    MB::InnerNode: HasLevel,
    MA::Terminal: AsciiDisplay,
    MB::Terminal: AsciiDisplay,
{
    if (ea.tag() != Default::default()) != (eb.tag() != Default::default()) {
        return Err("complement marks differ".into());
    }
    match (fwd.get(&ea.node_id()), bwd.get(&eb.node_id())) {
        (Some(b), Some(a)) if *b == eb.node_id() && *a == ea.node_id() => return Ok(()),
        (None, None) => {}
        _ => return Err("the sharing of nodes differs".into()),
    }
    fwd.insert(ea.node_id(), eb.node_id());
    bwd.insert(eb.node_id(), ea.node_id());
    match (ma.get_node(ea), mb.get_node(eb)) {
        (Node::Terminal(x), Node::Terminal(y)) => {
            use std::borrow::Borrow;
            let (x, y) = (Asc::<MA::Terminal>(x.borrow()).to_string(), Asc::<MB::Terminal>(y.borrow()).to_string());
            if x != y {
                return Err(format!("terminal {y}, expected {x}"));
            }
        }
        (Node::Inner(x), Node::Inner(y)) => {
            let (vx, vy) = (ma.level_to_var(x.level()), mb.level_to_var(y.level()));
            if vx != vy {
                return Err(format!("a node of variable {vy}, expected variable {vx}"));
            }
            for (cx, cy) in x.children().zip(y.children()) {
                iso_walk(ma, &cx, mb, &cy, fwd, bwd)?;
            }
        }
        _ => return Err("a terminal in place of an inner node (or the other way round)".into()),
    }
    Ok(())
}

/// first difference between two snapshots; `all`: nodes only present in `after` count too
fn snap_diff(before: &RcSnap, after: &RcSnap, all: bool) -> Option<(oxidd::NodeID, String)> {
    for (id, (l, rc)) in &before.nodes {
        match after.nodes.get(id) {
            None => return Some((*id, format!("the node at level {l} with ref_count {rc} is gone"))),
            Some((l2, rc2)) => {
                if l != l2 || rc != rc2 {
                    return Some((*id, format!("ref_count {rc} (level {l}) before, {rc2} (level {l2}) after")));
                }
            }
        }
    }
    if all {
        for (id, (l, rc)) in &after.nodes {
            if !before.nodes.contains_key(id) {
                return Some((*id, format!("a new node at level {l} with ref_count {rc} exists")));
            }
        }
        if before.n_inner != after.n_inner {
            return Some((0, format!("num_inner_nodes() {} before, {} after", before.n_inner, after.n_inner)));
        }
    }
    if before.n_term != after.n_term {
        return Some((0, format!("num_terminals() {} before, {} after", before.n_term, after.n_term)));
    }
    None
}

// ------------------------------------------------------------------------------------------------
// per-kind operations on concrete function types

trait KindF: Function + Clone + PartialEq + 'static {
    const KIND: &'static str;
    const CAN_IMPORT: bool;
    fn new_mref(nvars: u32) -> Self::ManagerRef;
    fn build(mref: &Self::ManagerRef, nvars: u32, spec: &str) -> Option<Self>;
    /// value table over all assignments of `nvars` variables (empty if not available)
    fn table(&self, nvars: u32) -> String;
    fn export(
        mref: &Self::ManagerRef,
        roots: &[(&Self, String)],
        named: bool,
        st: &ExpSettings,
    ) -> (Vec<u8>, io::Result<()>);
    fn info(mref: &Self::ManagerRef) -> MgrInfo;
    /// fresh manager with `nvars` variables (named if `names` is given) and the given order
    fn make(nvars: u32, l2v: &[u32], names: Option<&[String]>) -> Option<Self::ManagerRef>;
    fn tree(&self) -> String;
    fn supp_levels(mref: &Self::ManagerRef, roots: &[&Self]) -> Vec<u32>;
    fn sane(&self) -> Result<(), String>;
    /// value under a full assignment (`a[v]` = variable `v`), if the kind has an `eval`
    fn eval_at(&self, _a: &[bool]) -> Option<String> {
        None
    }
    /// the structured view describes exactly the DAG below `roots` (no unfolding)
    fn matches_sview(mref: &Self::ManagerRef, roots: &[&Self], sv: &SView) -> Result<(), String>;
    /// `a[i]` and `b[i]` (possibly in different managers) are the same DAGs: same variables,
    /// terminals and complement marks, same sharing
    fn dag_iso(a: &[&Self], b: &[Self]) -> Result<(), String>;
    /// manager with a hard inner-node capacity (and terminal capacity where terminals are dynamic)
    fn new_mref_capped(inner: usize, terms: usize) -> Self::ManagerRef;
    fn make_capped(nvars: u32, l2v: &[u32], inner: usize, terms: usize) -> Option<Self::ManagerRef>;
    /// reference counts of all inner nodes (public API: `levels()` -> `ref_count()`) and the counts
    fn snap(mref: &Self::ManagerRef) -> RcSnap;
    /// `gc()`, then (`num_inner_nodes()`, `num_terminals()`)
    fn gc_counts(mref: &Self::ManagerRef) -> (usize, usize);
    /// (`num_inner_nodes()`, `num_terminals()`) without collecting
    fn counts(mref: &Self::ManagerRef) -> (usize, usize);
    /// unfolded tree of the inner node with the given id (for messages)
    fn describe(mref: &Self::ManagerRef, id: oxidd::NodeID) -> String;
    /// (inner nodes, terminals) that the exporter's walk from `roots` reaches more than once
    fn sharing(mref: &Self::ManagerRef, roots: &[&Self]) -> (usize, usize);
    /// `dddmp::import` with `support_vars`; `not`: pass `not_edge_owned` as complement, else identity
    fn import(
        mref: &Self::ManagerRef,
        rd: &mut &[u8],
        header: &DumpHeader,
        support_vars: &[u32],
        not: bool,
    ) -> io::Result<Vec<Self>>;
}

/// inner node capacity of a scenario manager
fn node_capacity(nvars: u32) -> usize {
    if nvars <= 12 { 1 << 16 } else { 1 << 22 }
}

fn parse_tt(spec: &str, nvars: u32) -> Option<Vec<bool>> {
    let h = spec.strip_prefix("tt=")?;
    let n = 1usize << nvars;
    let mut bits = Vec::with_capacity(n);
    for c in h.chars() {
        let v = c.to_digit(16)?;
        for k in 0..4 {
            bits.push((v >> k) & 1 != 0);
        }
    }
    if bits.len() < n {
        return None;
    }
    bits.truncate(n);
    Some(bits)
}

/// Shape of the ladder over `n` levels, per level: (then-child `a` levels below, else-child `b`
/// levels below or the constant false, else edge complemented). One node per level, so the
/// exporter numbers the node at level `i` with `n - i + 1` (terminal: 1) and a child `k` levels
/// below is `k` ids away. Going down, the else edges carry in turn the next relative id distance
/// (`n/2 - 3`, `n/2 - 4`, .. 2: written as a distance because it is smaller than the child's id)
/// and the next absolute child id (`(n+1)/2 - 2`, .. 2: written absolutely because the distance
/// is not smaller), so every value occurs. Every 16th level (`i % 16 == phase`) is a node whose
/// children both skip levels (then edge: the next scheduled value too), which gives variable codes
/// other than "next variable" and then-ids other than "previous node"; the level above it points to
/// both of its neighbours below, so the whole ladder hangs on the node at level 0.
fn ladder_shape(n: usize, phase: usize) -> Vec<(usize, Option<usize>, bool)> {
    const S: usize = 16;
    let p = phase % S;
    let skipper = |i: usize| i >= 2 && i % S == p && i + 5 <= n;
    let mut rel = (n / 2).saturating_sub(3);
    let mut abs = ((n + 1) / 2).saturating_sub(2);
    let mut turn = false;
    // the next scheduled child offset for a node at level `i`
    let mut take = |i: usize| -> Option<usize> {
        turn = !turn;
        if turn {
            rel = rel.min(((n - i) / 2).saturating_sub(1));
            let k = rel;
            (k >= 2 && i + k <= n - 1).then(|| {
                rel -= 1;
                k
            })
        } else {
            abs = abs.min((n + 1 - i) / 2);
            let v = abs;
            (v >= 2 && n + 1 - v >= i + 2).then(|| {
                abs -= 1;
                n + 1 - v - i
            })
        }
    };
    let mut out = Vec::with_capacity(n);
    for i in 0..n {
        let mut ce = (i * 7 + phase) % 3 == 0;
        if skipper(i + 1) {
            out.push((1, Some(2), ce));
        } else if skipper(i) {
            // (the two scheduled values go to the two edges in alternating order, so that the then
            // edge gets absolute ids and distances alike)
            let (x, y) = (take(i), take(i));
            let (a, b) = if (i / S) % 2 == 0 { (y.unwrap_or(2), x.unwrap_or(3)) } else { (x.unwrap_or(2), y.unwrap_or(3)) };
            if a == b {
                ce = true;
            }
            out.push((a, Some(b), ce));
        } else {
            out.push((1, take(i), ce));
        }
    }
    out
}

/// `ladder=<phase>`: the ladder over all `nvars` levels (see `ladder_shape`)
fn build_ladder<F: BooleanFunction>(mref: &F::ManagerRef, nvars: u32, phase: &str) -> Option<F> {
    let phase: usize = phase.parse().ok()?;
    let n = nvars as usize;
    if n < 8 {
        return None;
    }
    mref.with_manager_shared(|m| {
        let fconst = F::f(m);
        let shape = ladder_shape(n, phase);
        let mut node: Vec<Option<F>> = (0..n).map(|_| None).collect();
        node[n - 1] = Some(F::var(m, m.level_to_var(n as u32 - 1)).ok()?);
        for i in (0..n - 1).rev() {
            let x = F::var(m, m.level_to_var(i as u32)).ok()?;
            let (a, b, ce) = shape[i];
            let t = node[i + a].clone()?;
            let e = match b {
                Some(b) => {
                    let e = node[i + b].clone()?;
                    if ce { e.not().ok()? } else { e }
                }
                None => fconst.clone(),
            };
            node[i] = Some(x.ite(&t, &e).ok()?);
        }
        node[0].take()
    })
}

fn build_bool<F: BooleanFunction>(mref: &F::ManagerRef, nvars: u32, spec: &str) -> Option<F> {
    if let Some(p) = spec.strip_prefix("ladder=") {
        return build_ladder::<F>(mref, nvars, p);
    }
    let tt = parse_tt(spec, nvars)?;
    mref.with_manager_shared(|manager| {
        let vars: Vec<F> = (0..nvars).map(|v| F::var(manager, v).unwrap()).collect();
        fn rec<'id, F: BooleanFunction>(m: &F::Manager<'id>, vars: &[F], tt: &[bool], v: usize, base: usize) -> F {
            if v == 0 {
                return if tt[base] { F::t(m) } else { F::f(m) };
            }
            // split on the highest variable first: sub-tables are contiguous
            let half = 1usize << (v - 1);
            let lo = rec(m, vars, tt, v - 1, base);
            let hi = rec(m, vars, tt, v - 1, base + half);
            if lo == hi {
                return lo;
            }
            vars[v - 1].ite(&hi, &lo).unwrap()
        }
        Some(rec(manager, &vars, &tt, nvars as usize, 0))
    })
}

fn table_bool<F: BooleanFunction>(f: &F, nvars: u32) -> String {
    if nvars > 12 {
        return String::new();
    }
    (0..1u32 << nvars)
        .map(|a| if f.eval((0..nvars).map(|v| (v, (a >> v) & 1 != 0))) { '1' } else { '0' })
        .collect()
}

fn parse_i64_term(s: &str) -> Option<I64> {
    Some(match s {
        "NaN" => I64::NaN,
        "+Inf" => I64::PlusInf,
        "-Inf" => I64::MinusInf,
        _ => I64::Num(s.parse().ok()?),
    })
}

macro_rules! common_kind_fns {
    ($rule:expr) => {
        fn export(
            mref: &Self::ManagerRef,
            roots: &[(&Self, String)],
            named: bool,
            st: &ExpSettings,
        ) -> (Vec<u8>, io::Result<()>) {
            let mut out = Vec::new();
            let r = mref.with_manager_shared(|manager| {
                let s = ExportSettings::default()
                    .version(if st.v3 { DDDMPVersion::V3_0 } else { DDDMPVersion::V2_0 })
                    .strict(st.strict)
                    .diagram_name(&st.dd);
                let s = if st.ascii { s.ascii() } else { s.binary() };
                if named {
                    s.export_with_names(&mut out, manager, roots.iter().map(|(f, n)| (*f, n.as_str())))
                } else {
                    s.export(&mut out, manager, roots.iter().map(|(f, _)| *f))
                }
            });
            (out, r)
        }
        fn info(mref: &Self::ManagerRef) -> MgrInfo {
            mref.with_manager_shared(|manager| mgr_info(manager))
        }
        fn make_capped(nvars: u32, l2v: &[u32], inner: usize, terms: usize) -> Option<Self::ManagerRef> {
            let mref = Self::new_mref_capped(inner, terms);
            mref.with_manager_exclusive(|m| {
                m.add_vars(nvars);
                if !l2v.is_empty() {
                    oxidd_reorder::set_var_order(m, l2v);
                }
            });
            Some(mref)
        }
        fn matches_sview(mref: &Self::ManagerRef, roots: &[&Self], sv: &SView) -> Result<(), String> {
            mref.with_manager_shared(|manager| {
                if roots.len() != sv.rootids.len() {
                    return Err("number of roots".into());
                }
                let mut fwd = BTreeMap::new();
                let mut used = BTreeSet::new();
                for (r, &id) in roots.iter().zip(&sv.rootids) {
                    sview_walk(manager, r.as_edge(manager), id, sv, &mut fwd, &mut used)?;
                }
                if used.len() != sv.terms.len() + sv.nodes.len() {
                    return Err(format!("{} of {} listed nodes are reachable from the roots", used.len(), sv.terms.len() + sv.nodes.len()));
                }
                Ok(())
            })
        }
        fn dag_iso(a: &[&Self], b: &[Self]) -> Result<(), String> {
            if a.len() != b.len() {
                return Err(format!("{} roots, expected {}", b.len(), a.len()));
            }
            let (Some(fa), Some(fb)) = (a.first(), b.first()) else { return Ok(()) };
            fa.with_manager_shared(|ma, _| {
                fb.with_manager_shared(|mb, _| {
                    let mut fwd = BTreeMap::new();
                    let mut bwd = BTreeMap::new();
                    for (x, y) in a.iter().zip(b) {
                        iso_walk(ma, x.as_edge(ma), mb, y.as_edge(mb), &mut fwd, &mut bwd)?;
                    }
                    Ok(())
                })
            })
        }
        fn snap(mref: &Self::ManagerRef) -> RcSnap {
            mref.with_manager_shared(|manager| rc_snap(manager))
        }
        fn gc_counts(mref: &Self::ManagerRef) -> (usize, usize) {
            mref.with_manager_shared(|manager| {
                manager.gc();
                (manager.num_inner_nodes(), manager.num_terminals())
            })
        }
        fn counts(mref: &Self::ManagerRef) -> (usize, usize) {
            mref.with_manager_shared(|manager| (manager.num_inner_nodes(), manager.num_terminals()))
        }
        fn describe(mref: &Self::ManagerRef, id: oxidd::NodeID) -> String {
            mref.with_manager_shared(|manager| describe_node(manager, id))
        }
        fn sharing(mref: &Self::ManagerRef, roots: &[&Self]) -> (usize, usize) {
            mref.with_manager_shared(|manager| {
                let mut cnt = BTreeMap::new();
                for r in roots {
                    visit_counts(manager, r.as_edge(manager), &mut cnt);
                }
                (
                    cnt.values().filter(|(inner, c)| *inner && *c > 1).count(),
                    cnt.values().filter(|(inner, c)| !*inner && *c > 1).count(),
                )
            })
        }
        fn make(nvars: u32, l2v: &[u32], names: Option<&[String]>) -> Option<Self::ManagerRef> {
            let mref = Self::new_mref(nvars);
            let ok = mref.with_manager_exclusive(|m| {
                match names {
                    Some(ns) => {
                        if m.add_named_vars(ns.iter().cloned()).is_err() {
                            return false;
                        }
                    }
                    None => {
                        m.add_vars(nvars);
                    }
                }
                if m.num_vars() != nvars {
                    return false;
                }
                if !l2v.is_empty() {
                    oxidd_reorder::set_var_order(m, l2v);
                }
                true
            });
            ok.then_some(mref)
        }
        fn tree(&self) -> String {
            self.with_manager_shared(|manager, e| {
                let mut s = String::new();
                tree_str(manager, e, &mut s);
                s
            })
        }
        fn supp_levels(mref: &Self::ManagerRef, roots: &[&Self]) -> Vec<u32> {
            mref.with_manager_shared(|manager| {
                let mut seen = BTreeSet::new();
                let mut lv = BTreeSet::new();
                for r in roots {
                    support_levels(manager, r.as_edge(manager), &mut seen, &mut lv);
                }
                lv.into_iter().collect()
            })
        }
        fn sane(&self) -> Result<(), String> {
            self.with_manager_shared(|manager, e| check_sane(manager, e, $rule, &mut BTreeSet::new()))
        }
    };
}

macro_rules! bool_kind {
    ($ty:ty, $name:expr, $rule:expr, $new:expr) => {
        impl KindF for $ty {
            const KIND: &'static str = $name;
            const CAN_IMPORT: bool = true;
            fn new_mref(nvars: u32) -> Self::ManagerRef {
                let cap = node_capacity(nvars);
                $new(cap, 1 << 12, 1)
            }
            fn new_mref_capped(inner: usize, _terms: usize) -> Self::ManagerRef {
                $new(inner, 1 << 8, 1)
            }
            fn build(mref: &Self::ManagerRef, nvars: u32, spec: &str) -> Option<Self> {
                build_bool::<$ty>(mref, nvars, spec)
            }
            fn table(&self, nvars: u32) -> String {
                table_bool(self, nvars)
            }
            fn eval_at(&self, a: &[bool]) -> Option<String> {
                Some((self.eval(a.iter().enumerate().map(|(v, &b)| (v as u32, b))) as u8).to_string())
            }
            common_kind_fns!($rule);
            fn import(
                mref: &Self::ManagerRef,
                rd: &mut &[u8],
                header: &DumpHeader,
                support_vars: &[u32],
                not: bool,
            ) -> io::Result<Vec<Self>> {
                mref.with_manager_shared(|manager| {
                    if not {
                        dddmp::import::<$ty>(rd, header, manager, support_vars.iter().copied(), <$ty>::not_edge_owned)
                    } else {
                        dddmp::import::<$ty>(rd, header, manager, support_vars.iter().copied(), |_, e| Ok(e))
                    }
                })
            }
        }
    };
}

bool_kind!(BDDFunction, "bdd", Rule::NotAllEqual, oxidd::bdd::new_manager);
bool_kind!(BCDDFunction, "bcdd", Rule::Bcdd, oxidd::bcdd::new_manager);
bool_kind!(ZBDDFunction, "zbdd", Rule::Zbdd, oxidd::zbdd::new_manager);

type MT = MTBDDFunction<I64>;
impl KindF for MT {
    const KIND: &'static str = "mtbdd";
    const CAN_IMPORT: bool = true;
    fn new_mref(nvars: u32) -> Self::ManagerRef {
        oxidd::mtbdd::new_manager::<I64>(node_capacity(nvars), 1 << 10, 1 << 12, 1)
    }
    fn new_mref_capped(inner: usize, terms: usize) -> Self::ManagerRef {
        oxidd::mtbdd::new_manager::<I64>(inner, terms, 1 << 8, 1)
    }
    fn build(mref: &Self::ManagerRef, nvars: u32, spec: &str) -> Option<Self> {
        let vals: Vec<I64> = spec.strip_prefix("vals=")?.split(',').map(parse_i64_term).collect::<Option<_>>()?;
        if vals.len() != 1usize << nvars {
            return None;
        }
        mref.with_manager_shared(|manager| {
            if vals.iter().all(|v| *v == vals[0]) {
                // constant: do not create any other terminal
                return Some(MT::constant(manager, vals[0]).unwrap());
            }
            let vars: Vec<MT> = (0..nvars).map(|v| MT::var(manager, v).unwrap()).collect();
            fn rec<'id>(
                m: &<MT as Function>::Manager<'id>,
                vars: &[MT],
                vals: &[I64],
                v: usize,
                base: usize,
            ) -> MT {
                if v == 0 {
                    return MT::constant(m, vals[base]).unwrap();
                }
                let half = 1usize << (v - 1);
                let lo = rec(m, vars, vals, v - 1, base);
                let hi = rec(m, vars, vals, v - 1, base + half);
                if lo == hi {
                    return lo;
                }
                vars[v - 1].ite(&hi, &lo).unwrap()
            }
            Some(rec(manager, &vars, &vals, nvars as usize, 0))
        })
    }
    fn table(&self, nvars: u32) -> String {
        if nvars > 12 {
            return String::new();
        }
        (0..1u32 << nvars)
            .map(|a| Asc(&self.eval((0..nvars).map(|v| (v, (a >> v) & 1 != 0)))).to_string())
            .collect::<Vec<_>>()
            .join(",")
    }
    common_kind_fns!(Rule::NotAllEqual);
    fn import(
        mref: &Self::ManagerRef,
        rd: &mut &[u8],
        header: &DumpHeader,
        support_vars: &[u32],
        _not: bool,
    ) -> io::Result<Vec<Self>> {
        mref.with_manager_shared(|manager| {
            dddmp::import::<MT>(rd, header, manager, support_vars.iter().copied(), |_, e| Ok(e))
        })
    }
}

impl KindF for TDDFunction {
    const KIND: &'static str = "tdd";
    const CAN_IMPORT: bool = false;
    fn new_mref(nvars: u32) -> Self::ManagerRef {
        oxidd::tdd::new_manager(node_capacity(nvars), 1 << 12, 1)
    }
    fn new_mref_capped(inner: usize, _terms: usize) -> Self::ManagerRef {
        oxidd::tdd::new_manager(inner, 1 << 8, 1)
    }
    /// `tv=<digits>`: one digit (0 = F, 1 = T, 2 = U) per Boolean assignment; Shannon expansion with
    /// the ternary `ite`
    fn build(mref: &Self::ManagerRef, nvars: u32, spec: &str) -> Option<Self> {
        let vals: Vec<u8> = spec.strip_prefix("tv=")?.bytes().map(|b| b.wrapping_sub(b'0')).collect();
        if vals.len() != 1usize << nvars || vals.iter().any(|&v| v > 2) {
            return None;
        }
        mref.with_manager_shared(|manager| {
            let vars: Vec<TDDFunction> = (0..nvars).map(|v| TDDFunction::var(manager, v).unwrap()).collect();
            fn rec<'id>(
                m: &<TDDFunction as Function>::Manager<'id>,
                vars: &[TDDFunction],
                vals: &[u8],
                v: usize,
                base: usize,
            ) -> TDDFunction {
                if v == 0 {
                    return match vals[base] {
                        0 => TDDFunction::f(m),
                        1 => TDDFunction::t(m),
                        _ => TDDFunction::u(m),
                    };
                }
                let half = 1usize << (v - 1);
                let lo = rec(m, vars, vals, v - 1, base);
                let hi = rec(m, vars, vals, v - 1, base + half);
                if lo == hi {
                    return lo;
                }
                vars[v - 1].ite(&hi, &lo).unwrap()
            }
            Some(rec(manager, &vars, &vals, nvars as usize, 0))
        })
    }
    fn table(&self, _nvars: u32) -> String {
        String::new()
    }
    common_kind_fns!(Rule::NotAllEqual);
    fn import(
        _mref: &Self::ManagerRef,
        _rd: &mut &[u8],
        _header: &DumpHeader,
        _support_vars: &[u32],
        _not: bool,
    ) -> io::Result<Vec<Self>> {
        Err(io::Error::other("the importer only supports binary nodes"))
    }
}

// ------------------------------------------------------------------------------------------------
// manager life time
//
// Before /repo bfc0a3c a manager dropped before its GC thread first reached `wait` was never
// released (lost wakeup: two threads and its address space stayed). Scenario managers are
// retired into a list that is emptied only after a short pause; harmless now, and it keeps the
// scenario usable on a tree without that fix.

thread_local! {
    static GRAVEYARD: std::cell::RefCell<Vec<Box<dyn std::any::Any>>> = const { std::cell::RefCell::new(Vec::new()) };
}

fn bury() {
    let n = GRAVEYARD.with(|g| g.borrow().len());
    if n != 0 {
        std::thread::sleep(std::time::Duration::from_millis(3));
        let dead = GRAVEYARD.with(|g| std::mem::take(&mut *g.borrow_mut()));
        drop(dead);
    }
}

fn retire<T: 'static>(x: T) {
    let n = GRAVEYARD.with(|g| {
        g.borrow_mut().push(Box::new(x));
        g.borrow().len()
    });
    if n >= 128 {
        bury();
    }
}

/// a manager that is retired instead of dropped
struct Mgr<F: KindF>(Option<F::ManagerRef>);

impl<F: KindF> Mgr<F> {
    fn new(nvars: u32, l2v: &[u32], names: Option<&[String]>) -> Option<Self> {
        F::make(nvars, l2v, names).map(|m| Mgr(Some(m)))
    }
}
impl<F: KindF> Mgr<F> {
    fn new_capped(nvars: u32, l2v: &[u32], inner: usize, terms: usize) -> Option<Self> {
        F::make_capped(nvars, l2v, inner, terms).map(|m| Mgr(Some(m)))
    }
}
impl<F: KindF> std::ops::Deref for Mgr<F> {
    type Target = F::ManagerRef;
    fn deref(&self) -> &F::ManagerRef {
        self.0.as_ref().unwrap()
    }
}
impl<F: KindF> Drop for Mgr<F> {
    fn drop(&mut self) {
        if let Some(m) = self.0.take() {
            retire(m);
        }
    }
}

// ------------------------------------------------------------------------------------------------
// a manager with named functions

struct World<F: KindF> {
    mref: Mgr<F>,
    funcs: Vec<(String, F)>,
    /// how the manager and the functions were made (for the twin of the drain oracle)
    l2v: Vec<u32>,
    names: Option<Vec<String>>,
    specs: Vec<(String, String)>,
}

#[derive(Clone, Debug)]
struct RootSpec {
    func: String,
    /// `None`: no name given on the line (`export`), `Some`: the name passed to `export_with_names`
    name: Option<Vec<u8>>,
}

/// header accessors in the canonical text form shared with the model
fn hdr_str(h: &DumpHeader, ascii: bool) -> String {
    let names = match h.var_names() {
        None => "-".to_string(),
        Some(ns) => ns.iter().map(|n| hex_name(n.as_bytes())).collect::<Vec<_>>().join(","),
    };
    let rootnames = match h.root_names() {
        None => "-".to_string(),
        Some(ns) => ns.iter().map(|n| hex_name(n.as_bytes())).collect::<Vec<_>>().join(","),
    };
    format!(
        "mode={} nnodes={} nvars={} ids={} permids={} svo={} names={} rootnames={} dd={}",
        if ascii { "A" } else { "B" },
        h.num_nodes(),
        h.num_vars(),
        comma(h.support_vars()),
        comma(h.support_var_to_level()),
        comma(h.support_var_order()),
        names,
        rootnames,
        hex_name(h.diagram_name().unwrap_or("").as_bytes())
    )
}

fn file_mode_is_ascii(file: &[u8]) -> bool {
    // last `.mode` line before `.nodes` decides; only used for printing
    let mut ascii = true;
    for l in file.split(|&b| b == b'\n') {
        if l.starts_with(b".nodes") {
            break;
        }
        if l.starts_with(b".mode") {
            let v: Vec<u8> = l[5..].iter().copied().filter(|b| *b != b' ' && *b != b'\t' && *b != b'\r').collect();
            if v == b"B" {
                ascii = false
            } else if v == b"A" {
                ascii = true
            }
        }
    }
    ascii
}

enum ImpOut<F> {
    LoadErr,
    LoadPanic(String),
    Reject(&'static str),
    ImpErr,
    ImpPanic(String),
    Ok { hdr: String, roots: Vec<F> },
}

impl<F> ImpOut<F> {
    fn token(&self) -> String {
        match self {
            ImpOut::LoadErr => "err:load".into(),
            ImpOut::LoadPanic(_) => "panic:load".into(),
            ImpOut::Reject(w) => format!("reject:{w}"),
            ImpOut::ImpErr => "err:import".into(),
            ImpOut::ImpPanic(_) => "panic:import".into(),
            ImpOut::Ok { .. } => "ok".into(),
        }
    }
}

/// load the header and import into `mref`; `support`: `None` = `header.support_var_order()`
fn import_into<F: KindF>(mref: &F::ManagerRef, file: &[u8], not: bool, check_caller: bool) -> ImpOut<F> {
    let mut rd: &[u8] = file;
    let header = match catch_unwind(AssertUnwindSafe(|| DumpHeader::load(&mut rd))) {
        Err(e) => return ImpOut::LoadPanic(panic_msg(e)),
        Ok(Err(_)) => return ImpOut::LoadErr,
        Ok(Ok(h)) => h,
    };
    let info = F::info(mref);
    let support: Vec<u32> = header.support_var_order().to_vec();
    if check_caller {
        // obligations of the caller of `import` (its two `assert!`s and `var_to_level`)
        if header.support_vars().iter().any(|&v| v >= info.nvars) {
            return ImpOut::Reject("vars");
        }
        let lv: Vec<u32> = support.iter().map(|&v| info.v2l[v as usize]).collect();
        if !lv.windows(2).all(|w| w[0] < w[1]) {
            return ImpOut::Reject("order");
        }
    }
    let ascii = file_mode_is_ascii(file);
    match catch_unwind(AssertUnwindSafe(|| F::import(mref, &mut rd, &header, &support, not))) {
        Err(e) => ImpOut::ImpPanic(panic_msg(e)),
        Ok(Err(_)) => ImpOut::ImpErr,
        Ok(Ok(roots)) => ImpOut::Ok { hdr: hdr_str(&header, ascii), roots },
    }
}

/// parse the node section of an ASCII file written by the real exporter (harness-side reader,
/// independent of the importer): terminals, inner nodes `(var_idx, children)` and `.rootids`
fn parse_ascii_struct(file: &[u8]) -> Option<(Vec<String>, Vec<(u32, Vec<i64>)>, Vec<i64>)> {
    let text = std::str::from_utf8(file).ok()?;
    let mut in_nodes = false;
    let mut terms = Vec::new();
    let mut nodes = Vec::new();
    let mut rootids = Vec::new();
    for l in text.split('\n') {
        if !in_nodes {
            if let Some(r) = l.strip_prefix(".rootids") {
                rootids = r.split_ascii_whitespace().map(|x| x.parse().ok()).collect::<Option<_>>()?;
            }
            if l == ".nodes" {
                in_nodes = true;
            }
            continue;
        }
        if l == ".end" {
            break;
        }
        let w: Vec<&str> = l.split(' ').collect();
        if w.len() < 4 {
            return None;
        }
        let id: usize = w[0].parse().ok()?;
        if id != terms.len() + nodes.len() + 1 {
            return None;
        }
        let ch: Vec<i64> = w[2..].iter().map(|x| x.parse().ok()).collect::<Option<_>>()?;
        if ch.iter().all(|&c| c == 0) {
            if !nodes.is_empty() {
                return None;
            }
            terms.push(w[1].to_string());
        } else {
            nodes.push((w[1].parse().ok()?, ch));
        }
    }
    Some((terms, nodes, rootids))
}

/// unfold the structured view into tree strings (same format as `tree_str`)
fn sview_trees(sv: &SView, l2v: &[u32]) -> Vec<String> {
    let mut strs: Vec<String> = sv.terms.clone();
    for (lvl, ch) in &sv.nodes {
        let mut s = format!("(v{}", l2v.get(*lvl as usize).copied().unwrap_or(u32::MAX));
        for &c in ch {
            s.push(' ');
            if c < 0 {
                s.push('~');
            }
            s.push_str(strs.get(c.unsigned_abs() as usize - 1).map(|x| x.as_str()).unwrap_or("?"));
        }
        s.push(')');
        strs.push(s);
    }
    sv.rootids
        .iter()
        .map(|&r| {
            let t = strs.get(r.unsigned_abs() as usize - 1).cloned().unwrap_or("?".into());
            if r < 0 { format!("~{t}") } else { t }
        })
        .collect()
}

fn is_ctl_or_space(b: u8) -> bool {
    b.is_ascii_control() || b == b' '
}

impl<F: KindF> World<F> {
    fn get(&self, name: &str) -> Option<&F> {
        self.funcs.iter().find(|(n, _)| n == name).map(|(_, f)| f)
    }

    fn roots<'a>(&'a self, specs: &[RootSpec]) -> Option<Vec<(&'a F, String)>> {
        specs
            .iter()
            .map(|r| {
                let f = self.get(&r.func)?;
                let n = String::from_utf8(r.name.clone().unwrap_or_default()).ok()?;
                Some((f, n))
            })
            .collect()
    }

    /// the structured view of the diagram reachable from `specs` in the exporter's node order
    /// (taken from an ASCII export of the same roots; levels from the harness's own walk)
    fn sview(&self, specs: &[RootSpec]) -> Option<SView> {
        let roots = self.roots(specs)?;
        let st = ExpSettings { ascii: true, v3: false, strict: false, dd: String::new() };
        let (file, _) = F::export(&self.mref, &roots, false, &st);
        let (terms, nodes, rootids) = parse_ascii_struct(&file)?;
        let fs: Vec<&F> = roots.iter().map(|(f, _)| *f).collect();
        let lv = F::supp_levels(&self.mref, &fs);
        let nodes = nodes
            .into_iter()
            .map(|(vi, ch)| lv.get(vi as usize).map(|&l| (l, ch)))
            .collect::<Option<Vec<_>>>()?;
        Some(SView { terms, nodes, rootids })
    }
}

// ------------------------------------------------------------------------------------------------
// mutations of valid files

/// (start of the node section, start of the final `.end` line)
fn nodes_region(file: &[u8]) -> (usize, usize) {
    let pat = b"\n.nodes\n";
    let start = file.windows(pat.len()).position(|w| w == pat).map(|p| p + pat.len()).unwrap_or(file.len());
    let end = if file.ends_with(b".end\n") { file.len() - 5 } else { file.len() };
    (start.min(end), end)
}

fn line_starts(file: &[u8]) -> Vec<usize> {
    let mut v = vec![0];
    for (i, &b) in file.iter().enumerate() {
        if b == b'\n' && i + 1 < file.len() {
            v.push(i + 1);
        }
    }
    v
}

/// one seeded mutation; with `safe` the text part only receives bytes < 0x80 (so that the
/// importer's lossy UTF-8 conversion of names is the identity on what the model sees)
fn mutate(file: &[u8], rng: &mut Rng, safe: bool) -> (Vec<u8>, String) {
    let (ns, ne) = nodes_region(file);
    let binary = !file_mode_is_ascii(file);
    let mut f = file.to_vec();
    if f.is_empty() {
        return (f, "empty".into());
    }
    let text_byte = |rng: &mut Rng, pos: usize| -> u8 {
        let in_bin = binary && pos >= ns && pos < ne;
        if in_bin || !safe { rng.below(256) as u8 } else { rng.below(128) as u8 }
    };
    // lines that are text (all lines in ASCII mode, header and `.end` in binary mode)
    let starts: Vec<usize> = line_starts(file).into_iter().filter(|&s| !binary || s < ns || s >= ne).collect();
    let line_end = |s: usize| file[s..].iter().position(|&b| b == b'\n').map(|p| s + p + 1).unwrap_or(file.len());
    match rng.below(12) {
        0 => {
            let p = rng.below(f.len() as u64) as usize;
            f.truncate(p);
            (f, format!("trunc@{p}"))
        }
        1 => {
            let p = rng.below(f.len() as u64) as usize;
            let in_bin = binary && p >= ns && p < ne;
            let k = if in_bin || !safe { rng.below(8) } else { rng.below(7) };
            f[p] ^= 1 << k;
            (f, format!("flip@{p}.{k}"))
        }
        2 => {
            let p = rng.below(f.len() as u64) as usize;
            f[p] = text_byte(rng, p);
            (f, format!("set@{p}"))
        }
        3 => {
            let p = rng.below(f.len() as u64) as usize;
            f.remove(p);
            (f, format!("del@{p}"))
        }
        4 => {
            let p = rng.below(f.len() as u64 + 1) as usize;
            let b = text_byte(rng, p.min(f.len() - 1));
            f.insert(p, b);
            (f, format!("ins@{p}"))
        }
        5 => {
            let s = *rng.pick(&starts);
            let e = line_end(s);
            let l = file[s..e].to_vec();
            let at = *rng.pick(&starts);
            f.splice(at..at, l);
            (f, format!("dupline@{s}->{at}"))
        }
        6 => {
            let s = *rng.pick(&starts);
            let e = line_end(s);
            f.drain(s..e);
            (f, format!("delline@{s}"))
        }
        7 | 8 => {
            // numeric tweak
            let cands: Vec<usize> = starts.iter().copied().filter(|&s| file[s..line_end(s)].iter().any(|b| b.is_ascii_digit())).collect();
            if cands.is_empty() {
                return (f, "none".into());
            }
            let s = *rng.pick(&cands);
            let e = line_end(s);
            let l = &file[s..e];
            let key: Vec<u8> = l.iter().copied().take_while(|b| *b != b' ' && *b != b'\n').collect();
            // digit runs (skip the digits inside the key itself, e.g. ".ver DDDMP-2.0" is kept as a candidate)
            let mut runs = Vec::new();
            let mut i = 0;
            while i < l.len() {
                if l[i].is_ascii_digit() {
                    let st = i;
                    while i < l.len() && l[i].is_ascii_digit() {
                        i += 1;
                    }
                    runs.push((st, i));
                } else {
                    i += 1;
                }
            }
            let (a, b) = *rng.pick(&runs);
            let v: u128 = std::str::from_utf8(&l[a..b]).unwrap().parse().unwrap_or(0);
            let small = [v + 1, v.saturating_sub(1), 0, v + 2];
            let mid = [v + 1, v.saturating_sub(1), 0, 2 * v + 1, 4294967295, 4294967296, 1 << 63];
            // since fix 178db83 no capacity is taken from these counts (before: capacity overflow panic
            // from 2^61 on, allocation abort of the whole process below that)
            let huge = [v + 1, v.saturating_sub(1), 0, 1 << 40, 1 << 61, 1 << 63, u64::MAX as u128, 1 << 64];
            let nv = match key.as_slice() {
                b".nvars" | b".nsuppvars" => *rng.pick(&small),
                b".nnodes" | b".nroots" => *rng.pick(&huge),
                _ => *rng.pick(&mid),
            };
            f.splice(s + a..s + b, nv.to_string().into_bytes());
            (f, format!("num@{}:{}->{}", s + a, v, nv))
        }
        9 => {
            if starts.len() < 2 {
                return (f, "none".into());
            }
            let k = rng.below(starts.len() as u64 - 1) as usize;
            let (s1, s2) = (starts[k], starts[k + 1]);
            let (e1, e2) = (line_end(s1), line_end(s2));
            if e1 != s2 {
                return (f, "none".into());
            }
            let mut n = file[..s1].to_vec();
            n.extend_from_slice(&file[s2..e2]);
            n.extend_from_slice(&file[s1..e1]);
            n.extend_from_slice(&file[e2..]);
            (n, format!("swaplines@{s1}"))
        }
        10 => {
            if binary && ne > ns {
                // replace a byte of the node section by an "interesting" one
                let p = ns + rng.below((ne - ns) as u64) as usize;
                let vals = [0u8, 1, 2, 3, 4, 0x0a, 0x0d, 0x1a, 0x60, 0x7f, 0x40, 0x20, 0x24, 0xff, 0x80, 0x6c];
                f[p] = *rng.pick(&vals);
                (f, format!("binset@{p}"))
            } else {
                // toggle a sign in the text
                let p = rng.below(f.len() as u64) as usize;
                if f[p] == b'-' {
                    f.remove(p);
                } else if f[p] == b' ' {
                    f.insert(p + 1, b'-');
                }
                (f, format!("sign@{p}"))
            }
        }
        _ => {
            // flip the mode line
            let pat = if binary { b".mode B" } else { b".mode A" };
            if let Some(p) = file.windows(7).position(|w| w == pat) {
                f[p + 6] = if binary { b'A' } else { b'B' };
            }
            (f, "modeflip".into())
        }
    }
}

// ------------------------------------------------------------------------------------------------
// steps on the real code, with the property-level oracles

// ------------------------------------------------------------------------------------------------
// the binary node section read by the harness (independent of the importer), and what the exported
// files cover of the escape / 7-bit integer layer

#[derive(Clone, Copy, PartialEq, Debug)]
enum BCode {
    Terminal,
    Abs,
    Rel,
    Rel1,
}

/// one 7-bit integer of a node record: role (0 variable, 1 then, 2 else), code, value, logical bytes
struct BinInt {
    role: usize,
    code: BCode,
    value: usize,
    bytes: Vec<u8>,
}

struct BinNode {
    var: (BCode, usize),
    t: (BCode, usize),
    e_neg: bool,
    e: (BCode, usize),
}

struct BinSection {
    nodes: Vec<BinNode>,
    ints: Vec<BinInt>,
    /// logical (unescaped) bytes of the section
    hist: [u64; 256],
    node_codes: Vec<u8>,
}

/// DDDMP binary node records: every logical byte 0x00 / 0x0a / 0x0d / 0x1a is written as
/// 0x00 followed by 0x00 / 0x01 / 0x02 / 0x03; integers are big-endian groups of 7 bits, the low
/// bit of a byte says that another byte follows; node code = var<<5 | then<<3 | neg<<2 | else
fn decode_bin_section(file: &[u8]) -> Result<BinSection, String> {
    let (start, end) = nodes_region(file);
    let b = &file[start..end];
    let mut p = 0usize;
    let mut hist = [0u64; 256];
    let mut byte = |p: &mut usize| -> Result<u8, String> {
        let c = *b.get(*p).ok_or("node section ends inside a record")?;
        *p += 1;
        let v = if c == 0 {
            let d = *b.get(*p).ok_or("node section ends inside an escape sequence")?;
            *p += 1;
            match d {
                0 => 0x00,
                1 => 0x0a,
                2 => 0x0d,
                3 => 0x1a,
                _ => return Err(format!("escape sequence 00 {d:02x} at offset {}", *p - 2)),
            }
        } else if matches!(c, 0x0a | 0x0d | 0x1a) {
            return Err(format!("unescaped byte {c:02x} at offset {}", *p - 1));
        } else {
            c
        };
        hist[v as usize] += 1;
        Ok(v)
    };
    let code = |c: u8| match c & 3 {
        0 => BCode::Terminal,
        1 => BCode::Abs,
        2 => BCode::Rel,
        _ => BCode::Rel1,
    };
    let mut nodes = Vec::new();
    let mut ints = Vec::new();
    let mut node_codes = Vec::new();
    while p < b.len() {
        let nc = byte(&mut p)?;
        if nc & 0x80 != 0 {
            return Err(format!("node code {nc:02x}"));
        }
        node_codes.push(nc);
        let (vc, tc, neg, ec) = (code(nc >> 5), code(nc >> 3), nc & 4 != 0, code(nc));
        let mut vals = [0usize; 3];
        if vc != BCode::Terminal {
            for (role, c) in [vc, tc, ec].into_iter().enumerate() {
                if matches!(c, BCode::Abs | BCode::Rel) {
                    let mut bytes = Vec::new();
                    let mut v = 0usize;
                    loop {
                        let x = byte(&mut p)?;
                        bytes.push(x);
                        v = v.checked_mul(128).ok_or("integer too long")? | (x >> 1) as usize;
                        if x & 1 == 0 {
                            break;
                        }
                    }
                    vals[role] = v;
                    ints.push(BinInt { role, code: c, value: v, bytes });
                }
            }
        }
        nodes.push(BinNode { var: (vc, vals[0]), t: (tc, vals[1]), e_neg: neg, e: (ec, vals[2]) });
    }
    Ok(BinSection { nodes, ints, hist, node_codes })
}

/// the decoded records denote the node list `sv` (what the ASCII export of the same roots lists)
fn bin_matches_sview(sec: &BinSection, sv: &SView) -> Result<(), String> {
    let nterm = sv.terms.len();
    if sec.nodes.len() != nterm + sv.nodes.len() {
        return Err(format!("{} records, the diagram has {} nodes", sec.nodes.len(), nterm + sv.nodes.len()));
    }
    let levels: BTreeSet<u32> = sv.nodes.iter().map(|(l, _)| *l).collect();
    let levels: Vec<u32> = levels.into_iter().collect();
    let nsupp = levels.len();
    // support index of every node number (terminals: number of support variables)
    let var_of = |id: usize| -> usize {
        match id.checked_sub(nterm + 1).and_then(|i| sv.nodes.get(i)) {
            Some((l, _)) => levels.binary_search(l).unwrap_or(nsupp),
            None => nsupp,
        }
    };
    for (i, rec) in sec.nodes.iter().enumerate() {
        let id = i + 1;
        if i < nterm {
            if rec.var.0 != BCode::Terminal {
                return Err(format!("record {id} is not a terminal record"));
            }
            continue;
        }
        let (lvl, ch) = &sv.nodes[i - nterm];
        if ch.len() != 2 {
            return Err("arity".into());
        }
        let child = |c: (BCode, usize)| -> Option<usize> {
            match c.0 {
                BCode::Terminal => Some(1),
                BCode::Abs => Some(c.1),
                BCode::Rel => id.checked_sub(c.1),
                BCode::Rel1 => Some(id - 1),
            }
        };
        let (t, e) = (child(rec.t), child(rec.e));
        let (wt, we) = (ch[0], ch[1]);
        if t != Some(wt.unsigned_abs() as usize) || wt < 0 {
            return Err(format!("record {id}: then child {t:?}, the diagram has {wt}"));
        }
        if e != Some(we.unsigned_abs() as usize) || rec.e_neg != (we < 0) {
            return Err(format!("record {id}: else child {e:?} (complemented: {}), the diagram has {we}", rec.e_neg));
        }
        let minv = var_of(wt.unsigned_abs() as usize).min(var_of(we.unsigned_abs() as usize));
        let v = match rec.var.0 {
            BCode::Terminal => None,
            BCode::Abs => Some(rec.var.1),
            BCode::Rel => minv.checked_sub(rec.var.1),
            BCode::Rel1 => minv.checked_sub(1),
        };
        let want = levels.binary_search(lvl).ok();
        if v != want || v.is_none() {
            return Err(format!("record {id}: variable {v:?}, the diagram has support variable {want:?}"));
        }
    }
    Ok(())
}

/// what the binary exports of the current case reached
#[derive(Default)]
struct EscCov {
    files: u64,
    /// a node section could not be read or denotes another diagram (reported): no self-check
    broken: bool,
    hist: Vec<u64>,
    /// position classes of the escaped bytes, e.g. `0d-first2`
    pos: BTreeMap<String, u64>,
    /// `var-abs`, `then-rel`, ...: (count, largest value)
    roles: BTreeMap<String, (u64, usize)>,
    /// values of child ids written absolutely / as a distance
    abs_vals: BTreeSet<usize>,
    rel_vals: BTreeSet<usize>,
    max_len: usize,
}

thread_local! {
    static ESC: std::cell::RefCell<EscCov> = std::cell::RefCell::new(EscCov::default());
}

/// classes every run of the `escape-coverage` case must reach (the feasible ones: 0x0d is odd, so
/// it is never the last byte of an integer; 0x00 / 0x0a / 0x1a are even, so they are always the
/// last byte; 0x0d as the first of three bytes needs child ids >= 98304, counted but not required)
const ESC_REQUIRED: [&str; 11] =
    ["00-nodecode", "00-last2", "00-last3", "0a-single", "0a-last2", "0a-last3", "1a-single", "1a-last2", "1a-last3", "0d-first2", "0d-mid3"];
const ROLE_REQUIRED: [&str; 6] = ["var-abs", "var-rel", "then-abs", "then-rel", "else-abs", "else-rel"];

fn esc_record(sec: &BinSection, ctx: &mut Ctx) {
    ESC.with(|c| {
        let mut c = c.borrow_mut();
        c.files += 1;
        if c.hist.is_empty() {
            c.hist = vec![0; 256];
        }
        for (i, n) in sec.hist.iter().enumerate() {
            c.hist[i] += n;
        }
        let mut hit = |c: &mut EscCov, k: String| {
            ctx.count(&format!("esc-pos-{k}"));
            *c.pos.entry(k).or_insert(0) += 1;
        };
        if sec.node_codes.contains(&0) {
            hit(&mut c, "00-nodecode".into());
        }
        for x in &sec.ints {
            let n = x.bytes.len();
            c.max_len = c.max_len.max(n);
            for (j, &b) in x.bytes.iter().enumerate() {
                if matches!(b, 0x00 | 0x0a | 0x0d | 0x1a) {
                    let w = if n == 1 {
                        "single".to_string()
                    } else if j == 0 {
                        format!("first{}", n.min(4))
                    } else if j + 1 == n {
                        format!("last{}", n.min(4))
                    } else {
                        format!("mid{}", n.min(4))
                    };
                    hit(&mut c, format!("{b:02x}-{w}"));
                }
            }
            let key = format!("{}-{}", ["var", "then", "else"][x.role], if x.code == BCode::Abs { "abs" } else { "rel" });
            let e = c.roles.entry(key).or_insert((0, 0));
            e.0 += 1;
            e.1 = e.1.max(x.value);
            if x.role != 0 {
                if x.code == BCode::Abs {
                    c.abs_vals.insert(x.value);
                } else {
                    c.rel_vals.insert(x.value);
                }
            }
        }
    });
    ctx.add("esc-integers", sec.ints.len() as u64);
}

/// largest `n` such that every value `2..=n` is in the set
fn dense_upto(s: &BTreeSet<usize>) -> usize {
    let mut n = 1;
    while s.contains(&(n + 1)) {
        n += 1;
    }
    n
}

/// self-check of the `escape-coverage` case (`cov=1` on its last export; `cov=2`: also 0x0d as the
/// first of three bytes): the generator still reaches every byte value and every feasible position
/// of the escaped bytes
fn esc_selfcheck(ctx: &mut Ctx, first3: bool) {
    ESC.with(|c| {
        let c = c.borrow();
        if c.broken {
            ctx.count("esc-selfcheck-skipped");
            return;
        }
        let distinct = c.hist.iter().filter(|&&n| n > 0).count();
        let mut put = |k: &str, v: u64| {
            let e = ctx.stats.entry(k.into()).or_insert(0);
            *e = (*e).max(v);
        };
        put("esc-cov-files", c.files);
        put("esc-cov-distinct-byte-values", distinct as u64);
        put("esc-cov-abs-id-dense-upto", dense_upto(&c.abs_vals) as u64);
        put("esc-cov-rel-id-dense-upto", dense_upto(&c.rel_vals) as u64);
        put("esc-cov-abs-id-distinct", c.abs_vals.len() as u64);
        put("esc-cov-rel-id-distinct", c.rel_vals.len() as u64);
        put("esc-cov-max-integer-bytes", c.max_len as u64);
        for (k, (n, m)) in &c.roles {
            put(&format!("esc-cov-{k}-count"), *n);
            put(&format!("esc-cov-{k}-max"), *m as u64);
        }
        let mut missing: Vec<String> = Vec::new();
        if distinct != 256 {
            let m: Vec<String> = (0..256).filter(|&i| c.hist.get(i).copied().unwrap_or(0) == 0).map(|i| format!("{i:02x}")).collect();
            missing.push(format!("byte values {}", m.join(",")));
        }
        for k in ESC_REQUIRED.into_iter().chain(first3.then_some("0d-first3")) {
            if !c.pos.contains_key(k) {
                missing.push(format!("escaped byte position {k}"));
            }
        }
        for k in ROLE_REQUIRED {
            if !c.roles.contains_key(k) {
                missing.push(format!("integer class {k}"));
            }
        }
        if !missing.is_empty() {
            ctx.fail(
                "escape-coverage-incomplete",
                &format!("the binary exports of this case ({} files) no longer reach: {}", c.files, missing.join("; ")),
            );
        }
    });
}

fn sanitized(n: &[u8]) -> Vec<u8> {
    n.iter().map(|&b| if is_ctl_or_space(b) { b'_' } else { b }).collect()
}

/// import like `oxidd-cli`: fresh manager with `header.num_vars()` variables, support variables
/// ordered as in the file
fn import_cli_style<F: KindF>(file: &[u8], not: bool) -> (ImpOut<F>, Option<Mgr<F>>) {
    let mut rd: &[u8] = file;
    let header = match catch_unwind(AssertUnwindSafe(|| DumpHeader::load(&mut rd))) {
        Err(e) => return (ImpOut::LoadPanic(panic_msg(e)), None),
        Ok(Err(_)) => return (ImpOut::LoadErr, None),
        Ok(Ok(h)) => h,
    };
    if header.num_vars() > 4096 {
        return (ImpOut::Reject("nvars"), None);
    }
    let names: Option<Vec<String>> = header.var_names().map(|n| n.to_vec());
    // names are only used if they are accepted by the manager (unique)
    let mref = match Mgr::<F>::new(header.num_vars(), header.support_var_order(), names.as_deref()) {
        Some(m) => m,
        None => match Mgr::<F>::new(header.num_vars(), header.support_var_order(), None) {
            Some(m) => m,
            None => return (ImpOut::Reject("manager"), None),
        },
    };
    let out = import_into::<F>(&mref, file, not, false);
    (out, Some(mref))
}

/// oracles on an accepted (possibly mutated) file: ordered + reduced, and re-export / re-import
/// in the same manager gives the same handles
fn check_imported<F: KindF>(mref: &F::ManagerRef, roots: &[F], ctx: &mut Ctx, what: &str) {
    for r in roots {
        if let Err(e) = r.sane() {
            ctx.fail("import-unsane", &format!("{what}: imported diagram is not ordered/reduced: {e}"));
            return;
        }
    }
    let rs: Vec<(&F, String)> = roots.iter().map(|f| (f, String::new())).collect();
    let st = ExpSettings { ascii: true, v3: false, strict: false, dd: String::new() };
    let (file, res) = F::export(mref, &rs, false, &st);
    if res.is_err() {
        ctx.fail("import-unstable", &format!("{what}: re-export of imported roots failed"));
        return;
    }
    match import_into::<F>(mref, &file, true, false) {
        ImpOut::Ok { roots: again, .. } => {
            if again.len() != roots.len() || again.iter().zip(roots).any(|(a, b)| a != b) {
                ctx.fail("import-unstable", &format!("{what}: re-export/re-import changes the handles"));
            }
        }
        o => ctx.fail("import-unstable", &format!("{what}: re-import of a re-export gives {}", o.token())),
    }
}

thread_local! {
    static REPORTED: std::cell::RefCell<BTreeMap<(String, &'static str), u32>> = const { std::cell::RefCell::new(BTreeMap::new()) };
}

/// an importer panic is an oracle failure; at most three reports per case and signature
fn report_panic(ctx: &mut Ctx, what: &str, msg: &str) {
    let sig = panic_sig(msg);
    ctx.count(&format!("panics-{sig}"));
    let n = REPORTED.with(|r| {
        let mut r = r.borrow_mut();
        let e = r.entry((ctx.case.clone(), sig)).or_insert(0);
        *e += 1;
        *e
    });
    if n <= 3 {
        ctx.fail(sig, &format!("{what}: importer panicked: {msg}"));
    }
}

/// at most three reports per case and signature
fn report_limited(ctx: &mut Ctx, sig: &'static str, msg: &str) {
    ctx.count(&format!("fail-{sig}"));
    let n = REPORTED.with(|r| {
        let mut r = r.borrow_mut();
        let e = r.entry((ctx.case.clone(), sig)).or_insert(0);
        *e += 1;
        *e
    });
    if n <= 3 {
        ctx.fail(sig, msg);
    }
}

trait DynWorld {
    fn define(&mut self, name: &str, spec: &str) -> bool;
    fn info(&self) -> MgrInfo;
    fn sview_of(&self, specs: &[RootSpec]) -> Option<SView>;
    fn export_bytes(&self, st: &ExpSettings, specs: &[RootSpec], named: bool) -> Option<(Vec<u8>, bool)>;
    fn export_step(&self, st: &ExpSettings, specs: &[RootSpec], named: bool, line_sv: Option<&SView>, big: bool, ctx: &mut Ctx)
    -> String;
    fn truncall(&self, st: &ExpSettings, specs: &[RootSpec], ctx: &mut Ctx) -> String;
    fn fuzz(&self, st: &ExpSettings, specs: &[RootSpec], seed: u64, n: u64, ctx: &mut Ctx) -> String;
    fn oom(&self, a: &OomArgs, ctx: &mut Ctx) -> String;
}

impl<F: KindF> World<F> {
    /// the real exporter under the oracle "an export does not change any reference count": the
    /// reference counts of all inner nodes (`levels()` -> `ref_count()`), `num_inner_nodes()` and
    /// `num_terminals()` are the same before and after. `None`: the exporter panicked (reported).
    fn export_checked(&self, roots: &[(&F, String)], named: bool, st: &ExpSettings, ctx: &mut Ctx) -> Option<(Vec<u8>, io::Result<()>)> {
        let before = F::snap(&self.mref);
        let r = catch_unwind(AssertUnwindSafe(|| F::export(&self.mref, roots, named, st)));
        let (file, res) = match r {
            Ok(x) => x,
            Err(e) => {
                ctx.fail("export-panic", &format!("exporter panicked: {}", panic_msg(e)));
                return None;
            }
        };
        let after = F::snap(&self.mref);
        let mode = if file_mode_is_ascii(&file) { "ascii" } else { "binary" };
        let fs: Vec<&F> = roots.iter().map(|(f, _)| *f).collect();
        let (sh_i, sh_t) = F::sharing(&self.mref, &fs);
        ctx.count(&format!("rc-export-{}-{mode}", F::KIND));
        if sh_i > 0 {
            ctx.count(&format!("rc-export-shared-inner-{}-{mode}", F::KIND));
        }
        if sh_t > 0 {
            ctx.count(&format!("rc-export-shared-terminal-{}-{mode}", F::KIND));
        }
        if let Some((id, d)) = snap_diff(&before, &after, true) {
            let node = if id != 0 { F::describe(&self.mref, id) } else { "-".into() };
            report_limited(
                ctx,
                "export-changes-refcount",
                &format!(
                    "export kind={} mode={mode} v3={} named={named} of {} root(s) ({sh_i} inner node(s) and {sh_t} terminal(s) reached more than once) changed the manager: {d}; node {node}",
                    F::KIND,
                    st.v3,
                    roots.len()
                ),
            );
        }
        Some((file, res))
    }

    /// build all functions of this world again in an identically made manager, optionally export
    /// there, drop all handles and collect: (counts of the empty manager, counts at the end)
    fn twin_drain(&self, st: &ExpSettings, specs: &[RootSpec], named: bool, with_export: bool) -> Option<((usize, usize), (usize, usize))> {
        let info = F::info(&self.mref);
        let twin = Mgr::<F>::new(info.nvars, &self.l2v, self.names.as_deref())?;
        let base = F::gc_counts(&twin);
        {
            let mut built: Vec<(String, F)> = Vec::new();
            for (name, spec) in &self.specs {
                let f = F::build(&twin, info.nvars, spec)?;
                built.retain(|(n, _)| n != name);
                built.push((name.clone(), f));
            }
            if with_export {
                let roots: Vec<(&F, String)> = specs
                    .iter()
                    .map(|r| {
                        let f = built.iter().find(|(n, _)| *n == r.func).map(|(_, f)| f)?;
                        Some((f, String::from_utf8(r.name.clone().unwrap_or_default()).ok()?))
                    })
                    .collect::<Option<_>>()?;
                let _ = catch_unwind(AssertUnwindSafe(|| F::export(&twin, &roots, named, st)));
            }
        }
        Some((base, F::gc_counts(&twin)))
    }

    /// oracle "after an export, dropping all handles and `gc()` brings the manager back to its
    /// baseline" (this is what sees a surplus reference to a terminal: terminals report no
    /// reference count). Evaluated in a twin manager so that the scenario's handles stay.
    fn export_drain_oracle(&self, st: &ExpSettings, specs: &[RootSpec], named: bool, ctx: &mut Ctx) {
        if F::info(&self.mref).nvars > 10 {
            return;
        }
        let Some((base, end)) = self.twin_drain(st, specs, named, true) else { return };
        ctx.count(&format!("rc-drain-{}", F::KIND));
        if base == end {
            return;
        }
        // attribute: the same without the export
        if let Some((b2, e2)) = self.twin_drain(st, specs, named, false) {
            if b2 != e2 {
                report_limited(
                    ctx,
                    "build-leaks-reference",
                    &format!("kind={}: after building the functions, dropping them and gc() the manager holds {} inner nodes / {} terminals, empty it held {} / {}", F::KIND, e2.0, e2.1, b2.0, b2.1),
                );
                return;
            }
        }
        let sig = if base.0 != end.0 { "export-leaks-inner" } else { "export-leaks-terminal" };
        report_limited(
            ctx,
            sig,
            &format!(
                "export kind={} ascii={} v3={} named={named} roots={:?}: after the export, dropping every handle and gc() the manager holds {} inner nodes / {} terminals; before any function was built it held {} / {} (without the export it returns to that)",
                F::KIND,
                st.ascii,
                st.v3,
                specs.iter().map(|r| r.func.as_str()).collect::<Vec<_>>(),
                end.0,
                end.1,
                base.0,
                base.1
            ),
        );
    }

    /// round trip of a big diagram without unfolding it: import(export(f)) == f as handles in the
    /// same manager; in a fresh manager with the same order the imported DAG is isomorphic to the
    /// exported one (variables, complement marks, sharing) and evaluates alike on sampled
    /// assignments
    fn export_oracles_big(&self, file: &[u8], roots: &[(&F, String)], reported_err: bool, ctx: &mut Ctx) {
        let info = F::info(&self.mref);
        let fs: Vec<&F> = roots.iter().map(|(f, _)| *f).collect();
        let what = format!("export kind={} mode={} of a diagram over {} variables", F::KIND, if file_mode_is_ascii(file) { "ascii" } else { "binary" }, info.nvars);
        if !F::CAN_IMPORT || reported_err {
            return;
        }
        match import_into::<F>(&self.mref, file, true, false) {
            ImpOut::Ok { roots: got, .. } => {
                if got.len() != fs.len() || got.iter().zip(&fs).any(|(a, b)| a != *b) {
                    ctx.fail("import-same-neq", &format!("{what}: importing into the same manager gives different handles"));
                }
                ctx.count("roundtrip-same-ok");
            }
            ImpOut::ImpPanic(m) | ImpOut::LoadPanic(m) => report_panic(ctx, &format!("{what} (same manager)"), &m),
            o => ctx.fail("export-not-accepted", &format!("{what}: file written without error is not accepted ({})", o.token())),
        }
        let Some(fresh) = Mgr::<F>::new(info.nvars, &info.l2v, None) else { return };
        match import_into::<F>(&fresh, file, true, true) {
            ImpOut::Ok { roots: got, .. } => {
                if let Err(e) = F::dag_iso(&fs, &got) {
                    ctx.fail("import-fresh-differs", &format!("{what}: the diagram imported into a fresh manager differs: {e}"));
                }
                // evaluation samples (seeded by the file)
                let mut rng = Rng::new(file.len() as u64 ^ 0x5eed);
                let mut a = vec![false; info.nvars as usize];
                'samples: for k in 0..48 {
                    let dens = [2, 8, 14][k % 3];
                    for x in a.iter_mut() {
                        *x = rng.below(16) < dens;
                    }
                    for (f, g) in fs.iter().zip(&got) {
                        if f.eval_at(&a) != g.eval_at(&a) {
                            ctx.fail("import-fresh-differs", &format!("{what}: the function imported into a fresh manager evaluates differently (sample {k})"));
                            break 'samples;
                        }
                    }
                }
                ctx.count("roundtrip-fresh-ok");
            }
            ImpOut::ImpPanic(m) | ImpOut::LoadPanic(m) => report_panic(ctx, &format!("{what} (fresh manager)"), &m),
            o => ctx.fail("export-not-accepted", &format!("{what}: file written without error is not accepted by a fresh manager ({})", o.token())),
        }
    }

    fn orig_trees(&self, specs: &[RootSpec]) -> Vec<String> {
        specs.iter().map(|r| self.get(&r.func).map(|f| f.tree()).unwrap_or_default()).collect()
    }

    fn export_oracles(&self, st: &ExpSettings, specs: &[RootSpec], named: bool, file: &[u8], reported_err: bool, ctx: &mut Ctx) {
        let info = F::info(&self.mref);
        let roots = self.roots(specs).unwrap();
        let fs: Vec<&F> = roots.iter().map(|(f, _)| *f).collect();
        let trees: Vec<String> = fs.iter().map(|f| f.tree()).collect();
        let what = format!(
            "export kind={} ascii={} v3={} strict={} named={}",
            F::KIND, st.ascii, st.v3, st.strict, named
        );
        // --- header
        let mut rd: &[u8] = file;
        let header = match catch_unwind(AssertUnwindSafe(|| DumpHeader::load(&mut rd))) {
            Err(e) => return report_panic(ctx, &what, &panic_msg(e)),
            Ok(Err(e)) => {
                if !reported_err {
                    ctx.fail("export-not-accepted", &format!("{what}: header of a file written without error is rejected: {e}"));
                } else {
                    ctx.count("strict-error-file-rejected");
                }
                return;
            }
            Ok(Ok(h)) => h,
        };
        let lv = F::supp_levels(&self.mref, &fs);
        let mut supp_vars: Vec<u32> = lv.iter().map(|&l| info.l2v[l as usize]).collect();
        let order: Vec<u32> = supp_vars.clone();
        supp_vars.sort();
        let permids: Vec<u32> = supp_vars.iter().map(|&v| info.v2l[v as usize]).collect();
        if header.num_vars() != info.nvars
            || header.support_vars() != supp_vars
            || header.support_var_to_level() != permids
            || header.support_var_order() != order
            || header.num_roots() != specs.len()
            || header.num_support_vars() as usize != supp_vars.len()
        {
            ctx.fail("metadata-support-order", &format!("{what}: nvars/support/order/roots in the header differ from the manager: {header:?}"));
        }
        // --- variable names
        let all_named = info.names.iter().all(|n| !n.is_empty());
        let any_named = info.names.iter().any(|n| !n.is_empty());
        let expect_names = if st.strict { all_named } else { any_named };
        let needs = |n: &str| n.bytes().any(is_ctl_or_space);
        match header.var_names() {
            None => {
                if expect_names && info.nvars > 0 {
                    ctx.fail("metadata-names", &format!("{what}: variable names missing from the file"));
                }
            }
            Some(hn) => {
                if !expect_names {
                    ctx.fail("metadata-names", &format!("{what}: variable names exported although not all variables are named (strict)"));
                }
                let mut seen = BTreeSet::new();
                for (i, n) in hn.iter().enumerate() {
                    if n.is_empty() || n.bytes().any(is_ctl_or_space) {
                        ctx.fail("metadata-names", &format!("{what}: exported name {n:?} of variable {i} is empty or has a space/control character"));
                    }
                    if !seen.insert(n.clone()) {
                        ctx.fail("names-not-unique", &format!("{what}: exported variable name {n:?} occurs twice ({hn:?}; manager names {:?})", info.names));
                    }
                }
                // per variable (format 2.0 only identifies the support variables)
                for (i, orig) in info.names.iter().enumerate() {
                    if !st.v3 && !supp_vars.contains(&(i as u32)) {
                        continue;
                    }
                    let got = hn.get(i).cloned().unwrap_or_default();
                    let san = String::from_utf8(sanitized(orig.as_bytes())).unwrap();
                    let ok = if orig.is_empty() {
                        let t = got.trim_start_matches('_');
                        got.starts_with('_') && t == format!("x{i}")
                    } else if !needs(orig) {
                        got == *orig
                    } else {
                        got == san || (got.starts_with('_') && got.trim_start_matches('_') == format!("x{i}_{san}"))
                    };
                    if !ok {
                        ctx.fail("metadata-names", &format!("{what}: variable {i} named {orig:?} is exported as {got:?}"));
                    }
                }
                if !st.v3 {
                    // the non-support names keep their multiset
                    let mut a: Vec<&String> = hn.iter().collect();
                    a.sort();
                    a.dedup();
                    if a.len() != hn.len() {
                        ctx.count("v2-names-multiset-dups");
                    }
                }
            }
        }
        // --- root names
        let exp_roots: Option<Vec<String>> = if named && !specs.is_empty() {
            Some(
                specs
                    .iter()
                    .enumerate()
                    .map(|(i, r)| {
                        let n = r.name.clone().unwrap_or_default();
                        if n.is_empty() { format!("_f{i}") } else { String::from_utf8(sanitized(&n)).unwrap() }
                    })
                    .collect(),
            )
        } else {
            None
        };
        if header.root_names().map(|x| x.to_vec()) != exp_roots {
            ctx.fail("metadata-rootnames", &format!("{what}: root names {:?}, expected {:?}", header.root_names(), exp_roots));
        }
        // --- strict-mode reporting
        let dd_ctl = st.dd.bytes().any(|b| b.is_ascii_control());
        let names_need = expect_names && info.names.iter().any(|n| needs(n));
        let roots_need = named && specs.iter().any(|r| r.name.as_ref().map(|n| n.is_empty() || n.iter().any(|&b| is_ctl_or_space(b))).unwrap_or(true));
        let should_err = st.strict && (dd_ctl || names_need || roots_need);
        if should_err != reported_err {
            ctx.fail("strict-report", &format!("{what}: strict-mode error reported = {reported_err}, expected {should_err}"));
        }
        if reported_err {
            ctx.count("export-strict-error");
        }
        let dd_exp: String = st.dd.chars().map(|c| if c.is_ascii_control() { ' ' } else { c }).collect();
        if header.diagram_name().unwrap_or("") != dd_exp.trim_matches(|c| c == ' ' || c == '\t') {
            ctx.fail("metadata-dd", &format!("{what}: diagram name {:?} vs {:?}", header.diagram_name(), st.dd));
        } else if header.diagram_name().unwrap_or("") != dd_exp {
            ctx.count("dd-name-trimmed");
        }
        if !F::CAN_IMPORT {
            ctx.count("export-only-kind");
            return;
        }
        if F::KIND == "mtbdd" && !file_mode_is_ascii(file) {
            // known finding: `binary_supported()` only looks at the current number of terminals
            ctx.fail(
                "binary-export-loses-constant",
                &format!("{what}: an MTBDD manager holding a single terminal is exported in binary mode without an error; the file does not contain the terminal's value and the importer rejects it"),
            );
            return;
        }
        // --- same manager: handles equal
        match import_into::<F>(&self.mref, file, true, false) {
            ImpOut::Ok { roots: got, .. } => {
                if got.len() != fs.len() || got.iter().zip(&fs).any(|(a, b)| a != *b) {
                    ctx.fail("import-same-neq", &format!("{what}: importing into the same manager gives different handles"));
                }
                ctx.count("roundtrip-same-ok");
            }
            ImpOut::ImpPanic(m) | ImpOut::LoadPanic(m) => report_panic(ctx, &format!("{what} (same manager)"), &m),
            o => {
                if !reported_err {
                    ctx.fail("export-not-accepted", &format!("{what}: file written without error is not accepted ({})", o.token()));
                }
            }
        }
        // --- fresh manager (as the CLI does it): same functions, names from the header accepted
        if let Some(hn) = header.var_names() {
            if Mgr::<F>::new(header.num_vars(), &[], Some(hn)).is_none() {
                ctx.fail("fresh-names-rejected", &format!("{what}: a fresh manager does not accept the exported variable names {hn:?} (manager names {:?})", info.names));
            }
        }
        let (out, fresh) = import_cli_style::<F>(file, true);
        match out {
            ImpOut::Ok { roots: got, .. } => {
                let gt: Vec<String> = got.iter().map(|f| f.tree()).collect();
                let tb_o: Vec<String> = fs.iter().map(|f| f.table(info.nvars)).collect();
                let tb_g: Vec<String> = got.iter().map(|f| f.table(info.nvars)).collect();
                if gt != trees || tb_o != tb_g {
                    ctx.fail("import-fresh-differs", &format!("{what}: functions imported into a fresh manager differ: {gt:?} vs {trees:?}"));
                }
                if let Some(m) = &fresh {
                    let fi = F::info(m);
                    let lv2: Vec<u32> = header.support_var_order().iter().map(|&v| fi.v2l[v as usize]).collect();
                    if !lv2.windows(2).all(|w| w[0] < w[1]) {
                        ctx.fail("import-fresh-differs", &format!("{what}: fresh manager order incompatible"));
                    }
                }
                ctx.count("roundtrip-fresh-ok");
            }
            ImpOut::ImpPanic(m) | ImpOut::LoadPanic(m) => report_panic(ctx, &format!("{what} (fresh manager)"), &m),
            o => {
                if !reported_err {
                    ctx.fail("export-not-accepted", &format!("{what}: file written without error is not accepted by a fresh manager ({})", o.token()));
                }
            }
        }
    }
}

impl<F: KindF> DynWorld for World<F> {
    fn define(&mut self, name: &str, spec: &str) -> bool {
        let nvars = F::info(&self.mref).nvars;
        match F::build(&self.mref, nvars, spec) {
            Some(f) => {
                self.funcs.retain(|(n, _)| n != name);
                self.funcs.push((name.to_string(), f));
                self.specs.push((name.to_string(), spec.to_string()));
                true
            }
            None => false,
        }
    }
    fn info(&self) -> MgrInfo {
        F::info(&self.mref)
    }
    fn sview_of(&self, specs: &[RootSpec]) -> Option<SView> {
        self.sview(specs)
    }
    fn export_bytes(&self, st: &ExpSettings, specs: &[RootSpec], named: bool) -> Option<(Vec<u8>, bool)> {
        let roots = self.roots(specs)?;
        let (f, r) = F::export(&self.mref, &roots, named, st);
        Some((f, r.is_err()))
    }
    fn export_step(&self, st: &ExpSettings, specs: &[RootSpec], named: bool, line_sv: Option<&SView>, big: bool, ctx: &mut Ctx) -> String {
        let Some(roots) = self.roots(specs) else { return "bad-op".into() };
        let Some((file, res)) = self.export_checked(&roots, named, st, ctx) else { return "panic".into() };
        let binary = !file_mode_is_ascii(&file);
        ctx.count(&format!("export-{}-{}", F::KIND, if binary { "binary" } else { "ascii" }));
        self.export_drain_oracle(st, specs, named, ctx);
        // the structured view really describes the exported roots
        let sv = self.sview(specs);
        match &sv {
            Some(sv) => {
                let info = F::info(&self.mref);
                if big {
                    // (no unfolding: the diagrams of these lines are deep and heavily shared)
                    let fs: Vec<&F> = roots.iter().map(|(f, _)| *f).collect();
                    if let Err(e) = F::matches_sview(&self.mref, &fs, sv) {
                        ctx.fail("export-struct-mismatch", &format!("the node list of the ASCII export is not the exported diagram: {e}"));
                    }
                } else if sview_trees(sv, &info.l2v) != self.orig_trees(specs) {
                    ctx.fail("export-struct-mismatch", "the node list of the ASCII export does not unfold to the exported functions");
                }
                if let Some(l) = line_sv {
                    if *l != *sv {
                        ctx.count("node-order-differs-from-generator");
                    }
                }
                ctx.add("exported-nodes", sv.nodes.len() as u64);
            }
            None => ctx.fail("export-struct-mismatch", "cannot parse the node section of the ASCII export"),
        }
        // the binary node section, read by the harness's own decoder, is that node list
        // (the known-finding file of a single-constant MTBDD has no terminal value to compare)
        if binary && F::KIND == "bcdd" {
            match decode_bin_section(&file) {
                Ok(sec) => {
                    esc_record(&sec, ctx);
                    if let Some(sv) = &sv {
                        if let Err(e) = bin_matches_sview(&sec, sv) {
                            ESC.with(|c| c.borrow_mut().broken = true);
                            report_limited(ctx, "binary-decode-mismatch", &format!("binary export of {} nodes: the node section does not denote the exported diagram: {e}", sec.nodes.len()));
                        }
                    }
                }
                Err(e) => {
                    ESC.with(|c| c.borrow_mut().broken = true);
                    report_limited(ctx, "binary-decode-mismatch", &format!("binary export: the node section is not well-formed: {e}"));
                }
            }
        }
        if big {
            self.export_oracles_big(&file, &roots, res.is_err(), ctx);
        } else {
            self.export_oracles(st, specs, named, &file, res.is_err(), ctx);
        }
        format!("{} {}", if res.is_err() { "err" } else { "ok" }, to_hex(&file))
    }
    fn truncall(&self, st: &ExpSettings, specs: &[RootSpec], ctx: &mut Ctx) -> String {
        let Some(roots) = self.roots(specs) else { return "bad-op".into() };
        let (file, _) = F::export(&self.mref, &roots, false, st);
        let trees = self.orig_trees(specs);
        let (mut ok, mut err, mut pan) = (0, 0, 0);
        for p in 0..file.len() {
            let (out, m) = import_cli_style::<F>(&file[..p], true);
            match out {
                ImpOut::Ok { roots: got, .. } => {
                    ok += 1;
                    let gt: Vec<String> = got.iter().map(|f| f.tree()).collect();
                    if gt != trees {
                        ctx.fail("trunc-wrong-diagram", &format!("file truncated to {p} of {} bytes is accepted with different functions", file.len()));
                    }
                    check_imported::<F>(m.as_ref().unwrap(), &got, ctx, &format!("truncation at {p}"));
                }
                ImpOut::ImpPanic(m) | ImpOut::LoadPanic(m) => {
                    pan += 1;
                    report_panic(ctx, &format!("truncation at {p}"), &m);
                }
                _ => err += 1,
            }
        }
        ctx.add("truncations", file.len() as u64);
        format!("ok={ok} err={err} panic={pan}")
    }
    fn fuzz(&self, st: &ExpSettings, specs: &[RootSpec], seed: u64, n: u64, ctx: &mut Ctx) -> String {
        let Some(roots) = self.roots(specs) else { return "bad-op".into() };
        let (file, _) = F::export(&self.mref, &roots, true, st);
        let mut rng = Rng::new(seed);
        let (mut ok, mut err, mut pan, mut rej) = (0, 0, 0, 0);
        for _ in 0..n {
            let (mut f, mut label) = mutate(&file, &mut rng, false);
            if rng.chance(1, 4) {
                let (f2, l2) = mutate(&f, &mut rng, false);
                f = f2;
                label = format!("{label}+{l2}");
            }
            ctx.count(&format!("mut-{}", label.split('@').next().unwrap_or("")));
            let (out, m) = import_cli_style::<F>(&f, true);
            match out {
                ImpOut::Ok { roots: got, .. } => {
                    ok += 1;
                    check_imported::<F>(m.as_ref().unwrap(), &got, ctx, &format!("mutation {label} (seed {seed})"));
                }
                ImpOut::ImpPanic(m) | ImpOut::LoadPanic(m) => {
                    pan += 1;
                    report_panic(ctx, &format!("mutation {label} (seed {seed}) of a {} file", if st.ascii { "ascii" } else { "binary" }), &m);
                }
                ImpOut::Reject(_) => rej += 1,
                _ => err += 1,
            }
        }
        ctx.add("fuzz-ok", ok);
        ctx.add("fuzz-err", err);
        ctx.add("fuzz-panic", pan);
        format!("ok={ok} err={err} panic={pan} reject={rej}")
    }
    fn oom(&self, a: &OomArgs, ctx: &mut Ctx) -> String {
        let nvars = F::info(&self.mref).nvars;
        let (Some(roots), Some(res)) = (self.roots(&a.roots), self.roots(&a.res)) else { return "bad-op".into() };
        if !F::CAN_IMPORT || nvars > 12 {
            return "bad-op".into();
        }
        let Some((file, r)) = self.export_checked(&roots, false, &a.st, ctx) else { return "panic".into() };
        if r.is_err() {
            return "bad-op".into();
        }
        let ascii = file_mode_is_ascii(&file);
        if F::KIND != a.target && ascii && !["bdd", "bcdd", "zbdd"].contains(&a.target.as_str()) {
            return "bad-op".into();
        }
        let mut file = if ascii { retarget_terminals(&file, &a.target) } else { file };
        if a.neg {
            file = negate_rootids(&file);
        }
        let resfile = if res.is_empty() {
            None
        } else {
            let st = ExpSettings { ascii: true, v3: false, strict: false, dd: String::new() };
            let Some((f, _)) = self.export_checked(&res, false, &st, ctx) else { return "panic".into() };
            Some(retarget_terminals(&f, &a.target))
        };
        // what the imported roots must be, where the two kinds read a file in the same way
        let same_reading = F::KIND == a.target || (matches!(F::KIND, "bdd" | "bcdd") && matches!(a.target.as_str(), "bdd" | "bcdd"));
        let expected: Option<Vec<String>> = same_reading.then(|| {
            roots
                .iter()
                .map(|(f, _)| {
                    let t = f.table(nvars);
                    if a.neg && a.not && F::KIND != "mtbdd" {
                        t.chars().map(|c| if c == '0' { '1' } else { '0' }).collect()
                    } else {
                        t
                    }
                })
                .collect()
        });
        let order = F::info(&self.mref).l2v;
        let p = OomParams { src_kind: F::KIND, order: &order, file: &file, resfile: resfile.as_deref(), not: a.not, expected: expected.as_deref() };
        match a.target.as_str() {
            "bdd" => oom_target::<BDDFunction>(&p, ctx),
            "bcdd" => oom_target::<BCDDFunction>(&p, ctx),
            "zbdd" => oom_target::<ZBDDFunction>(&p, ctx),
            "mtbdd" if F::KIND == "mtbdd" => oom_target::<MT>(&p, ctx),
            _ => "bad-op".into(),
        }
    }
}

// ------------------------------------------------------------------------------------------------
// imports under resource exhaustion (oracle only)

#[derive(Clone, Debug)]
struct OomArgs {
    target: String,
    not: bool,
    st: ExpSettings,
    roots: Vec<RootSpec>,
    res: Vec<RootSpec>,
    neg: bool,
}

struct OomParams<'a> {
    src_kind: &'static str,
    /// variable order of the exporting manager (the target managers get the same)
    order: &'a [u32],
    file: &'a [u8],
    /// ASCII export of the functions that live in the target manager before the import
    resfile: Option<&'a [u8]>,
    not: bool,
    /// value tables the imported roots must have (`None`: only the reference import is known)
    expected: Option<&'a [String]>,
}

/// rewrite the terminal descriptors of an ASCII node section for another Boolean kind
/// (`T`/`F` <-> `B`/`E`); the node structure stays as exported
fn retarget_terminals(file: &[u8], target: &str) -> Vec<u8> {
    let (ns, ne) = nodes_region(file);
    if !file_mode_is_ascii(file) {
        return file.to_vec();
    }
    let mut out = file[..ns].to_vec();
    for l in file[ns..ne].split_inclusive(|&b| b == b'\n') {
        let body = l.strip_suffix(b"\n").unwrap_or(l);
        let w: Vec<&[u8]> = body.split(|&b| b == b' ').collect();
        if w.len() >= 3 && w[2..].iter().all(|c| *c == b"0") {
            let d: &[u8] = match (target, w[1]) {
                ("zbdd", b"T") => b"B",
                ("zbdd", b"F") => b"E",
                ("bdd" | "bcdd", b"B") => b"T",
                ("bdd" | "bcdd", b"E") => b"F",
                (_, d) => d,
            };
            out.extend_from_slice(w[0]);
            out.push(b' ');
            out.extend_from_slice(d);
            for c in &w[2..] {
                out.push(b' ');
                out.extend_from_slice(c);
            }
            if l.ends_with(b"\n") {
                out.push(b'\n');
            }
        } else {
            out.extend_from_slice(l);
        }
    }
    out.extend_from_slice(&file[ne..]);
    out
}

/// flip the sign of every entry of `.rootids`: the importer then complements every root
fn negate_rootids(file: &[u8]) -> Vec<u8> {
    let (ns, _) = nodes_region(file);
    let mut out = Vec::with_capacity(file.len() + 8);
    let mut pos = 0;
    for l in file[..ns].split_inclusive(|&b| b == b'\n') {
        if let Some(r) = l.strip_prefix(b".rootids") {
            out.extend_from_slice(b".rootids");
            for t in String::from_utf8_lossy(r).split_ascii_whitespace() {
                out.push(b' ');
                match t.strip_prefix('-') {
                    Some(p) => out.extend_from_slice(p.as_bytes()),
                    None => {
                        out.push(b'-');
                        out.extend_from_slice(t.as_bytes());
                    }
                }
            }
            out.push(b'\n');
        } else {
            out.extend_from_slice(l);
        }
        pos += l.len();
    }
    out.extend_from_slice(&file[pos..]);
    out
}

enum Imp<F> {
    Panic(String),
    LoadErr,
    Err(io::ErrorKind, String),
    Ok(Vec<F>),
}

/// load the header and import with `header.support_var_order()` (as `oxidd-cli` does), keeping the
/// error kind
fn import_kind<F: KindF>(mref: &F::ManagerRef, file: &[u8], not: bool) -> Imp<F> {
    let mut rd: &[u8] = file;
    let header = match catch_unwind(AssertUnwindSafe(|| DumpHeader::load(&mut rd))) {
        Err(e) => return Imp::Panic(panic_msg(e)),
        Ok(Err(_)) => return Imp::LoadErr,
        Ok(Ok(h)) => h,
    };
    let support: Vec<u32> = header.support_var_order().to_vec();
    match catch_unwind(AssertUnwindSafe(|| F::import(mref, &mut rd, &header, &support, not))) {
        Err(e) => Imp::Panic(panic_msg(e)),
        Ok(Err(e)) => Imp::Err(e.kind(), e.to_string()),
        Ok(Ok(roots)) => Imp::Ok(roots),
    }
}

fn views<F: KindF>(fs: &[F], nvars: u32) -> (Vec<String>, Vec<String>) {
    (fs.iter().map(|f| f.tree()).collect(), fs.iter().map(|f| f.table(nvars)).collect())
}

/// what the import gives without any limit
enum RefOut {
    Ok(Vec<String>, Vec<String>),
    Err(io::ErrorKind),
}

enum RunOut {
    /// out of memory (or a panic): the capacity was not enough
    Fail,
    /// the import ended as it does without a limit
    Done,
    /// the run could not be set up / went wrong in a way that ends the sweep
    Stop,
}

struct OomSweep<'a, G: KindF> {
    p: &'a OomParams<'a>,
    tag: String,
    nvars: u32,
    order: Vec<u32>,
    /// same-kind ASCII file of the resident functions
    res_file: Option<Vec<u8>>,
    refout: RefOut,
    /// nodes / terminals a fresh manager allocates for the import (nothing is collected there)
    peak: (usize, usize),
    runs: u64,
    fails: u64,
    retried: u64,
    _g: std::marker::PhantomData<G>,
}

impl<G: KindF> OomSweep<'_, G> {
    fn what(&self, ci: usize, ct: usize) -> String {
        format!(
            "import of a {} file into a {} manager with capacity inner={ci}{} (cmpl={}, {} resident function(s))",
            self.tag,
            G::KIND,
            if G::KIND == "mtbdd" { format!(" terminals={ct}") } else { String::new() },
            if self.p.not { "not" } else { "id" },
            if self.res_file.is_some() { "with" } else { "no" }
        )
    }

    /// the roots of a finished import against the unlimited import and the exported functions
    fn check_result(&self, out: &Imp<G>, what: &str, ctx: &mut Ctx) -> bool {
        match (out, &self.refout) {
            (Imp::Ok(roots), RefOut::Ok(trees, tables)) => {
                let (t, tb) = views(roots, self.nvars);
                if t != *trees || tb != *tables {
                    report_limited(ctx, "oom-import-wrong-function", &format!("{what}: succeeds with {t:?}, without a limit the roots are {trees:?}"));
                    return false;
                }
                if let Some(exp) = self.p.expected {
                    if tb != exp {
                        report_limited(ctx, "oom-import-wrong-function", &format!("{what}: value tables {tb:?}, exported {exp:?}"));
                        return false;
                    }
                }
                true
            }
            (Imp::Err(k, _), RefOut::Err(k2)) if k == k2 => true,
            (Imp::Ok(_), RefOut::Err(k)) => {
                report_limited(ctx, "oom-import-wrong-function", &format!("{what}: succeeds, without a limit the import fails with {k:?}"));
                false
            }
            _ => false,
        }
    }

    /// one import into a fresh manager with the given capacities
    fn run(&mut self, ci: usize, ct: usize, ctx: &mut Ctx) -> RunOut {
        let what = self.what(ci, ct);
        self.runs += 1;
        let Some(m) = Mgr::<G>::new_capped(self.nvars, &self.order, ci, ct) else { return RunOut::Stop };
        let base = G::gc_counts(&m);
        // the functions that are already there
        let residents: Vec<G> = match &self.res_file {
            None => Vec::new(),
            Some(rf) => match import_kind::<G>(&m, rf, true) {
                Imp::Ok(r) => r,
                Imp::Panic(msg) => {
                    report_limited(ctx, "oom-import-panic", &format!("{what}: importing the resident functions panicked: {msg}"));
                    std::mem::forget(m);
                    return RunOut::Stop;
                }
                Imp::Err(_, e) => {
                    report_limited(ctx, "oom-resident-import-fails", &format!("{what}: the resident functions need exactly the inner nodes / terminals that are free, but their import fails: {e}"));
                    return RunOut::Stop;
                }
                Imp::LoadErr => return RunOut::Stop,
            },
        };
        let res_view = views(&residents, self.nvars);
        let counts0 = G::gc_counts(&m);
        let snap0 = G::snap(&m);
        let out = import_kind::<G>(&m, self.p.file, self.p.not);
        let finished = match (&out, &self.refout) {
            (Imp::Ok(_), _) => true,
            (Imp::Err(k, _), RefOut::Err(k2)) => k == k2,
            _ => false,
        };
        let dim = if G::KIND == "mtbdd" && G::counts(&m).1 >= ct { "terminal" } else { "inner" };
        match &out {
            Imp::Panic(msg) => {
                ctx.count(&format!("oom-panic-{}", self.tag));
                report_limited(ctx, "oom-import-panic", &format!("{what}: the importer panicked instead of returning an error: {msg}"));
                // the manager may hold half-built state: leak it
                std::mem::forget(residents);
                std::mem::forget(m);
                self.fails += 1;
                return RunOut::Fail;
            }
            Imp::LoadErr => return RunOut::Stop,
            Imp::Err(k, e) if !finished => {
                self.fails += 1;
                ctx.count(&format!("oom-fail-{}", self.tag));
                ctx.count(&format!("oom-fail-dim-{dim}"));
                if *k != io::ErrorKind::OutOfMemory {
                    report_limited(ctx, "oom-import-error-kind", &format!("{what}: fails with {k:?} ({e}) although the file is valid; expected ErrorKind::OutOfMemory"));
                }
            }
            _ => {
                ctx.count(&format!("oom-done-{}", self.tag));
            }
        }
        // --- the manager after the import (failed or not)
        // (reference counts are compared after gc(): until then the dead nodes of the attempt
        // still count as parents of the nodes they point to)
        let held = matches!(out, Imp::Ok(_));
        // (1) the existing handles are intact
        if views(&residents, self.nvars) != res_view {
            report_limited(ctx, "oom-import-corrupts-handle", &format!("{what}: a function that existed before the import changed: {:?} -> {:?}", res_view.0, views(&residents, self.nvars).0));
        }
        // (2) the result
        let good = finished && self.check_result(&out, &what, ctx);
        if let (true, Imp::Ok(roots)) = (good, &out) {
            check_imported::<G>(&m, roots, ctx, &what);
        }
        drop(out);
        // (3) everything the import made is collected: node counts, terminal count and every
        // reference count are exactly as before
        let counts1 = G::gc_counts(&m);
        let snap2 = G::snap(&m);
        if counts1 != counts0 {
            report_limited(
                ctx,
                "oom-import-leak",
                &format!("{what}: after the import{}, dropping its roots and gc() the manager holds {} inner nodes / {} terminals, before the import {} / {}", if held { "" } else { " failed" }, counts1.0, counts1.1, counts0.0, counts0.1),
            );
        } else if let Some((id, d)) = snap_diff(&snap0, &snap2, true) {
            let node = if id != 0 { G::describe(&m, id) } else { "-".into() };
            report_limited(ctx, "oom-import-leak", &format!("{what}: after the import, dropping its roots and gc() the reference counts differ from before: {d}; node {node}"));
        }
        // (4) without the resident functions the manager is empty again
        drop(residents);
        let counts2 = G::gc_counts(&m);
        if counts2 != base {
            report_limited(
                ctx,
                "oom-import-leak",
                &format!("{what}: after dropping every handle and gc() the manager holds {} inner nodes / {} terminals, empty it held {} / {}", counts2.0, counts2.1, base.0, base.1),
            );
        }
        // (5) a retry with enough room succeeds
        if !finished {
            let room_i = ci.saturating_sub(counts2.0) >= self.peak.0;
            let room_t = G::KIND != "mtbdd" || ct.saturating_sub(counts2.1) >= self.peak.1;
            if room_i && room_t {
                self.retried += 1;
                ctx.count("oom-retry");
                let again = import_kind::<G>(&m, self.p.file, self.p.not);
                let ok = match (&again, &self.refout) {
                    (Imp::Ok(_), RefOut::Ok(..)) => self.check_result(&again, &format!("{what}, retry after dropping the other functions and gc()"), ctx),
                    (Imp::Err(k, _), RefOut::Err(k2)) => k == k2,
                    _ => false,
                };
                if let Imp::Panic(msg) = &again {
                    report_limited(ctx, "oom-import-panic", &format!("{what}: the retry panicked: {msg}"));
                    std::mem::forget(again);
                    std::mem::forget(m);
                    return RunOut::Fail;
                }
                if !ok {
                    let d = match &again {
                        Imp::Err(k, e) => format!("fails with {k:?} ({e})"),
                        _ => "gives other functions".into(),
                    };
                    report_limited(
                        ctx,
                        "oom-retry-fails",
                        &format!("{what}: after the failure every handle was dropped and gc() ran; {} inner nodes are free and a fresh manager needs {}, but the retry {d}", ci.saturating_sub(counts2.0), self.peak.0),
                    );
                }
                drop(again);
                if G::gc_counts(&m) != base {
                    report_limited(ctx, "oom-import-leak", &format!("{what}: after the retry, dropping its roots and gc() the manager is not empty"));
                }
            } else {
                ctx.count("oom-retry-no-room");
            }
        }
        if finished { RunOut::Done } else { RunOut::Fail }
    }
}

/// Export file -> fresh managers of kind `G` with every capacity from "nothing free" to "just
/// enough". Oracles (signatures `oom-*`): the import returns `Ok` with the functions of the
/// unlimited import / the exported value tables, or `ErrorKind::OutOfMemory`; never a panic; after
/// a failure the functions that were there are intact and `gc()` brings the manager back to exactly
/// the state before: node and terminal counts and the reference count of every node (and, after
/// dropping every handle, to the empty manager); a retry in the same manager succeeds once enough is free; success is monotone in the
/// capacity and never needs more than a fresh manager allocates.
fn oom_target<G: KindF>(p: &OomParams, ctx: &mut Ctx) -> String {
    let ascii = file_mode_is_ascii(p.file);
    let tag = format!("{}-to-{}-{}", p.src_kind, G::KIND, if ascii { "ascii" } else { "binary" });
    let mut rd: &[u8] = p.file;
    let Ok(header) = DumpHeader::load(&mut rd) else { return "err:load".into() };
    let (nvars, order) = (header.num_vars(), p.order.to_vec());
    if order.len() != nvars as usize {
        return "bad-op".into();
    }
    // --- without a limit, in a fresh manager: the outcome and what it allocates
    let Some(am) = Mgr::<G>::new(nvars, &order, None) else { return "bad-op".into() };
    let base = G::gc_counts(&am);
    let refimp = import_kind::<G>(&am, p.file, p.not);
    let used = G::counts(&am);
    let peak = (used.0 - base.0, used.1.saturating_sub(base.1));
    let refout = match &refimp {
        Imp::Panic(msg) => {
            report_panic(ctx, &format!("oom reference import of a {tag} file"), msg);
            std::mem::forget(refimp);
            std::mem::forget(am);
            return "panic:import".into();
        }
        Imp::LoadErr => return "err:load".into(),
        Imp::Err(k, _) => RefOut::Err(*k),
        Imp::Ok(roots) => {
            let (t, tb) = views(roots, nvars);
            if let Some(exp) = p.expected {
                if tb != exp {
                    report_limited(ctx, "oom-import-wrong-function", &format!("import of a {tag} file without a limit: value tables {tb:?}, exported {exp:?}"));
                }
            }
            RefOut::Ok(t, tb)
        }
    };
    drop(refimp);
    // --- the resident functions as a file of the target kind, and their size
    let (mut res_file, mut res_size) = (None, (0usize, 0usize));
    if let Some(rf) = p.resfile {
        let Some(rm) = Mgr::<G>::new(nvars, &order, None) else { return "bad-op".into() };
        let rbase = G::gc_counts(&rm);
        match import_kind::<G>(&rm, rf, true) {
            Imp::Ok(rs) => {
                let c = G::gc_counts(&rm);
                res_size = (c.0 - rbase.0, c.1.saturating_sub(rbase.1));
                let st = ExpSettings { ascii: true, v3: false, strict: false, dd: String::new() };
                let roots: Vec<(&G, String)> = rs.iter().map(|f| (f, String::new())).collect();
                res_file = Some(G::export(&rm, &roots, false, &st).0);
            }
            Imp::Panic(msg) => {
                report_panic(ctx, &format!("oom resident import of a {tag} file"), &msg);
                std::mem::forget(rm);
                return "panic:import".into();
            }
            _ => ctx.count("oom-resident-not-importable"),
        }
    }
    let is_mt = G::KIND == "mtbdd";
    let full_i = base.0 + res_size.0 + peak.0;
    // capacities of 100 and more enable the background collector: not deterministic any more
    if full_i + 2 >= 100 {
        ctx.count("oom-skipped-too-big");
        return format!("skip:size peak={}/{} res={}/{}", peak.0, peak.1, res_size.0, res_size.1);
    }
    ctx.count(&format!("oom-line-{tag}"));
    let ref_s = if matches!(refout, RefOut::Ok(..)) { "ok" } else { "err" };
    let mut sw = OomSweep::<G> { p, tag, nvars, order, res_file, refout, peak, runs: 0, fails: 0, retried: 0, _g: std::marker::PhantomData };
    // --- terminal capacity (enough inner nodes)
    let mut need_t = 0usize;
    if is_mt {
        let mut found = false;
        for extra in 0..=peak.1 + 1 {
            match sw.run(full_i, res_size.1 + extra, ctx) {
                RunOut::Done => {
                    need_t = extra;
                    found = true;
                    break;
                }
                RunOut::Fail => {}
                RunOut::Stop => break,
            }
        }
        if !found {
            report_limited(ctx, "oom-import-spurious", &format!("import of a {} file into an mtbdd manager: still failing with {} free terminal slots and {} free inner nodes; a fresh manager allocates {} / {}", sw.tag, peak.1 + 1, peak.0, peak.1, peak.0));
            return format!("fail ref={ref_s} peak={}/{} runs={} oomfail={}", peak.0, peak.1, sw.runs, sw.fails);
        }
    }
    // --- inner-node capacity (terminal capacity just enough)
    let ct = res_size.1 + need_t;
    let mut need_i = None;
    for extra in 0..=peak.0 + 1 {
        match sw.run(base.0 + res_size.0 + extra, ct, ctx) {
            RunOut::Done => {
                need_i = Some(extra);
                break;
            }
            RunOut::Fail => {}
            RunOut::Stop => break,
        }
    }
    let Some(need_i) = need_i else {
        report_limited(ctx, "oom-import-spurious", &format!("import of a {} file into a {} manager: still failing with {} free inner nodes; a fresh manager allocates {}", sw.tag, G::KIND, peak.0 + 1, peak.0));
        return format!("fail ref={ref_s} peak={}/{} runs={} oomfail={}", peak.0, peak.1, sw.runs, sw.fails);
    };
    if need_i > peak.0 || need_t > peak.1 {
        report_limited(ctx, "oom-import-spurious", &format!("import of a {} file into a {} manager needs {need_i} free inner nodes / {need_t} free terminals, a fresh manager allocates only {} / {}", sw.tag, G::KIND, peak.0, peak.1));
    }
    // --- monotone: one more free node does not make it fail
    if !matches!(sw.run(base.0 + res_size.0 + need_i + 1, ct, ctx), RunOut::Done) {
        report_limited(ctx, "oom-not-monotone", &format!("import of a {} file into a {} manager succeeds with {need_i} free inner nodes but not with {}", sw.tag, G::KIND, need_i + 1));
    }
    ctx.add("oom-runs", sw.runs);
    format!("ok ref={ref_s} peak={}/{} need={need_i}/{need_t} runs={} oomfail={} retried={}", peak.0, peak.1, sw.runs, sw.fails, sw.retried)
}

/// `import` operation line: fresh manager as described on the line
fn import_step<F: KindF>(nvars: u32, l2v: &[u32], not: bool, file: &[u8], ctx: &mut Ctx) -> String {
    let Some(mref) = Mgr::<F>::new(nvars, l2v, None) else { return "bad-op".into() };
    let out = import_into::<F>(&mref, file, not, true);
    ctx.count(&format!("import-{}-{}", F::KIND, out.token()));
    match &out {
        ImpOut::Ok { hdr, roots } => {
            check_imported::<F>(&mref, roots, ctx, "import line");
            let mut s = format!("ok {hdr}");
            for r in roots {
                s.push_str(" | ");
                s.push_str(&r.tree());
            }
            s
        }
        ImpOut::ImpPanic(m) | ImpOut::LoadPanic(m) => {
            report_panic(ctx, &format!("import line (kind {})", F::KIND), m);
            out.token()
        }
        _ => out.token(),
    }
}

// ------------------------------------------------------------------------------------------------
// scenario

fn make_world(kind: &str, nvars: u32, l2v: &[u32], names: Option<&[String]>) -> Option<Box<dyn DynWorld>> {
    fn mk<F: KindF>(nvars: u32, l2v: &[u32], names: Option<&[String]>) -> Option<Box<dyn DynWorld>> {
        Some(Box::new(World::<F> {
            mref: Mgr::<F>::new(nvars, l2v, names)?,
            funcs: Vec::new(),
            l2v: l2v.to_vec(),
            names: names.map(|n| n.to_vec()),
            specs: Vec::new(),
        }))
    }
    match kind {
        "bdd" => mk::<BDDFunction>(nvars, l2v, names),
        "bcdd" => mk::<BCDDFunction>(nvars, l2v, names),
        "zbdd" => mk::<ZBDDFunction>(nvars, l2v, names),
        "mtbdd" => mk::<MT>(nvars, l2v, names),
        "tdd" => mk::<TDDFunction>(nvars, l2v, names),
        _ => None,
    }
}

fn parse_u32s(s: &str) -> Option<Vec<u32>> {
    split_comma(s).iter().map(|x| x.parse().ok()).collect()
}

fn parse_mgr(ws: &[&str]) -> Option<(String, u32, Vec<u32>, Option<Vec<String>>)> {
    let kind = kv(ws, "kind")?.to_string();
    let nvars: u32 = kv(ws, "nvars")?.parse().ok()?;
    let l2v = parse_u32s(kv(ws, "order")?)?;
    if !l2v.is_empty() && l2v.len() != nvars as usize {
        return None;
    }
    let ns = kv(ws, "names")?;
    let names = if ns == "-" {
        None
    } else {
        let v: Vec<String> =
            ns.split(',').map(|h| from_hex_name(h).and_then(|b| String::from_utf8(b).ok())).collect::<Option<_>>()?;
        if v.len() != nvars as usize {
            return None;
        }
        Some(v)
    };
    Some((kind, nvars, l2v, names))
}

fn parse_settings(ws: &[&str]) -> Option<ExpSettings> {
    Some(ExpSettings {
        ascii: kv(ws, "ascii")? == "1",
        v3: match kv(ws, "ver")? {
            "2" => false,
            "3" => true,
            _ => return None,
        },
        strict: kv(ws, "strict").unwrap_or("0") == "1",
        dd: String::from_utf8(from_hex_name(kv(ws, "dd").unwrap_or("_"))?).ok()?,
    })
}

fn parse_roots(ws: &[&str]) -> Option<Vec<RootSpec>> {
    split_comma(kv(ws, "roots")?)
        .iter()
        .map(|r| {
            let mut it = r.splitn(2, ':');
            let func = it.next()?.to_string();
            let name = match it.next() {
                None => None,
                Some(h) => Some(from_hex_name(h)?),
            };
            Some(RootSpec { func, name })
        })
        .collect()
}

fn parse_line_sview(ws: &[&str]) -> Option<SView> {
    let terms = split_comma(kv(ws, "terms")?)
        .iter()
        .map(|h| from_hex(h).and_then(|b| String::from_utf8(b).ok()))
        .collect::<Option<Vec<_>>>()?;
    let nodes = split_comma(kv(ws, "nodes")?)
        .iter()
        .map(|n| {
            let mut it = n.split(':');
            let l: u32 = it.next()?.parse().ok()?;
            let ch: Vec<i64> = it.map(|c| c.parse().ok()).collect::<Option<_>>()?;
            Some((l, ch))
        })
        .collect::<Option<Vec<_>>>()?;
    let rootids = split_comma(kv(ws, "rootids")?).iter().map(|c| c.parse().ok()).collect::<Option<Vec<i64>>>()?;
    Some(SView { terms, nodes, rootids })
}

struct Dddmp {
    world: Option<Box<dyn DynWorld>>,
}

impl Scenario for Dddmp {
    fn reset(&mut self) {
        self.world = None;
        bury();
        REPORTED.with(|r| r.borrow_mut().clear());
        ESC.with(|c| *c.borrow_mut() = EscCov::default());
    }
    fn step(&mut self, line: &str, ctx: &mut Ctx) -> String {
        let ws = words(line);
        match ws[0] {
            "mgr" => match parse_mgr(&ws[1..]) {
                Some((kind, nvars, l2v, names)) => match make_world(&kind, nvars, &l2v, names.as_deref()) {
                    Some(w) => {
                        self.world = Some(w);
                        ctx.count(&format!("mgr-{kind}"));
                        "ok".into()
                    }
                    None => "bad-op".into(),
                },
                None => "bad-op".into(),
            },
            "fn" if ws.len() >= 3 => match &mut self.world {
                Some(w) => {
                    if w.define(ws[1], ws[2]) {
                        "ok".into()
                    } else {
                        "bad-op".into()
                    }
                }
                None => "bad-op".into(),
            },
            "export" => {
                let (Some(st), Some(roots), Some(w)) = (parse_settings(&ws[1..]), parse_roots(&ws[1..]), &self.world) else {
                    return "bad-op".into();
                };
                let named = kv(&ws[1..], "named") == Some("1");
                let sv = parse_line_sview(&ws[1..]);
                // `big=1`: oracles that do not unfold the diagram; `cov=1`: coverage self-check of the
                // case's binary exports (both keys are ignored by the model)
                let out = w.export_step(&st, &roots, named, sv.as_ref(), kv(&ws[1..], "big") == Some("1"), ctx);
                match kv(&ws[1..], "cov") {
                    Some("1") => esc_selfcheck(ctx, false),
                    Some("2") => esc_selfcheck(ctx, true),
                    _ => {}
                }
                out
            }
            "import" => {
                let a = &ws[1..];
                let (Some(kind), Some(cmpl), Some(nvars), Some(order), Some(file)) = (
                    kv(a, "kind"),
                    kv(a, "cmpl"),
                    kv(a, "nvars").and_then(|x| x.parse::<u32>().ok()),
                    kv(a, "order").and_then(parse_u32s),
                    kv(a, "file").and_then(from_hex),
                ) else {
                    return "bad-op".into();
                };
                if (!order.is_empty() && order.len() != nvars as usize) || (cmpl != "not" && cmpl != "id") {
                    return "bad-op".into();
                }
                let not = cmpl == "not";
                let out = match (kind, not) {
                    ("bdd", _) => import_step::<BDDFunction>(nvars, &order, not, &file, ctx),
                    ("bcdd", _) => import_step::<BCDDFunction>(nvars, &order, not, &file, ctx),
                    ("zbdd", false) => import_step::<ZBDDFunction>(nvars, &order, false, &file, ctx),
                    ("mtbdd", false) => import_step::<MT>(nvars, &order, false, &file, ctx),
                    _ => "bad-op".into(),
                };
                // boundary families: the verdict derived by hand from the importer's checks (key
                // ignored by the model), `!ok` = anything but acceptance
                if let Some(exp) = kv(a, "expect") {
                    let got = out.split(' ').next().unwrap_or("");
                    let holds = if exp == "!ok" { got != "ok" && !got.starts_with("panic") && got != "bad-op" } else { got == exp };
                    ctx.count("boundary-lines");
                    ctx.count(&format!("boundary-{}", if got == "ok" { "accepted" } else { "rejected" }));
                    if !holds {
                        ctx.fail(
                            "boundary-verdict",
                            &format!("crafted boundary input `{}`: expected {exp}, the importer gives {got}", kv(a, "what").unwrap_or("?")),
                        );
                    }
                }
                out
            }
            "truncall" => {
                let (Some(st), Some(roots), Some(w)) = (parse_settings(&ws[1..]), parse_roots(&ws[1..]), &self.world) else {
                    return "bad-op".into();
                };
                w.truncall(&st, &roots, ctx)
            }
            "oom" => {
                let a = &ws[1..];
                let (Some(st), Some(roots), Some(w), Some(target), Some(cmpl)) =
                    (parse_settings(a), parse_roots(a), &self.world, kv(a, "target"), kv(a, "cmpl"))
                else {
                    return "bad-op".into();
                };
                let res: Option<Vec<RootSpec>> =
                    split_comma(kv(a, "res").unwrap_or("-")).iter().map(|f| Some(RootSpec { func: f.to_string(), name: None })).collect();
                let Some(res) = res else { return "bad-op".into() };
                if cmpl != "not" && cmpl != "id" {
                    return "bad-op".into();
                }
                let args = OomArgs { target: target.to_string(), not: cmpl == "not", st, roots, res, neg: kv(a, "neg") == Some("1") };
                w.oom(&args, ctx)
            }
            "fuzz" => {
                let a = &ws[1..];
                let (Some(st), Some(roots), Some(w), Some(seed), Some(n)) = (
                    parse_settings(a),
                    parse_roots(a),
                    &self.world,
                    kv(a, "seed").and_then(|x| x.parse::<u64>().ok()),
                    kv(a, "n").and_then(|x| x.parse::<u64>().ok()),
                ) else {
                    return "bad-op".into();
                };
                w.fuzz(&st, &roots, seed, n, ctx)
            }
            _ => "bad-op".into(),
        }
    }
}

fn make(_f: &BTreeMap<String, String>) -> Box<dyn Scenario> {
    Box::new(Dddmp { world: None })
}

// ------------------------------------------------------------------------------------------------
// generator (runs the real exporter to obtain the node order and the bytes to mutate)

const KINDS: [&str; 5] = ["bdd", "bcdd", "zbdd", "mtbdd", "tdd"];

fn can_import(kind: &str) -> bool {
    kind != "tdd"
}

/// a random function of `nvars` variables as a value index table (`palette` values)
fn rand_table(rng: &mut Rng, nvars: u32, palette: u64) -> Vec<u64> {
    let n = 1usize << nvars;
    let vars: Vec<u32> = (0..nvars).collect();
    match rng.below(9) {
        0 => vec![rng.below(palette); n],
        1 if nvars > 0 => {
            let v = rng.below(nvars as u64) as u32;
            let pol = rng.below(2);
            (0..n).map(|a| (((a >> v) & 1) as u64 ^ pol) % palette).collect()
        }
        2 if nvars > 0 => {
            // parity of a subset
            let mask = rng.below(1 << nvars) as usize | 1;
            (0..n).map(|a| ((a & mask).count_ones() as u64 % 2) % palette).collect()
        }
        3 if nvars > 0 => {
            let mask = rng.below(1 << nvars) as usize | 1;
            let th = rng.range(1, mask.count_ones() as u64) as u32;
            (0..n).map(|a| (((a & mask).count_ones() >= th) as u64) % palette).collect()
        }
        _ => {
            // random function of a random subset of the variables (the others are unused)
            let mut sub = vars.clone();
            rng.shuffle(&mut sub);
            let k = if nvars == 0 { 0 } else { rng.range(1, nvars as u64) as usize };
            let sub = &sub[..k];
            let dens = rng.range(1, 9);
            let g: Vec<u64> = (0..1usize << k)
                .map(|_| if palette == 2 { (rng.below(10) < dens) as u64 } else { rng.below(palette) })
                .collect();
            (0..n)
                .map(|a| {
                    let mut idx = 0;
                    for (i, &v) in sub.iter().enumerate() {
                        idx |= ((a >> v) & 1) << i;
                    }
                    g[idx]
                })
                .collect()
        }
    }
}

fn rand_spec(kind: &str, rng: &mut Rng, nvars: u32) -> String {
    match kind {
        "mtbdd" => {
            let all = ["0", "1", "2", "-3", "7", "100", "-1", "+Inf", "-Inf", "NaN", "9223372036854775807", "-9223372036854775808"];
            let k = rng.range(1, 5);
            let pal: Vec<&str> = (0..k).map(|_| *rng.pick(&all)).collect();
            let t = rand_table(rng, nvars, k);
            format!("vals={}", t.iter().map(|&i| pal[i as usize]).collect::<Vec<_>>().join(","))
        }
        "tdd" => {
            let t = rand_table(rng, nvars, 3);
            format!("tv={}", t.iter().map(|&i| char::from(b'0' + i as u8)).collect::<String>())
        }
        _ => {
            let t = rand_table(rng, nvars, 2);
            let mut s = String::from("tt=");
            for c in t.chunks(4) {
                let mut v = 0;
                for (k, &b) in c.iter().enumerate() {
                    v |= (b as u32) << k;
                }
                s.push(char::from_digit(v, 16).unwrap());
            }
            s
        }
    }
}

fn rand_names(rng: &mut Rng, nvars: u32) -> Option<Vec<String>> {
    let style = rng.below(8);
    if style == 0 {
        return None;
    }
    let pool: [&str; 30] = [
        "a b", "a_b", "a\tb", "tab\t", " lead", "trail ", "nl\nx", "del\x7f", "\x01", "ä", "变量", "x\u{85}y", "_x", "__y",
        "___", "_", "_x0", "_x1", "__x1", "__x2", "_x1_a_b", ".nodes", ".end", "-1", "0", "T", "a  b", "a__b", "é t", "p q r",
    ];
    let mut out: Vec<String> = Vec::new();
    for i in 0..nvars {
        let n = match style {
            1 => format!("x{i}"),
            2 => {
                if rng.chance(1, 3) { String::new() } else { format!("v{i}") }
            }
            3 => String::new(),
            _ => match rng.below(10) {
                0 | 1 => String::new(),
                2 | 3 => format!("n{i}"),
                _ => rng.pick(&pool).to_string(),
            },
        };
        // non-empty names must be unique in a manager
        if !n.is_empty() && out.contains(&n) {
            out.push(format!("{n}{i}"));
        } else {
            out.push(n);
        }
    }
    Some(out)
}

fn rand_label(rng: &mut Rng) -> Vec<u8> {
    let pool: [&str; 12] = ["f", "g h", "", "out\t1", "_f0", "_f1", "ünï", "a b c", " x", "y ", "\n", "root"];
    rng.pick(&pool).as_bytes().to_vec()
}

struct G<'a> {
    w: &'a mut dyn Write,
    world: Option<Box<dyn DynWorld>>,
    kind: String,
    nvars: u32,
    l2v: Vec<u32>,
    case_no: u64,
    funcs: Vec<String>,
    /// only the known-finding case may export an MTBDD with a single terminal in binary mode
    allow_single_terminal_binary: bool,
    /// appended to the next `export` lines (` big=1`, ` cov=1`)
    export_keys: String,
}

impl G<'_> {
    fn case(&mut self, name: &str) {
        self.case_no += 1;
        self.allow_single_terminal_binary = name.starts_with("kf-");
        if name.starts_with("kf-") {
            // known-finding cases are matched by name: no running number
            writeln!(self.w, "case {name}").unwrap();
        } else {
            writeln!(self.w, "case {} {}", self.case_no, name).unwrap();
        }
        self.world = None;
        bury();
        self.funcs.clear();
        self.export_keys.clear();
    }
    fn mgr(&mut self, kind: &str, nvars: u32, l2v: &[u32], names: Option<&[String]>) -> bool {
        let ns = match names {
            None => "-".to_string(),
            Some(v) if v.is_empty() => "-".to_string(),
            Some(v) => v.iter().map(|n| hex_name(n.as_bytes())).collect::<Vec<_>>().join(","),
        };
        writeln!(self.w, "mgr kind={kind} nvars={nvars} order={} names={ns}", comma(l2v)).unwrap();
        self.world = make_world(kind, nvars, l2v, names.filter(|v| !v.is_empty()));
        self.kind = kind.to_string();
        self.nvars = nvars;
        self.l2v = if l2v.is_empty() { (0..nvars).collect() } else { l2v.to_vec() };
        self.world.is_some()
    }
    fn func(&mut self, name: &str, spec: &str) {
        writeln!(self.w, "fn {name} {spec}").unwrap();
        if let Some(w) = &mut self.world {
            if w.define(name, spec) {
                self.funcs.push(name.to_string());
            }
        }
    }
    fn export(&mut self, st: &ExpSettings, specs: &[RootSpec], named: bool) -> Option<(Vec<u8>, bool)> {
        let w = self.world.as_ref()?;
        let sv = w.sview_of(specs)?;
        let info = w.info();
        let mut st = st.clone();
        if self.kind == "mtbdd" && info.nterm == 1 && !self.allow_single_terminal_binary {
            st.ascii = true;
        }
        let st = &st;
        let roots = if specs.is_empty() {
            "-".to_string()
        } else {
            specs
                .iter()
                .map(|r| match &r.name {
                    None => r.func.clone(),
                    Some(n) => format!("{}:{}", r.func, hex_name(n)),
                })
                .collect::<Vec<_>>()
                .join(",")
        };
        let terms = if sv.terms.is_empty() { "-".into() } else { sv.terms.iter().map(|t| to_hex(t.as_bytes())).collect::<Vec<_>>().join(",") };
        let nodes = if sv.nodes.is_empty() {
            "-".into()
        } else {
            sv.nodes
                .iter()
                .map(|(l, ch)| format!("{l}:{}", ch.iter().map(|c| c.to_string()).collect::<Vec<_>>().join(":")))
                .collect::<Vec<_>>()
                .join(",")
        };
        writeln!(
            self.w,
            "export ascii={} ver={} strict={} dd={} named={} roots={roots} ; nterm={} termT={} terms={terms} nodes={nodes} rootids={}{}",
            st.ascii as u8,
            if st.v3 { 3 } else { 2 },
            st.strict as u8,
            hex_name(st.dd.as_bytes()),
            named as u8,
            info.nterm,
            (self.kind == "bcdd") as u8,
            comma(&sv.rootids),
            self.export_keys
        )
        .unwrap();
        w.export_bytes(st, specs, named)
    }
    fn import(&mut self, kind: &str, not: bool, nvars: u32, l2v: &[u32], file: &[u8]) {
        writeln!(
            self.w,
            "import kind={kind} cmpl={} nvars={nvars} order={} file={}",
            if not { "not" } else { "id" },
            comma(l2v),
            to_hex(file)
        )
        .unwrap();
    }
    fn rand_roots(&self, rng: &mut Rng, named: bool) -> Vec<RootSpec> {
        if self.funcs.is_empty() {
            return Vec::new();
        }
        let k = match rng.below(12) {
            0 => 0,
            1..=5 => 1,
            6..=8 => 2,
            _ => rng.range(2, 4),
        };
        (0..k)
            .map(|_| RootSpec { func: rng.pick(&self.funcs).clone(), name: if named { Some(rand_label(rng)) } else { None } })
            .collect()
    }
    /// valid import of `file` plus `nmut` mutated variants
    fn imports(&mut self, rng: &mut Rng, file: &[u8], nmut: u64) {
        let kind = self.kind.clone();
        if !can_import(&kind) {
            return;
        }
        let not = match kind.as_str() {
            "bdd" | "bcdd" => !rng.chance(1, 6),
            _ => false,
        };
        let (nvars, l2v) = (self.nvars, self.l2v.clone());
        self.import(&kind, not, nvars, &l2v, file);
        // a different target: more variables / another order / the sibling kind
        if rng.chance(1, 3) {
            let mut o: Vec<u32> = l2v.clone();
            o.extend(nvars..nvars + 2);
            if rng.chance(1, 2) {
                rng.shuffle(&mut o);
            }
            self.import(&kind, not, nvars + 2, &o, file);
        }
        if rng.chance(1, 4) {
            let other = match kind.as_str() {
                "bdd" => "bcdd",
                "bcdd" => "bdd",
                "zbdd" => "bdd",
                _ => "zbdd",
            };
            let n2 = matches!(other, "bdd" | "bcdd");
            self.import(other, n2, nvars, &l2v, file);
        }
        for _ in 0..nmut {
            let (mut f, _) = mutate(file, rng, false);
            if rng.chance(1, 5) {
                f = mutate(&f, rng, false).0;
            }
            self.import(&kind, not, nvars, &l2v, &f);
        }
    }
}

fn all_settings() -> Vec<ExpSettings> {
    let mut v = Vec::new();
    for ascii in [false, true] {
        for v3 in [false, true] {
            for strict in [false, true] {
                v.push(ExpSettings { ascii, v3, strict, dd: String::new() });
            }
        }
    }
    v
}

fn rand_dd(rng: &mut Rng) -> String {
    let pool = ["", "", "dd", "my dd", " lead", "ctl\tx", "trail ", "dïa", "a\nb", " "];
    rng.pick(&pool).to_string()
}

fn perms3() -> Vec<Vec<u32>> {
    vec![vec![0, 1, 2], vec![0, 2, 1], vec![1, 0, 2], vec![1, 2, 0], vec![2, 0, 1], vec![2, 1, 0]]
}

fn crafted(g: &mut G) {
    let hdr = |mode: &str, nnodes: &str, nvars: u32, nsupp: u32, ids: &str, permids: &str, nroots: &str, rootids: &str| {
        format!(
            ".ver DDDMP-2.0\n.mode {mode}\n.varinfo 4\n.nnodes {nnodes}\n.nvars {nvars}\n.nsuppvars {nsupp}\n.ids{ids}\n.permids{permids}\n.nroots {nroots}\n.rootids {rootids}\n.nodes\n"
        )
        .into_bytes()
    };
    let file = |h: Vec<u8>, body: &[u8]| {
        let mut f = h;
        f.extend_from_slice(body);
        f.extend_from_slice(b".end\n");
        f
    };
    // Relative1 / RelativeID variable code with terminal children, fewer support variables than levels
    g.case("crafted-relvar-terminal-children");
    let nc = |var: u8, t: u8, ec: u8, e: u8| (var << 5) | (t << 3) | (ec << 2) | e;
    for (kind, not) in [("bcdd", true), ("bdd", true)] {
        g.import(kind, not, 3, &[], &file(hdr("B", "2", 3, 1, " 0", " 0", "1", "2"), &[0, 0, nc(3, 0, 1, 0)]));
        g.import(kind, not, 3, &[], &file(hdr("B", "2", 3, 1, " 0", " 0", "1", "2"), &[0, 0, nc(2, 0, 1, 0), 2 << 1]));
        g.import(kind, not, 3, &[], &file(hdr("B", "2", 3, 1, " 0", " 0", "1", "2"), &[0, 0, nc(2, 0, 1, 0), 3 << 1]));
        // the same with all levels in the support: accepted
        g.import(kind, not, 1, &[], &file(hdr("B", "2", 1, 1, " 0", " 0", "1", "-2"), &[0, 0, nc(3, 0, 1, 0)]));
        g.import(kind, not, 3, &[], &file(hdr("B", "3", 3, 3, " 0 1 2", " 0 1 2", "1", "3"), &[0, 0, nc(3, 0, 1, 0), nc(3, 3, 1, 0)]));
    }
    // relative child id larger than the node id
    g.case("crafted-relid-underflow");
    for kind in ["bcdd", "bdd"] {
        g.import(kind, true, 1, &[], &file(hdr("B", "2", 1, 1, " 0", " 0", "1", "2"), &[0, 0, nc(1, 2, 1, 0), 0, 0, 5 << 1]));
        g.import(kind, true, 1, &[], &file(hdr("B", "2", 1, 1, " 0", " 0", "1", "2"), &[0, 0, nc(1, 2, 1, 0), 0, 0, 2 << 1]));
        g.import(kind, true, 1, &[], &file(hdr("B", "2", 1, 1, " 0", " 0", "1", "2"), &[0, 0, nc(1, 2, 1, 0), 0, 0, 1 << 1]));
        // over-long 7-bit integer (wraps silently)
        let mut body = vec![0, 0, nc(1, 0, 1, 0)];
        body.extend_from_slice(&[0x05, 1, 1, 1, 1, 1, 1, 1, 1, 0, 0]);
        g.import(kind, true, 1, &[], &file(hdr("B", "2", 1, 1, " 0", " 0", "1", "2"), &body));
    }
    // binary files and kinds without a `T` terminal
    g.case("crafted-binary-into-zbdd-mtbdd");
    for kind in ["zbdd", "mtbdd", "bdd", "bcdd"] {
        let not = matches!(kind, "bdd" | "bcdd");
        g.import(kind, not, 1, &[], &file(hdr("B", "1", 1, 0, "", "", "1", "1"), &[0, 0]));
    }
    // absurd counts
    g.case("crafted-huge-counts");
    for kind in ["bdd", "bcdd", "zbdd", "mtbdd"] {
        let not = matches!(kind, "bdd" | "bcdd");
        let t: &[u8] = match kind {
            "zbdd" => b"1 B 0 0\n",
            "mtbdd" => b"1 5 0 0\n",
            _ => b"1 T 0 0\n",
        };
        g.import(kind, not, 1, &[], &file(hdr("A", "2305843009213693952", 1, 0, "", "", "1", "1"), t));
        g.import(kind, not, 1, &[], &file(hdr("A", "1", 1, 0, "", "", "2305843009213693952", "1"), t));
        g.import(kind, not, 1, &[], &file(hdr("A", "18446744073709551616", 1, 0, "", "", "1", "1"), t));
        g.import(kind, not, 1, &[], &file(hdr("A", "1", 1, 0, "", "", "1", "1"), t));
    }
    g.import("bcdd", true, 1, &[], &file(hdr("B", "2305843009213693952", 1, 0, "", "", "1", "1"), &[0, 0]));
    // header validation, one violated rule per file (base: x0 & x2 over 3 variables, order 2,0,1)
    g.case("crafted-header-validation");
    {
        let base: Vec<(&str, &str)> = vec![
            (".ver", "DDDMP-3.0"), (".mode", "A"), (".varinfo", "4"), (".nnodes", "5"), (".nvars", "3"),
            (".nsuppvars", "2"), (".varnames", "a b c"), (".suppvarnames", "a c"), (".orderedvarnames", "c a b"),
            (".ids", "0 2"), (".permids", "1 0"), (".nroots", "2"), (".rootids", "5 -4"), (".rootnames", "f g"),
        ];
        let nodes = "1 F 0 0\n2 T 0 0\n3 1 2 1\n4 0 2 1\n5 0 3 1\n.end\n";
        let variants: Vec<(&str, &str)> = vec![
            (".ver", "DDDMP-3.0"), (".ver", "DDDMP-1.0"), (".mode", "C"), (".varinfo", "5"), (".varinfo", "0"),
            (".nsuppvars", "4"), (".nsuppvars", "3"), (".nsuppvars", "1"), (".ids", "2 0"), (".ids", "0 0"),
            (".ids", "0 3"), (".ids", "0"), (".ids", "0 1"), (".permids", "1 1"), (".permids", "1 3"), (".permids", "1"),
            (".permids", "0 1"), (".permids", "0 2"), (".nroots", "1"), (".nroots", "3"), (".rootids", "5 0"),
            (".rootids", "5 6"), (".rootids", "5 -6"), (".rootids", "5"), (".rootnames", "f"), (".rootnames", "f g h"),
            (".rootnames", ""), (".varnames", "a b"), (".varnames", "a b c d"), (".varnames", "a b x"),
            (".varnames", "x b c"), (".suppvarnames", "a"), (".suppvarnames", "a b"), (".suppvarnames", "a c x"),
            (".orderedvarnames", "c a"), (".orderedvarnames", "a c b"), (".orderedvarnames", "c a x"),
            (".varnames", ""), (".orderedvarnames", ""), (".suppvarnames", ""), (".nnodes", "4"), (".nnodes", "6"),
            (".nvars", "2"), (".nvars", "4"), (".auxids", "7 8"), (".auxids", "7"), (".dd", "  my  name "),
            (".nodes", "x"), (".bogus", "1"), (".nnodes", "5 "), (".nnodes", "+5"), (".nnodes", ""), (".ids", "0 -2"),
            (".rootids", "5 - 4"), (".rootids", "5 --4"), (".rootids", "5 4-"), (".nvars", "4294967296"),
        ];
        for (k, v) in &variants {
            let mut f = String::new();
            let mut seen = false;
            for (bk, bv) in &base {
                if bk == k {
                    seen = true;
                    if v.is_empty() && k.ends_with("names") {
                        continue; // drop the line
                    }
                    f.push_str(&format!("{bk} {v}\n"));
                } else {
                    f.push_str(&format!("{bk} {bv}\n"));
                }
            }
            if !seen {
                f.push_str(&format!("{k} {v}\n"));
            }
            f.push_str(".nodes\n");
            f.push_str(nodes);
            g.import("bdd", true, 3, &[2, 0, 1], f.as_bytes());
        }
        // only one of the name sections present
        for keep in [".varnames", ".suppvarnames", ".orderedvarnames"] {
            let mut f = String::new();
            for (bk, bv) in &base {
                if bk.ends_with("varnames") && *bk != keep {
                    continue;
                }
                f.push_str(&format!("{bk} {bv}\n"));
            }
            f.push_str(".nodes\n");
            f.push_str(nodes);
            g.import("bdd", true, 3, &[2, 0, 1], f.as_bytes());
        }
    }
    // ASCII node lines: level order, ids, arity, terminal descriptors
    g.case("crafted-ascii-node-lines");
    {
        let h = ".ver DDDMP-2.0\n.mode A\n.varinfo 4\n.nnodes 4\n.nvars 2\n.nsuppvars 2\n.ids 0 1\n.permids 0 1\n.nroots 1\n.rootids 4\n.nodes\n";
        let bodies = [
            "1 F 0 0\n2 T 0 0\n3 1 2 1\n4 0 3 1\n",   // valid
            "1 F 0 0\n2 T 0 0\n3 1 2 1\n4 1 3 1\n",   // level == child level
            "1 F 0 0\n2 T 0 0\n3 0 2 1\n4 1 3 1\n",   // level > child level
            "1 F 0 0\n2 T 0 0\n3 1 2 1\n4 2 3 1\n",   // variable out of range
            "1 F 0 0\n2 T 0 0\n3 1 2 1\n4 0 4 1\n",   // child == node
            "1 F 0 0\n2 T 0 0\n3 1 2 1\n4 0 5 1\n",   // child > node
            "1 F 0 0\n2 T 0 0\n3 1 2 1\n5 0 3 1\n",   // wrong node id
            "1 F 0 0\n2 T 0 0\n3 1 2 1\n4 0 3\n",     // arity 1
            "1 F 0 0\n2 T 0 0\n3 1 2 1\n4 0 3 1 2\n", // arity 3
            "1 F 0 0\n2 T 0 0\n3 1 2 2\n4 0 3 1\n",   // reducible node
            "1 F 0 0\n2 T 0 0\n3 1 2 1\n4 0 3 3\n",   // reducible root
            "1 F 0 0\n2 T 0 0\n3 1 2 -1\n4 0 -3 1\n", // complemented edges
            "1 X 0 0\n2 T 0 0\n3 1 2 1\n4 0 3 1\n",   // unknown terminal
            "1 F 0 0\n2 T 0 0\n3 1 2 0\n4 0 3 1\n",   // one zero child: terminal line with descriptor "1"
            "1 F 0 0\n2 T 0 0\n3 1 2 1\n",             // too few nodes
            "1 F 0 0\n2 T 0 0\n3 1 2 1\n4 0 3 1\n5 0 3 1\n", // too many nodes
            "1 F 0 0\r\n2 T 0 0\r\n3 1 2 1\r\n4 0 3 1\r\n", // CRLF
            "1\tF\t0\t0\n2 T 0 0\n3  1  2  1\n 4 0 3 1\n", // tabs / repeated blanks
            "1 F 0 0\n2 T 0 0\n3 01 02 01\n4 00 3 1\n", // leading zeros
        ];
        for kind in ["bdd", "bcdd", "zbdd", "mtbdd"] {
            let not = matches!(kind, "bdd" | "bcdd");
            for b in bodies {
                let b = match kind {
                    "zbdd" => b.replace(" F ", " E ").replace("\tF\t", "\tE\t").replace(" T ", " B "),
                    "mtbdd" => b.replace(" F ", " 0 ").replace("\tF\t", "\t0\t").replace(" T ", " 1 "),
                    _ => b.to_string(),
                };
                for tail in [".end\n", ".end", ".end \n\n", ".en\n", "", ".end\nx"] {
                    if tail != ".end\n" && !b.starts_with("1 F 0 0\n2 T 0 0\n3 1 2 1\n4 0 3 1\n") && !b.starts_with("1 E") && !b.starts_with("1 0") {
                        continue;
                    }
                    g.import(kind, not, 2, &[], format!("{h}{b}{tail}").as_bytes());
                }
            }
        }
    }
    // generated names vs. names with leading underscores
    g.case("crafted-leading-underscores");
    let names: Vec<String> = ["__x1", "", "_y"].iter().map(|s| s.to_string()).collect();
    if g.mgr("bcdd", 3, &[], Some(&names)) {
        g.func("f0", "tt=e8");
        for v3 in [true, false] {
            for ascii in [true, false] {
                let st = ExpSettings { ascii, v3, strict: false, dd: String::new() };
                g.export(&st, &[RootSpec { func: "f0".into(), name: None }], false);
            }
        }
    }
    let names: Vec<String> = ["a b", "a_b", "", "c\td", "c d"].iter().map(|s| s.to_string()).collect();
    if g.mgr("bdd", 5, &[4, 2, 0, 1, 3], Some(&names)) {
        g.func("f0", "tt=e8e8e8e8");
        g.func("f1", "tt=0ff00ff0");
        for st in all_settings() {
            g.export(&st, &[RootSpec { func: "f0".into(), name: Some(b"x y".to_vec()) }, RootSpec { func: "f1".into(), name: Some(Vec::new()) }], true);
        }
    }
    // known finding: MTBDD with a single terminal in the manager, binary mode is chosen
    g.case("kf-mtbdd-single-constant-binary");
    if g.mgr("mtbdd", 2, &[], None) {
        g.func("c", "vals=5,5,5,5");
        for ascii in [false, true] {
            let st = ExpSettings { ascii, v3: false, strict: true, dd: String::new() };
            if let Some((f, _)) = g.export(&st, &[RootSpec { func: "c".into(), name: None }], false) {
                g.import("mtbdd", false, 2, &[], &f);
            }
        }
    }
}

// ------------------------------------------------------------------------------------------------
// boundary families: every comparison / index / separator guard of `import.rs` is hit from both
// sides by a file that differs from a valid export in exactly one field (cases `boundary-*`).
// All lines are ordinary `import` lines (model-compared); two extra keys are ignored by the model:
// `what=<label>` and `expect=<ok|err:load|err:import|reject:vars|reject:order|!ok>` — the verdict
// derived by hand from the importer's documented checks; the run side compares it with the real
// importer's verdict (oracle signature `boundary-verdict`).

/// a DDDMP file split into header lines (without line ends, incl. the `.nodes` line), node section
/// and trailer, with single-field patching
#[derive(Clone)]
struct BFile {
    hdr: Vec<Vec<u8>>,
    body: Vec<u8>,
    tail: Vec<u8>,
    eol: Vec<u8>,
}

impl BFile {
    fn parse(file: &[u8]) -> Option<BFile> {
        let mut hdr = Vec::new();
        let mut pos = 0;
        loop {
            let nl = pos + file[pos..].iter().position(|&b| b == b'\n')?;
            let line = file[pos..nl].to_vec();
            pos = nl + 1;
            let done = line.starts_with(b".nodes");
            hdr.push(line);
            if done {
                break;
            }
        }
        let rest = &file[pos..];
        let end = rest.len().checked_sub(5)?;
        if &rest[end..] != b".end\n" {
            return None;
        }
        Some(BFile { hdr, body: rest[..end].to_vec(), tail: b".end\n".to_vec(), eol: b"\n".to_vec() })
    }
    fn key_of(line: &[u8]) -> &[u8] {
        let p = line.iter().position(|&b| b == b' ' || b == b'\t').unwrap_or(line.len());
        &line[..p]
    }
    fn pos(&self, key: &str) -> usize {
        self.hdr.iter().position(|l| Self::key_of(l) == key.as_bytes()).unwrap_or_else(|| panic!("boundary base has no {key} line"))
    }
    fn get(&self, key: &str) -> String {
        let l = &self.hdr[self.pos(key)];
        String::from_utf8_lossy(&l[key.len()..]).trim().to_string()
    }
    /// replace the whole line of `key`
    fn raw(&self, key: &str, line: &[u8]) -> BFile {
        let mut f = self.clone();
        let p = f.pos(key);
        f.hdr[p] = line.to_vec();
        f
    }
    /// replace the value of `key`
    fn set(&self, key: &str, val: &str) -> BFile {
        self.raw(key, format!("{key} {val}").as_bytes())
    }
    fn drop(&self, key: &str) -> BFile {
        let mut f = self.clone();
        let p = f.pos(key);
        f.hdr.remove(p);
        f
    }
    /// insert a line before the line of `key`
    fn before(&self, key: &str, line: &str) -> BFile {
        let mut f = self.clone();
        let p = f.pos(key);
        f.hdr.insert(p, line.as_bytes().to_vec());
        f
    }
    fn after(&self, key: &str, line: &str) -> BFile {
        let mut f = self.clone();
        let p = f.pos(key);
        f.hdr.insert(p + 1, line.as_bytes().to_vec());
        f
    }
    fn with_body(&self, body: &[u8]) -> BFile {
        let mut f = self.clone();
        f.body = body.to_vec();
        f
    }
    fn with_tail(&self, tail: &[u8]) -> BFile {
        let mut f = self.clone();
        f.tail = tail.to_vec();
        f
    }
    fn with_eol(&self, eol: &[u8]) -> BFile {
        let mut f = self.clone();
        f.eol = eol.to_vec();
        f
    }
    /// ASCII node section: replace the 0-based line `idx`
    fn node_line(&self, idx: usize, new: &[u8]) -> BFile {
        let mut lines: Vec<Vec<u8>> = self.body.split(|&b| b == b'\n').map(|l| l.to_vec()).collect();
        lines.pop(); // the empty piece after the last '\n'
        lines[idx] = new.to_vec();
        let mut body = Vec::new();
        for l in lines {
            body.extend_from_slice(&l);
            body.push(b'\n');
        }
        self.with_body(&body)
    }
    fn bytes(&self) -> Vec<u8> {
        let mut o = Vec::new();
        for l in &self.hdr {
            o.extend_from_slice(l);
            o.extend_from_slice(&self.eol);
        }
        o.extend_from_slice(&self.body);
        o.extend_from_slice(&self.tail);
        o
    }
}

/// the manager an `import` line describes
#[derive(Clone)]
struct BTarget {
    kind: &'static str,
    not: bool,
    nvars: u32,
    l2v: Vec<u32>,
}

fn bx(g: &mut G, t: &BTarget, what: &str, expect: &str, file: &[u8]) {
    debug_assert!(!what.contains(char::is_whitespace));
    writeln!(
        g.w,
        "import kind={} cmpl={} nvars={} order={} file={} what={what} expect={expect}",
        t.kind,
        if t.not { "not" } else { "id" },
        t.nvars,
        comma(&t.l2v),
        to_hex(file)
    )
    .unwrap();
}

/// `write_escaped`
fn b_esc(bytes: &[u8]) -> Vec<u8> {
    let mut o = Vec::new();
    for &b in bytes {
        match b {
            0x00 => o.extend_from_slice(&[0, 0]),
            0x0a => o.extend_from_slice(&[0, 1]),
            0x0d => o.extend_from_slice(&[0, 2]),
            0x1a => o.extend_from_slice(&[0, 3]),
            _ => o.push(b),
        }
    }
    o
}
/// `encode_7bit` (escaped)
fn b_7bit(n: u64) -> Vec<u8> {
    let mut raw = vec![((n & 0x7f) << 1) as u8];
    let mut v = n >> 7;
    while v != 0 {
        raw.insert(0, (((v & 0x7f) << 1) | 1) as u8);
        v >>= 7;
    }
    b_esc(&raw)
}

/// a code of the binary format with its argument
#[derive(Clone, Copy)]
enum BC {
    Term,
    Abs(u64),
    Rel(u64),
    Rel1,
}
impl BC {
    fn bits(self) -> u8 {
        match self {
            BC::Term => 0,
            BC::Abs(_) => 1,
            BC::Rel(_) => 2,
            BC::Rel1 => 3,
        }
    }
    fn arg(self) -> Vec<u8> {
        match self {
            BC::Abs(n) | BC::Rel(n) => b_7bit(n),
            _ => Vec::new(),
        }
    }
    fn label(self) -> String {
        match self {
            BC::Term => "term".into(),
            BC::Abs(n) => format!("abs{n}"),
            BC::Rel(n) => format!("rel{n}"),
            BC::Rel1 => "rel1".into(),
        }
    }
}
/// one binary node record
fn b_rec(var: BC, t: BC, e_compl: bool, e: BC) -> Vec<u8> {
    let mut o = b_esc(&[(var.bits() << 5) | (t.bits() << 3) | ((e_compl as u8) << 2) | e.bits()]);
    o.extend(var.arg());
    o.extend(t.arg());
    o.extend(e.arg());
    o
}

/// h = x2 ? (x0 ? x3 : (x1 & x3)) : x3 and g = x0 ? x3 : (x1 & x3) over 5 variables (x4 unused)
fn b_tt(f: impl Fn(&[bool]) -> bool, nvars: u32) -> String {
    let n = 1usize << nvars;
    let bits: Vec<bool> = (0..n).map(|a| f(&(0..nvars).map(|v| (a >> v) & 1 != 0).collect::<Vec<_>>())).collect();
    let mut s = String::from("tt=");
    for c in bits.chunks(4) {
        let v = c.iter().enumerate().fold(0u32, |acc, (k, &b)| acc | ((b as u32) << k));
        s.push(char::from_digit(v, 16).unwrap());
    }
    s
}

const B_ORDER: [u32; 5] = [2, 0, 4, 1, 3];

/// a crafted base must be byte for byte what the real exporter writes for the same functions; if
/// it is not (the exporter changed), a line that necessarily fails the verdict oracle is emitted
fn b_check_base(g: &mut G, t: &BTarget, name: &str, crafted: &[u8], exported: Option<&(Vec<u8>, bool)>) {
    match exported {
        Some((f, false)) if f == crafted => {}
        _ => {
            writeln!(g.w, "# the crafted base `{name}` is not the file the real exporter writes: the boundary families below are not single-field patches of a valid export").unwrap();
            bx(g, t, &format!("{name}-differs-from-real-export"), "base-is-a-real-export", crafted);
        }
    }
}

fn boundaries(g: &mut G) {
    let names: Vec<String> = ["a", "b", "c", "d", "e"].iter().map(|s| s.to_string()).collect();
    let bdd = BTarget { kind: "bdd", not: true, nvars: 5, l2v: B_ORDER.to_vec() };
    let bcdd = BTarget { kind: "bcdd", not: true, nvars: 5, l2v: B_ORDER.to_vec() };
    let h = |x: &[bool]| if x[2] { if x[0] { x[3] } else { x[1] && x[3] } } else { x[3] };
    let gg = |x: &[bool]| if x[0] { x[3] } else { x[1] && x[3] };
    let roots2 = |named: bool| {
        vec![
            RootSpec { func: "h".into(), name: if named { Some(b"f".to_vec()) } else { None } },
            RootSpec { func: "g".into(), name: if named { Some(b"g".to_vec()) } else { None } },
        ]
    };
    let st_a2 = ExpSettings { ascii: true, v3: false, strict: true, dd: String::new() };
    let st_a3 = ExpSettings { ascii: true, v3: true, strict: true, dd: String::new() };
    let st_b2 = ExpSettings { ascii: false, v3: false, strict: true, dd: String::new() };

    // ---------------------------------------------------------------------------------------
    // bases: real exports, re-stated literally (support rank = position by level: x2 x0 x1 x3)
    g.case("boundary-bases");
    // (1) BDD, ASCII, no names, two roots
    let mut hu_real = None;
    if g.mgr("bdd", 5, &B_ORDER, None) {
        g.func("h", &b_tt(h, 5));
        g.func("g", &b_tt(gg, 5));
        hu_real = g.export(&st_a2, &roots2(false), false);
    }
    // the order of the two terminal records is the exporter's (read off the real file)
    let t_first = hu_real
        .as_ref()
        .and_then(|(f, _)| BFile::parse(f))
        .and_then(|b| b.body.split(|&c| c == b'\n').next().map(|l| l.to_vec()))
        .unwrap_or_else(|| b"1 F 0 0".to_vec());
    let (id_f, id_t) = if t_first.starts_with(b"1 T") { (2, 1) } else { (1, 2) };
    let term_lines = if id_f == 1 { "1 F 0 0\n2 T 0 0\n" } else { "1 T 0 0\n2 F 0 0\n" };
    let hu_text = format!(
        ".ver DDDMP-2.0\n.mode A\n.varinfo 4\n.nnodes 6\n.nvars 5\n.nsuppvars 4\n.ids 0 1 2 3\n.permids 1 3 0 4\n.nroots 2\n.rootids 6 5\n.nodes\n{term_lines}3 3 {id_t} {id_f}\n4 2 3 {id_f}\n5 1 3 4\n6 0 5 3\n.end\n"
    );
    b_check_base(g, &bdd, "bdd-ascii-unnamed", hu_text.as_bytes(), hu_real.as_ref());
    let hu = BFile::parse(hu_text.as_bytes()).unwrap();
    bx(g, &bdd, "base-bdd-ascii-unnamed", "ok", &hu.bytes());
    // (2) BDD, ASCII, version 3.0, variable and root names
    let mut hn_real = None;
    if g.mgr("bdd", 5, &B_ORDER, Some(&names)) {
        g.func("h", &b_tt(h, 5));
        g.func("g", &b_tt(gg, 5));
        hn_real = g.export(&st_a3, &roots2(true), true);
    }
    let hn_text = format!(
        ".ver DDDMP-3.0\n.mode A\n.varinfo 4\n.nnodes 6\n.nvars 5\n.nsuppvars 4\n.varnames a b c d e\n.suppvarnames a b c d\n.orderedvarnames c a e b d\n.ids 0 1 2 3\n.permids 1 3 0 4\n.nroots 2\n.rootids 6 5\n.rootnames f g\n.nodes\n{term_lines}3 3 {id_t} {id_f}\n4 2 3 {id_f}\n5 1 3 4\n6 0 5 3\n.end\n"
    );
    b_check_base(g, &bdd, "bdd-ascii-named", hn_text.as_bytes(), hn_real.as_ref());
    let hn = BFile::parse(hn_text.as_bytes()).unwrap();
    bx(g, &bdd, "base-bdd-ascii-named", "ok", &hn.bytes());
    // (3) BCDD, ASCII and binary, one root
    let (mut ca_real, mut cb_real) = (None, None);
    if g.mgr("bcdd", 5, &B_ORDER, None) {
        g.func("h", &b_tt(h, 5));
        let r = [RootSpec { func: "h".into(), name: None }];
        ca_real = g.export(&st_a2, &r, false);
        cb_real = g.export(&st_b2, &r, false);
    }
    let c_hdr = |mode: &str| format!(".ver DDDMP-2.0\n.mode {mode}\n.varinfo 4\n.nnodes 5\n.nvars 5\n.nsuppvars 4\n.ids 0 1 2 3\n.permids 1 3 0 4\n.nroots 1\n.rootids 5\n.nodes\n");
    let ca_text = format!("{}1 T 0 0\n2 3 1 -1\n3 2 2 -1\n4 1 2 3\n5 0 4 2\n.end\n", c_hdr("A"));
    b_check_base(g, &bcdd, "bcdd-ascii", ca_text.as_bytes(), ca_real.as_ref());
    let ca = BFile::parse(ca_text.as_bytes()).unwrap();
    bx(g, &bcdd, "base-bcdd-ascii", "ok", &ca.bytes());
    // binary records of the nodes 1..4 (the terminal, then the nodes of rank 3, 2, 1) and of the root
    let pre4: Vec<u8> = [
        b_rec(BC::Term, BC::Term, false, BC::Term),
        b_rec(BC::Abs(3), BC::Term, true, BC::Term),
        b_rec(BC::Rel1, BC::Rel1, true, BC::Term),
        b_rec(BC::Rel1, BC::Abs(2), false, BC::Rel1),
    ]
    .concat();
    let root5 = b_rec(BC::Rel1, BC::Rel1, false, BC::Abs(2));
    let mut cb_bytes = c_hdr("B").into_bytes();
    cb_bytes.extend_from_slice(&pre4);
    cb_bytes.extend_from_slice(&root5);
    cb_bytes.extend_from_slice(b".end\n");
    b_check_base(g, &bcdd, "bcdd-binary", &cb_bytes, cb_real.as_ref());
    let cb = BFile::parse(&cb_bytes).unwrap();
    bx(g, &bcdd, "base-bcdd-binary", "ok", &cb.bytes());
    // the binary file is kind-agnostic: BDD target
    bx(g, &bdd, "base-bcdd-binary-into-bdd", "ok", &cb.bytes());

    // ---------------------------------------------------------------------------------------
    // header: counts and ranges (`DumpHeader::load` validation)
    g.case("boundary-header-nnodes-rootids");
    for (v, exp) in [("5", "err:load"), ("6", "ok"), ("7", "err:import"), ("06", "ok"), ("0", "err:load")] {
        bx(g, &bdd, &format!("nnodes={v}"), exp, &hu.set(".nnodes", v).bytes());
    }
    // one node less than present, no root points at it: `1..=nnodes` stops early, `.end` is missing
    bx(g, &bdd, "nnodes=5,rootids=5,4", "err:import", &hu.set(".nnodes", "5").set(".rootids", "5 4").bytes());
    for (v, exp) in [
        ("6 6", "ok"), ("6 7", "err:load"), ("6 -6", "ok"), ("6 -7", "err:load"), ("6 0", "err:load"), ("6 -0", "err:load"),
        ("0 6", "err:load"), ("6 1", "ok"), ("6 -1", "ok"), ("7 6", "err:load"), ("6", "err:load"), ("6 5 4", "err:load"),
        ("", "err:load"), ("6 -", "err:load"), ("6 - 5", "ok"), ("6 5 -", "ok"), ("6 --5", "err:load"), ("6 5-", "err:load"),
        ("6 -5-", "err:load"), ("6 +5", "err:load"), ("6\t-5", "ok"),
    ] {
        bx(g, &bdd, &format!("rootids={}", v.replace([' ', '\t'], ",")), exp, &hu.set(".rootids", v).bytes());
    }
    for (v, exp) in [("1", "err:load"), ("2", "ok"), ("3", "err:load"), ("02", "ok"), ("", "err:load"), ("2 ", "ok"), ("2x", "err:load"), ("-2", "err:load")] {
        bx(g, &bdd, &format!("nroots={}", v.replace(' ', "_")), exp, &hu.set(".nroots", v).bytes());
    }
    bx(g, &bdd, "nroots=0,rootids-empty", "ok", &hu.set(".nroots", "0").raw(".rootids", b".rootids").bytes());
    bx(g, &bdd, "nroots=0,rootids-line-missing", "ok", &hu.set(".nroots", "0").drop(".rootids").bytes());
    for (v, exp) in [("f", "err:load"), ("f g", "ok"), ("f g h", "err:load"), ("f  g ", "ok"), ("f\tg", "ok")] {
        bx(g, &bdd, &format!("rootnames={}", v.replace([' ', '\t'], ",")), exp, &hn.set(".rootnames", v).bytes());
    }
    bx(g, &bdd, "rootnames-empty", "ok", &hn.raw(".rootnames", b".rootnames").bytes());
    bx(g, &bdd, "rootnames-line-missing", "ok", &hn.drop(".rootnames").bytes());

    g.case("boundary-header-nvars-nsuppvars");
    // .nvars 5: the largest level in .permids is 4, the largest variable in .ids is 3
    for (v, exp) in [("4", "err:load"), ("5", "ok"), ("6", "ok"), ("3", "err:load"), ("0", "err:load")] {
        bx(g, &bdd, &format!("nvars={v}"), exp, &hu.set(".nvars", v).bytes());
    }
    for (v, exp) in [("4", "err:load"), ("5", "ok"), ("6", "err:load")] {
        bx(g, &bdd, &format!("named,nvars={v}"), exp, &hn.set(".nvars", v).bytes());
    }
    for (v, exp) in [("3", "err:load"), ("4", "ok"), ("5", "err:load"), ("6", "err:load"), ("0", "err:load")] {
        bx(g, &bdd, &format!("nsuppvars={v}"), exp, &hu.set(".nsuppvars", v).bytes());
    }
    // .nsuppvars == .nvars is legal (every variable in the support): 4 variables, order 2,0,1,3
    {
        let t4 = BTarget { kind: "bdd", not: true, nvars: 4, l2v: vec![2, 0, 1, 3] };
        let f4 = hu.set(".nvars", "4").set(".permids", "1 2 0 3");
        bx(g, &t4, "nsuppvars=nvars=4", "ok", &f4.bytes());
        bx(g, &t4, "nsuppvars=5,nvars=4", "err:load", &f4.set(".nsuppvars", "5").bytes());
        bx(g, &t4, "nsuppvars=5,nvars=4,five-ids", "err:load", &f4.set(".nsuppvars", "5").set(".ids", "0 1 2 3 4").set(".permids", "1 2 0 3 4").bytes());
    }

    g.case("boundary-header-ids-permids-auxids");
    for (v, exp) in [
        ("0 1 2 3", "ok"), ("0 1 2 4", "reject:order"), ("0 1 2 5", "err:load"), ("0 1 2 2", "err:load"), ("0 1 1 3", "err:load"),
        ("0 0 2 3", "err:load"), ("0 2 1 3", "err:load"), ("1 0 2 3", "err:load"), ("0 1 2", "err:load"), ("0 1 2 3 4", "err:load"),
        ("", "err:load"), ("0 1 2 3 ", "ok"), ("0\t1  2 \t3", "ok"), ("00 01 02 03", "ok"), ("0 1 2 -3", "err:load"), ("0 1 2 3x", "err:load"),
        ("0 1 2 4294967295", "err:load"), ("0 1 2 4294967296", "err:load"),
    ] {
        bx(g, &bdd, &format!("ids={}", v.replace([' ', '\t'], ",")), exp, &hu.set(".ids", v).bytes());
    }
    // the same with .nvars 6 and a target of 6 variables: variable 4 is in range, 5 is the last one
    {
        let t6 = BTarget { kind: "bdd", not: true, nvars: 6, l2v: vec![2, 0, 4, 1, 3, 5] };
        let f6 = hu.set(".nvars", "6");
        bx(g, &t6, "nvars=6,ids=0,1,2,3", "ok", &f6.bytes());
        bx(g, &t6, "nvars=6,ids=0,1,2,5", "ok", &f6.set(".ids", "0 1 2 5").set(".permids", "1 3 0 5").bytes());
        bx(g, &t6, "nvars=6,ids=0,1,2,6", "err:load", &f6.set(".ids", "0 1 2 6").set(".permids", "1 3 0 5").bytes());
        // (levels of the file need not be the levels of the target: only their relative order counts)
        bx(g, &t6, "nvars=6,permids=1,3,0,5", "ok", &f6.set(".permids", "1 3 0 5").bytes());
        bx(g, &t6, "nvars=6,permids=1,3,0,6", "err:load", &f6.set(".permids", "1 3 0 6").bytes());
        // a target with fewer variables than the file's support needs: caller obligation
        bx(g, &bdd, "nvars=6,ids=0,1,2,5,target-5", "reject:vars", &f6.set(".ids", "0 1 2 5").set(".permids", "1 3 0 5").bytes());
    }
    for (v, exp) in [
        ("1 3 0 4", "ok"), ("1 3 0 5", "err:load"), ("1 3 0 2", "reject:order"), ("1 3 0 0", "err:load"), ("1 3 0 1", "err:load"),
        ("1 1 0 4", "err:load"), ("1 3 0", "err:load"), ("1 3 0 4 2", "err:load"), ("", "err:load"), ("0 3 1 4", "reject:order"),
        ("1 3 0 4294967295", "err:load"), ("1 3 0 4294967296", "err:load"), ("1 3 0 -4", "err:load"),
    ] {
        bx(g, &bdd, &format!("permids={}", v.replace(' ', ",")), exp, &hu.set(".permids", v).bytes());
    }
    for (v, exp) in [
        ("7 8 9", "err:load"), ("7 8 9 10", "ok"), ("7 8 9 10 11", "err:load"), ("", "ok"), ("7", "err:load"), ("7 7 7 7", "ok"),
        ("4294967295 0 0 0", "ok"), ("4294967296 0 0 0", "err:load"), ("0 0 0 4294967295", "ok"), ("0 0 0 4294967296", "err:load"),
        ("7 8 9 x", "err:load"),
    ] {
        bx(g, &bdd, &format!("auxids={}", v.replace(' ', ",")), exp, &hu.after(".permids", &format!(".auxids {v}")).bytes());
    }

    g.case("boundary-header-name-counts");
    for (key, vals) in [
        (".varnames", vec![("a b c d", "err:load"), ("a b c d e", "ok"), ("a b c d e f", "err:load"), ("a  b\tc d e ", "ok")]),
        (".orderedvarnames", vec![("c a e b", "err:load"), ("c a e b d", "ok"), ("c a e b d x", "err:load")]),
        (".suppvarnames", vec![("a b c", "err:load"), ("a b c d", "ok"), ("a b c d x", "err:load")]),
    ] {
        for (v, exp) in vals {
            bx(g, &bdd, &format!("{}={}", &key[1..], v.replace([' ', '\t'], ",")), exp, &hn.set(key, v).bytes());
        }
        // the section alone (the two others dropped), with its count off by one in both directions
        let mut alone = hn.clone();
        for k in [".varnames", ".orderedvarnames", ".suppvarnames"] {
            if k != key {
                alone = alone.drop(k);
            }
        }
        bx(g, &bdd, &format!("only-{}", &key[1..]), "ok", &alone.bytes());
        let full = hn.get(key);
        let fewer = full.rsplit_once(' ').unwrap().0.to_string();
        bx(g, &bdd, &format!("only-{}-one-fewer", &key[1..]), "err:load", &alone.set(key, &fewer).bytes());
        bx(g, &bdd, &format!("only-{}-one-more", &key[1..]), "err:load", &alone.set(key, &format!("{full} x")).bytes());
        bx(g, &bdd, &format!("only-{}-empty", &key[1..]), "ok", &alone.raw(key, key.as_bytes()).bytes());
    }
    // names that must agree
    for (key, v, exp) in [
        (".suppvarnames", "a b c e", "err:load"), (".suppvarnames", "x b c d", "err:load"), (".orderedvarnames", "c a e d b", "err:load"),
        (".orderedvarnames", "c a x b d", "ok"), (".varnames", "a b c d x", "ok"), (".varnames", "a b c x e", "err:load"),
    ] {
        bx(g, &bdd, &format!("{}={}", &key[1..], v.replace(' ', ",")), exp, &hn.set(key, v).bytes());
    }

    g.case("boundary-header-number-limits");
    // the last entry of a key counts: a first entry at / beyond the limit of the field's integer type
    for (key, at, beyond) in [
        (".nnodes", "18446744073709551615", "18446744073709551616"),
        (".nroots", "18446744073709551615", "18446744073709551616"),
        (".nvars", "4294967295", "4294967296"),
        (".nsuppvars", "4294967295", "4294967296"),
        (".ids", "0 1 2 4294967295", "0 1 2 4294967296"),
        (".permids", "1 3 0 4294967295", "1 3 0 4294967296"),
        (".rootids", "6 9223372036854775807", "6 9223372036854775808"),
        (".rootids", "6 -9223372036854775807", "6 -9223372036854775808"),
        (".rootids", "9223372036854775807", "9223372036854775808"),
    ] {
        let tag = |v: &str| v.rsplit(' ').next().unwrap().to_string();
        bx(g, &bdd, &format!("first-{}={}", &key[1..], tag(at)), "ok", &hu.before(key, &format!("{key} {at}")).bytes());
        bx(g, &bdd, &format!("first-{}={}", &key[1..], tag(beyond)), "err:load", &hu.before(key, &format!("{key} {beyond}")).bytes());
    }
    // counts far beyond what the file holds must not be used as capacities (MAX_PREALLOC)
    bx(g, &bdd, "nroots=2^61,then-rootids-rootnames,then-nroots=2", "ok",
        &hn.set(".nroots", "2305843009213693952").after(".rootnames", ".nroots 2").bytes());
    bx(g, &bdd, "nroots=2^61,rootnames", "err:load", &hn.set(".nroots", "2305843009213693952").bytes());
    bx(g, &bdd, "nsuppvars=2^32-1,then-lists,then-nsuppvars=4", "ok",
        &hn.set(".nsuppvars", "4294967295").after(".permids", ".nsuppvars 4").bytes());
    bx(g, &bdd, "nvars=2^32-1,then-names,then-nvars=5", "ok", &hn.set(".nvars", "4294967295").after(".orderedvarnames", ".nvars 5").bytes());
    bx(g, &bdd, "nnodes=2^64-1", "err:import", &hu.set(".nnodes", "18446744073709551615").bytes());
    bx(g, &bcdd, "binary,nnodes=2^64-1", "err:import", &cb.set(".nnodes", "18446744073709551615").bytes());

    g.case("boundary-header-separators-missing-fields");
    for (what, exp, f) in [
        ("key-tab-value", "ok", hu.raw(".nnodes", b".nnodes\t6")),
        ("key-blank-tab-value-blank-tab", "ok", hu.raw(".nnodes", b".nnodes \t 6 \t")),
        ("key-without-value", "err:load", hu.raw(".nnodes", b".nnodes")),
        ("key-blank-only", "err:load", hu.raw(".nnodes", b".nnodes ")),
        ("key-glued-to-value", "err:load", hu.raw(".nnodes", b".nnodes6")),
        ("blank-before-key", "err:load", hu.raw(".nnodes", b" .nnodes 6")),
        ("tab-before-key", "err:load", hu.raw(".nnodes", b"\t.nnodes 6")),
        ("value-with-inner-blank", "err:load", hu.raw(".nnodes", b".nnodes 6 0")),
        ("value-cr-in-the-middle", "err:load", hu.raw(".nnodes", b".nnodes 6\rx")),
        ("value-two-cr-at-the-end", "ok", hu.raw(".nnodes", b".nnodes 6\r\r")),
        ("empty-line", "err:load", hu.before(".nnodes", "")),
        ("ids-tabs", "ok", hu.raw(".ids", b".ids\t0\t1\t2\t3")),
        ("ids-key-only,nsuppvars=4", "err:load", hu.raw(".ids", b".ids")),
        ("nodes-trailing-blank", "ok", hu.raw(".nodes", b".nodes ")),
        ("nodes-tab-junk", "ok", hu.raw(".nodes", b".nodes\tjunk")),
        ("nodes-glued-junk", "err:load", hu.raw(".nodes", b".nodesx")),
        ("nodes-blank-before", "err:load", hu.raw(".nodes", b" .nodes")),
        ("ver-2.0-trailing-blank", "ok", hu.raw(".ver", b".ver DDDMP-2.0 ")),
        ("ver-3.0", "ok", hu.set(".ver", "DDDMP-3.0")),
        ("ver-2.1", "err:load", hu.set(".ver", "DDDMP-2.1")),
        ("ver-lower-case", "err:load", hu.set(".ver", "dddmp-2.0")),
        ("ver-empty", "err:load", hu.raw(".ver", b".ver")),
        ("mode-a-lower-case", "err:load", hu.set(".mode", "a")),
        ("mode-AB", "err:load", hu.set(".mode", "AB")),
        ("mode-empty", "err:load", hu.raw(".mode", b".mode")),
        ("mode-A-then-tab", "ok", hu.raw(".mode", b".mode\tA\t")),
        ("varinfo-5", "err:load", hu.set(".varinfo", "5")),
        ("varinfo-04", "err:load", hu.set(".varinfo", "04")),
        ("varinfo-empty", "err:load", hu.raw(".varinfo", b".varinfo")),
        ("dd-line", "ok", hu.after(".varinfo", ".dd  my  dd ")),
        ("dd-empty", "ok", hu.after(".varinfo", ".dd")),
        ("unknown-key", "err:load", hu.after(".varinfo", ".nnode 6")),
        ("key-prefix-of-known", "err:load", hu.raw(".nvars", b".nvar 5")),
        ("key-upper-case", "err:load", hu.raw(".nvars", b".NVARS 5")),
        ("crlf-everywhere", "ok", hu.with_eol(b"\r\n")),
        ("cr-only-line-ends", "err:load", hu.with_eol(b"\r")),
    ] {
        bx(g, &bdd, what, exp, &f.bytes());
    }
    for (key, exp) in [
        (".ver", "ok"), (".mode", "ok"), (".varinfo", "ok"), (".nnodes", "err:load"), (".nvars", "err:load"), (".nsuppvars", "err:load"),
        (".ids", "err:load"), (".permids", "err:load"), (".nroots", "err:load"), (".rootids", "err:load"), (".nodes", "err:load"),
    ] {
        bx(g, &bdd, &format!("missing-{}", &key[1..]), exp, &hu.drop(key).bytes());
    }
    // binary file without `.mode`: the node section is read as ASCII
    bx(g, &bcdd, "binary-missing-mode", "err:import", &cb.drop(".mode").bytes());
    bx(g, &bcdd, "ascii-body-with-mode-B", "err:import", &ca.set(".mode", "B").bytes());

    // ---------------------------------------------------------------------------------------
    // ASCII node lines (`import_ascii`)
    g.case("boundary-ascii-node-id-and-variable");
    let f_ = id_f;
    for (what, exp, line) in [
        ("id=5", "err:import", "5 0 5 3".to_string()), ("id=6", "ok", "6 0 5 3".into()), ("id=7", "err:import", "7 0 5 3".into()),
        ("id=06", "ok", "06 0 5 3".into()), ("id=6x", "err:import", "6x 0 5 3".into()), ("id=-6", "err:import", "-6 0 5 3".into()),
        ("id-blank-before", "ok", " \t6 0 5 3".into()), ("id-missing", "err:import", " 0 5 3".into()), ("id=2^64", "err:import", "18446744073709551616 0 5 3".into()),
        // variable (support rank) of the root: children at rank 1 (then) and 3 (else), 4 support variables
        ("var=0", "ok", "6 0 5 3".into()), ("var=1,equals-then-rank", "err:import", "6 1 5 3".into()), ("var=2", "err:import", "6 2 5 3".into()),
        ("var=3,equals-else-rank", "err:import", "6 3 5 3".into()), ("var=4,equals-nsuppvars", "err:import", "6 4 5 3".into()),
        ("var=00", "ok", "6 00 5 3".into()), ("var=0x", "err:import", "6 0x 5 3".into()), ("var=-0", "err:import", "6 -0 5 3".into()),
        ("var=2^32-1", "err:import", "6 4294967295 5 3".into()), ("var=2^32", "err:import", "6 4294967296 5 3".into()),
        // children swapped: the else child is the higher one
        ("swapped,var=0", "ok", "6 0 3 5".into()), ("swapped,var=1,equals-else-rank", "err:import", "6 1 3 5".into()),
        // terminal children only: every rank is fine, 4 is out of range
        ("terminal-children,var=3", "ok", format!("6 3 {id_t} {f_}")), ("terminal-children,var=4", "err:import", format!("6 4 {id_t} {f_}")),
        // separators and missing fields
        ("tabs", "ok", "6\t0\t5\t3".into()), ("double-blanks", "ok", "6  0  5  3 ".into()), ("no-blank-after-var", "err:import", "6 0".into()),
        ("blank-after-var-no-children", "err:import", "6 0 ".into()), ("id-only", "err:import", "6".into()), ("id-blank", "err:import", "6 ".into()),
        ("one-child", "err:import", "6 0 5".into()), ("three-children", "err:import", "6 0 5 3 1".into()), ("empty-line", "err:import", "".into()),
    ] {
        bx(g, &bdd, what, exp, &hu.node_line(5, line.as_bytes()).bytes());
    }
    // node 5 (rank 1, then child 3 at rank 3, else child 4 at rank 2): only the second child decides
    for (what, exp, line) in [
        ("node5,var=1", "ok", "5 1 3 4"), ("node5,var=2,equals-else-rank", "err:import", "5 2 3 4"), ("node5,var=3,equals-then-rank", "err:import", "5 3 3 4"),
        ("node5,var=0,then-root-has-equal-rank", "err:import", "5 0 3 4"),
    ] {
        bx(g, &bdd, what, exp, &hu.node_line(4, line.as_bytes()).bytes());
    }

    g.case("boundary-ascii-child-ids");
    for (what, exp, line) in [
        ("then=5", "ok", "6 0 5 3"), ("then=6,own-id", "err:import", "6 0 6 3"), ("then=7", "err:import", "6 0 7 3"), ("then=1", "ok", "6 0 1 3"),
        ("then=0", "ok", "6 0 0 3"), ("then=-0", "ok", "6 0 -0 3"), ("then=-5", "ok", "6 0 -5 3"), ("then=-6,own-id", "err:import", "6 0 -6 3"),
        ("then=-1", "ok", "6 0 -1 3"), ("then=05", "ok", "6 0 05 3"), ("then=2^63-1", "err:import", "6 0 9223372036854775807 3"),
        ("then=2^63", "err:import", "6 0 9223372036854775808 3"), ("then=-(2^63-1)", "err:import", "6 0 -9223372036854775807 3"),
        ("else=3", "ok", "6 0 5 3"), ("else=5,same-as-then", "ok", "6 0 5 5"), ("else=6,own-id", "err:import", "6 0 5 6"), ("else=7", "err:import", "6 0 5 7"),
        ("else=0", "ok", "6 0 5 0"), ("else=-3", "ok", "6 0 5 -3"), ("else=-6,own-id", "err:import", "6 0 5 -6"), ("else=4", "ok", "6 0 5 4"),
        ("else=--3", "err:import", "6 0 5 --3"), ("else=3-", "err:import", "6 0 5 3-"), ("else=-", "err:import", "6 0 5 -"), ("else=-,blank,3", "ok", "6 0 5 - 3"),
        // a terminal record needs a known descriptor: rank 0 is "0", false
        ("both=0", "ok", "6 0 0 0"),
    ] {
        bx(g, &bdd, what, exp, &hu.node_line(5, line.as_bytes()).bytes());
    }
    // first inner node (id 3) and the terminal records
    for (what, exp, idx, line) in [
        ("node3,then=2", "ok", 2usize, format!("3 3 {id_t} {f_}")), ("node3,then=3,own-id", "err:import", 2, format!("3 3 3 {f_}")),
        ("node3,else=3,own-id", "err:import", 2, format!("3 3 {id_t} 3")), ("node1,children=1,0", "ok", 0, format!("1 {} 1 0", if f_ == 1 { "F" } else { "T" })),
        ("node1,children=0,1", "ok", 0, format!("1 {} 0 1", if f_ == 1 { "F" } else { "T" })),
        ("node1,children=1,1,inner-node-with-own-id", "err:import", 0, "1 0 1 1".to_string()),
        ("node1,one-child", "err:import", 0, "1 F 0".to_string()), ("node1,unknown-terminal", "err:import", 0, "1 X 0 0".to_string()),
        ("node1,empty-terminal", "err:import", 0, "1  0 0".to_string()), ("node1,id=0", "err:import", 0, "0 F 0 0".to_string()),
        ("node1,id=2", "err:import", 0, "2 F 0 0".to_string()),
    ] {
        bx(g, &bdd, what, exp, &hu.node_line(idx, line.as_bytes()).bytes());
    }
    bx(g, &bdd, "node1,terminal-not-utf8", "err:import", &hu.node_line(0, b"1 \xff 0 0").bytes());
    bx(g, &bdd, "node1,terminal-not-utf8-truncated-sequence", "err:import", &hu.node_line(0, b"1 \xe2\x8a 0 0").bytes());
    // BCDD: complemented edges, the single terminal
    for (what, exp, line) in [
        ("bcdd,then=4", "ok", "5 0 4 2"), ("bcdd,then=-4", "ok", "5 0 -4 2"), ("bcdd,then=5,own-id", "err:import", "5 0 5 2"), ("bcdd,else=-5,own-id", "err:import", "5 0 4 -5"),
        ("bcdd,else=-4,same-node-complemented", "ok", "5 0 4 -4"), ("bcdd,var=1", "err:import", "5 1 4 2"), ("bcdd,else=0", "ok", "5 0 4 0"),
    ] {
        bx(g, &bcdd, what, exp, &ca.node_line(4, line.as_bytes()).bytes());
    }

    g.case("boundary-ascii-varinfo");
    for vi in ["0", "1", "2", "3"] {
        // every node line carries one more token between id and variable
        let body: Vec<u8> = hu
            .body
            .split(|&b| b == b'\n')
            .filter(|l| !l.is_empty())
            .flat_map(|l| {
                let p = l.iter().position(|&b| b == b' ').unwrap();
                let mut o = l[..p].to_vec();
                o.extend_from_slice(b" info");
                o.extend_from_slice(&l[p..]);
                o.push(b'\n');
                o
            })
            .collect();
        let f = hu.set(".varinfo", vi).with_body(&body);
        bx(g, &bdd, &format!("varinfo={vi},extra-token"), "ok", &f.bytes());
        bx(g, &bdd, &format!("varinfo={vi},no-extra-token"), "err:import", &hu.set(".varinfo", vi).bytes());
        bx(g, &bdd, &format!("varinfo={vi},last-line-without"), "err:import", &f.node_line(5, b"6 0 5 3").bytes());
        bx(g, &bdd, &format!("varinfo={vi},last-line-extra-token-only"), "err:import", &f.node_line(5, b"6 info").bytes());
        bx(g, &bdd, &format!("varinfo={vi},last-line-extra-token-blank"), "err:import", &f.node_line(5, b"6 info ").bytes());
        bx(g, &bdd, &format!("varinfo={vi},last-line-tabs"), "ok", &f.node_line(5, b"6\tinfo\t0\t5\t3").bytes());
    }
    bx(g, &bdd, "varinfo=4,extra-token", "err:import", &hu.node_line(5, b"6 info 0 5 3").bytes());

    // ---------------------------------------------------------------------------------------
    // binary node records (`import_bin`): the record of node 5 is replaced; nodes 1..4 are the
    // terminal and the nodes of support rank 3, 2, 1 (levels 4, 3, 1 of the target)
    let with_last = |rec: &[u8]| {
        let mut b = pre4.clone();
        b.extend_from_slice(rec);
        cb.with_body(&b)
    };
    g.case("boundary-binary-child-ids");
    for (pos, mk) in [
        ("then", (|c: BC| b_rec(BC::Abs(0), c, true, BC::Term)) as fn(BC) -> Vec<u8>),
        ("else", (|c: BC| b_rec(BC::Abs(0), BC::Abs(2), false, c)) as fn(BC) -> Vec<u8>),
    ] {
        for (c, exp) in [
            (BC::Abs(0), "err:import"), (BC::Abs(1), "ok"), (BC::Abs(3), "ok"), (BC::Abs(4), "ok"), (BC::Abs(5), "err:import"), (BC::Abs(6), "err:import"),
            (BC::Rel(0), "err:import"), (BC::Rel(1), "ok"), (BC::Rel(2), "ok"), (BC::Rel(4), "ok"), (BC::Rel(5), "err:import"), (BC::Rel(6), "err:import"),
            (BC::Rel(127), "err:import"), (BC::Rel(128), "err:import"), (BC::Abs(128), "err:import"),
            (BC::Rel1, "ok"), (BC::Term, "ok"),
        ] {
            bx(g, &bcdd, &format!("node5,{pos}={}", c.label()), exp, &with_last(&mk(c)).bytes());
        }
    }
    // the first records of the file: node 1 / node 2 as inner nodes
    {
        let f1 = cb.set(".nnodes", "1").set(".rootids", "1");
        let f2 = cb.set(".nnodes", "2").set(".rootids", "2");
        let term = b_rec(BC::Term, BC::Term, false, BC::Term);
        for (what, exp, rec) in [
            ("node1,terminal-record", "ok", term.clone()),
            ("node1,inner,children=term", "err:import", b_rec(BC::Abs(0), BC::Term, true, BC::Term)),
            ("node1,inner,then=rel1", "err:import", b_rec(BC::Abs(0), BC::Rel1, true, BC::Term)),
            ("node1,inner,then=rel1,else=rel1", "err:import", b_rec(BC::Abs(0), BC::Rel1, true, BC::Rel1)),
            ("node1,inner,then=abs0", "err:import", b_rec(BC::Abs(0), BC::Abs(0), true, BC::Term)),
            ("node1,inner,then=abs1", "err:import", b_rec(BC::Abs(0), BC::Abs(1), true, BC::Term)),
            ("node1,inner,then=rel0", "err:import", b_rec(BC::Abs(0), BC::Rel(0), true, BC::Term)),
            ("node1,inner,then=rel1arg", "err:import", b_rec(BC::Abs(0), BC::Rel(1), true, BC::Term)),
        ] {
            bx(g, &bcdd, what, exp, &f1.with_body(&rec).bytes());
        }
        for (what, exp, rec) in [
            ("node2,children=term", "ok", b_rec(BC::Abs(0), BC::Term, true, BC::Term)),
            ("node2,then=rel1", "ok", b_rec(BC::Abs(0), BC::Rel1, true, BC::Term)),
            ("node2,then=abs1", "ok", b_rec(BC::Abs(0), BC::Abs(1), true, BC::Term)),
            ("node2,then=abs2,own-id", "err:import", b_rec(BC::Abs(0), BC::Abs(2), true, BC::Term)),
            ("node2,then=abs0", "err:import", b_rec(BC::Abs(0), BC::Abs(0), true, BC::Term)),
            ("node2,then=rel1arg", "ok", b_rec(BC::Abs(0), BC::Rel(1), true, BC::Term)),
            ("node2,then=rel2,id-0", "err:import", b_rec(BC::Abs(0), BC::Rel(2), true, BC::Term)),
            ("node2,then=rel3,below-0", "err:import", b_rec(BC::Abs(0), BC::Rel(3), true, BC::Term)),
            ("node2,then=rel0,own-id", "err:import", b_rec(BC::Abs(0), BC::Rel(0), true, BC::Term)),
            ("node2,else=abs2,own-id", "err:import", b_rec(BC::Abs(0), BC::Term, true, BC::Abs(2))),
            ("node2,else=rel2,id-0", "err:import", b_rec(BC::Abs(0), BC::Term, true, BC::Rel(2))),
        ] {
            let mut b = term.clone();
            b.extend_from_slice(&rec);
            bx(g, &bcdd, what, exp, &f2.with_body(&b).bytes());
        }
    }

    g.case("boundary-binary-variable-codes");
    // children of node 5: then = node 4 (rank 1), else = node 2 (rank 3); 4 support variables
    for (v, exp) in [
        (BC::Abs(0), "ok"), (BC::Abs(1), "err:import"), (BC::Abs(2), "err:import"), (BC::Abs(3), "err:import"), (BC::Abs(4), "err:import"), (BC::Abs(5), "err:import"),
        (BC::Rel(0), "err:import"), (BC::Rel(1), "ok"), (BC::Rel(2), "err:import"), (BC::Rel1, "ok"),
        // a terminal variable code makes the record a terminal: the argument byte of the else id is left over
        (BC::Term, "err:import"),
    ] {
        bx(g, &bcdd, &format!("then-rank1,else-rank3,var={}", v.label()), exp, &with_last(&b_rec(v, BC::Rel1, false, BC::Abs(2))).bytes());
        // swapped: only the else child is the close one
        bx(g, &bcdd, &format!("then-rank3,else-rank1,var={}", v.label()), exp, &with_last(&b_rec(v, BC::Abs(2), false, BC::Rel1)).bytes());
    }
    // (without argument bytes the child codes of a terminal record are ignored)
    bx(g, &bcdd, "var=term,then=rel1,else=~term", "ok", &with_last(&b_rec(BC::Term, BC::Rel1, true, BC::Term)).bytes());
    // children at rank 2 (node 3) and 3 (node 2)
    for (v, exp) in [
        (BC::Abs(0), "ok"), (BC::Abs(1), "ok"), (BC::Abs(2), "err:import"), (BC::Abs(3), "err:import"), (BC::Rel(0), "err:import"), (BC::Rel(1), "ok"),
        (BC::Rel(2), "ok"), (BC::Rel(3), "err:import"), (BC::Rel1, "ok"),
    ] {
        bx(g, &bcdd, &format!("then-rank2,else-rank3,var={}", v.label()), exp, &with_last(&b_rec(v, BC::Abs(3), true, BC::Abs(2))).bytes());
    }
    // terminal children: relative codes count from the number of levels of the target manager
    // (5 here: ranks 0..3 are reached with distances 5..2), an absolute code must be < 4
    for (v, exp) in [
        (BC::Abs(3), "ok"), (BC::Abs(4), "err:import"), (BC::Abs(5), "err:import"), (BC::Abs(0), "ok"),
        (BC::Rel(0), "err:import"), (BC::Rel(1), "err:import"), (BC::Rel(2), "ok"), (BC::Rel(5), "ok"), (BC::Rel(6), "err:import"), (BC::Rel1, "err:import"),
    ] {
        bx(g, &bcdd, &format!("terminal-children,5-levels,var={}", v.label()), exp, &with_last(&b_rec(v, BC::Term, true, BC::Term)).bytes());
    }
    // the same file in a manager with 7 levels (support at levels 0, 1, 3, 4) and with exactly the 4 support levels
    {
        let t7 = BTarget { kind: "bcdd", not: true, nvars: 7, l2v: vec![2, 0, 4, 1, 3, 5, 6] };
        for (v, exp) in [(BC::Rel(2), "err:import"), (BC::Rel(3), "err:import"), (BC::Rel(4), "ok"), (BC::Rel(7), "ok"), (BC::Rel(8), "err:import"), (BC::Rel1, "err:import")] {
            bx(g, &t7, &format!("terminal-children,7-levels,var={}", v.label()), exp, &with_last(&b_rec(v, BC::Term, true, BC::Term)).bytes());
        }
        let t4 = BTarget { kind: "bcdd", not: true, nvars: 4, l2v: vec![2, 0, 1, 3] };
        let f4 = |rec: &[u8]| with_last(rec).set(".nvars", "4").set(".permids", "1 2 0 3");
        bx(g, &t4, "4-levels,base", "ok", &f4(&root5).bytes());
        for (v, exp) in [(BC::Rel(0), "err:import"), (BC::Rel(1), "ok"), (BC::Rel(4), "ok"), (BC::Rel(5), "err:import"), (BC::Rel1, "ok"), (BC::Abs(3), "ok"), (BC::Abs(4), "err:import")] {
            bx(g, &t4, &format!("terminal-children,4-levels,var={}", v.label()), exp, &f4(&b_rec(v, BC::Term, true, BC::Term)).bytes());
        }
    }
    // a child at rank 0: nothing can be above it
    {
        let f3 = cb.set(".nnodes", "3").set(".rootids", "3");
        let pre2 = [b_rec(BC::Term, BC::Term, false, BC::Term), b_rec(BC::Abs(0), BC::Term, true, BC::Term)].concat();
        for (v, exp) in [(BC::Rel1, "err:import"), (BC::Rel(0), "err:import"), (BC::Rel(1), "err:import"), (BC::Abs(0), "err:import"), (BC::Abs(1), "err:import")] {
            let mut b = pre2.clone();
            b.extend(b_rec(v, BC::Rel1, true, BC::Term));
            bx(g, &bcdd, &format!("child-at-rank0,var={}", v.label()), exp, &f3.with_body(&b).bytes());
        }
        // and a child at rank 1 below a node of rank 0
        let pre2 = [b_rec(BC::Term, BC::Term, false, BC::Term), b_rec(BC::Abs(1), BC::Term, true, BC::Term)].concat();
        for (v, exp) in [(BC::Rel1, "ok"), (BC::Rel(0), "err:import"), (BC::Rel(1), "ok"), (BC::Rel(2), "err:import"), (BC::Abs(0), "ok"), (BC::Abs(1), "err:import")] {
            let mut b = pre2.clone();
            b.extend(b_rec(v, BC::Rel1, true, BC::Term));
            bx(g, &bcdd, &format!("child-at-rank1,var={}", v.label()), exp, &f3.with_body(&b).bytes());
        }
    }

    g.case("boundary-binary-escapes-and-integers");
    {
        // one support variable at level 0 of a manager with L levels: a node over terminal children
        // with a relative variable code is accepted iff the decoded distance is exactly L
        let hdr1 = |nnodes: u32| {
            BFile::parse(format!(".ver DDDMP-2.0\n.mode B\n.varinfo 4\n.nnodes {nnodes}\n.nvars 1\n.nsuppvars 1\n.ids 0\n.permids 0\n.nroots 1\n.rootids {nnodes}\n.nodes\n.end\n").as_bytes()).unwrap()
        };
        let term = b_rec(BC::Term, BC::Term, false, BC::Term);
        let code = (2u8 << 5) | (1 << 2); // variable: relative id, children: terminal, ~terminal
        let tl = |n: u32| BTarget { kind: "bcdd", not: true, nvars: n, l2v: Vec::new() };
        for (what, arg, value) in [
            ("escaped-0a", vec![0u8, 1], 5u32), ("escaped-1a", vec![0, 3], 13), ("escaped-0d-then-04", vec![0, 2, 4], 770), ("raw-0a", vec![0x0a], 5),
            ("raw-1a", vec![0x1a], 13), ("raw-0d-then-04", vec![0x0d, 4], 770), ("one-byte-fe", vec![0xfe], 127), ("two-bytes-03-escaped-00", vec![3, 0, 0], 128),
            ("overlong-01-0a", vec![1, 0x0a], 5), ("overlong-escaped-0d-escaped-00...", vec![1, 1, 1, 0x0a], 5),
        ] {
            for l in [value - 1, value, value + 1] {
                let mut b = term.clone();
                b.push(code);
                b.extend_from_slice(&arg);
                bx(g, &tl(l), &format!("{what},value={value},levels={l}"), if l == value { "ok" } else { "err:import" }, &hdr1(2).with_body(&b).bytes());
            }
        }
        for (what, exp, arg) in [
            ("escaped-zero-argument", "err:import", vec![0u8, 0]), ("escape-04", "err:import", vec![0, 4]), ("escape-ff", "err:import", vec![0, 0xff]),
            ("escape-then-end-of-input", "err:import", vec![0]), ("continuation-then-end-of-input", "err:import", vec![1]), ("no-argument", "err:import", vec![]),
        ] {
            let mut b = term.clone();
            b.push(code);
            b.extend_from_slice(&arg);
            bx(g, &tl(5), what, exp, &hdr1(2).with_body(&b).with_tail(if arg.len() == 1 || arg.is_empty() { b"" } else { b".end\n" }).bytes());
        }
        // the node-code byte itself: escapes 00 00 / 00 01 / 00 02 / 00 03 decode to bytes whose
        // variable code is `Terminal`
        for (what, exp, rec) in [
            ("node-code-escaped-00", "ok", vec![0u8, 0]), ("node-code-escaped-0a", "ok", vec![0, 1]), ("node-code-escaped-0d", "ok", vec![0, 2]),
            ("node-code-escaped-1a", "ok", vec![0, 3]), ("node-code-escape-04", "err:import", vec![0, 4]), ("node-code-raw-0a", "ok", vec![0x0a]),
            ("node-code-raw-1f", "ok", vec![0x1f]), ("node-code-raw-80-bit7-ignored", "ok", vec![0x80]), ("node-code-raw-20", "err:import", vec![0x20]),
        ] {
            bx(g, &tl(1), what, exp, &hdr1(1).with_body(&rec).bytes());
        }
        bx(g, &tl(1), "node-code-escape-at-end-of-input", "err:import", &hdr1(1).with_body(&[0]).with_tail(b"").bytes());
        bx(g, &tl(1), "no-node-record", "err:import", &hdr1(1).bytes());
        bx(g, &tl(1), "nnodes=0,nroots=0", "ok", &hdr1(1).set(".nnodes", "0").set(".nroots", "0").raw(".rootids", b".rootids").bytes());
    }

    // ---------------------------------------------------------------------------------------
    // trailer and truncation
    g.case("boundary-end-marker");
    for (what, exp, tail) in [
        ("end-newline", "ok", &b".end\n"[..]), ("end", "ok", b".end"), ("end-whitespace", "ok", b".end \t\r\n\x0c\n"), ("end-vertical-tab", "err:import", b".end\x0b"),
        ("end-nul", "err:import", b".end\x00"), ("endx", "err:import", b".endx"), ("end-blank-x", "err:import", b".end x"), ("en", "err:import", b".en"),
        ("nothing", "err:import", b""), ("end-twice", "err:import", b".end\n.end\n"), ("blank-before-end", "err:import", b" .end\n"),
        ("newline-before-end", "err:import", b"\n.end\n"), ("END", "err:import", b".END\n"),
    ] {
        bx(g, &bdd, &format!("ascii,{what}"), exp, &hu.with_tail(tail).bytes());
        bx(g, &bcdd, &format!("binary,{what}"), if what == "newline-before-end" { "err:import" } else { exp }, &cb.with_tail(tail).bytes());
    }
    g.case("boundary-truncation");
    for (t, f) in [(&bdd, hn.bytes()), (&bcdd, cb.bytes())] {
        for cut in 0..=f.len() {
            // (the final line end is optional)
            bx(g, t, &format!("{}-prefix-{cut}-of-{}", t.kind, f.len()), if cut + 1 >= f.len() { "ok" } else { "!ok" }, &f[..cut]);
        }
    }
}

fn generate(cfg: &GenCfg, rng: &mut Rng, w: &mut dyn Write) {
    let scale = cfg.scale.max(1);
    let mut g = G { w, world: None, kind: String::new(), nvars: 0, l2v: Vec::new(), case_no: 0, funcs: Vec::new(), allow_single_terminal_binary: false, export_keys: String::new() };
    let nmut = if cfg.thorough { 30 } else { 10 };
    crafted(&mut g);
    // three variables, every order, sampled subsets of the 256 functions as roots, every setting
    for kind in KINDS {
        for (oi, order) in perms3().iter().enumerate() {
            for rep in 0..scale {
                g.case(&format!("n3-{kind}-o{oi}-r{rep}"));
                let names = rand_names(rng, 3);
                if !g.mgr(kind, 3, order, names.as_deref()) {
                    continue;
                }
                for i in 0..4 {
                    let spec = match kind {
                        "bdd" | "bcdd" | "zbdd" => format!("tt={:02x}", (rng.below(256) as u8).reverse_bits().reverse_bits()),
                        _ => rand_spec(kind, rng, 3),
                    };
                    // tt nibble order: low nibble first
                    let spec = if let Some(h) = spec.strip_prefix("tt=") { format!("tt={}", h.chars().rev().collect::<String>()) } else { spec };
                    g.func(&format!("f{i}"), &spec);
                }
                for mut st in all_settings() {
                    st.dd = rand_dd(rng);
                    let named = rng.chance(1, 2);
                    let roots = g.rand_roots(rng, named);
                    if let Some((file, _)) = g.export(&st, &roots, named) {
                        let m = if rng.chance(1, 4) { nmut / 2 } else { 0 };
                        g.imports(rng, &file, m);
                    }
                }
            }
        }
    }
    // random diagrams over 4..10 variables, shuffled order, unused variables, odd names
    let ncases = if cfg.thorough { 24 } else { 5 } * scale;
    for kind in KINDS {
        for c in 0..ncases {
            let nvars = match kind {
                "mtbdd" | "tdd" => rng.range(3, 7),
                _ => rng.range(4, 10),
            } as u32;
            g.case(&format!("rnd-{kind}-{c}-n{nvars}"));
            let mut order: Vec<u32> = (0..nvars).collect();
            if !rng.chance(1, 5) {
                rng.shuffle(&mut order);
            }
            let names = rand_names(rng, nvars);
            if !g.mgr(kind, nvars, &order, names.as_deref()) {
                continue;
            }
            for i in 0..rng.range(1, 3) {
                let spec = rand_spec(kind, rng, nvars);
                g.func(&format!("f{i}"), &spec);
            }
            let mut sts = all_settings();
            rng.shuffle(&mut sts);
            for mut st in sts.into_iter().take(4) {
                st.dd = rand_dd(rng);
                let named = rng.chance(1, 2);
                let roots = g.rand_roots(rng, named);
                if let Some((file, _)) = g.export(&st, &roots, named) {
                    let m = if rng.chance(1, 2) { nmut } else { 0 };
                    g.imports(rng, &file, m);
                }
            }
        }
    }
    // dense BCDDs in binary mode: two-byte 7-bit integers, escaped bytes 0x00 / 0x0a / 0x1a
    for (c, nvars) in [(0, 8u32), (1, 10), (2, 10)] {
        g.case(&format!("dense-bcdd-{c}-n{nvars}"));
        let mut order: Vec<u32> = (0..nvars).collect();
        rng.shuffle(&mut order);
        if g.mgr("bcdd", nvars, &order, None) {
            for i in 0..2 {
                let bits: String = (0..(1usize << nvars) / 4).map(|_| char::from_digit(rng.below(16) as u32, 16).unwrap()).collect();
                g.func(&format!("f{i}"), &format!("tt={bits}"));
            }
            for (ascii, v3) in [(false, false), (true, true)] {
                let st = ExpSettings { ascii, v3, strict: true, dd: String::new() };
                let roots = [RootSpec { func: "f0".into(), name: None }, RootSpec { func: "f1".into(), name: None }];
                if let Some((file, _)) = g.export(&st, &roots, false) {
                    g.imports(rng, &file, nmut);
                }
            }
        }
    }
    // large diagram: multi-byte 7-bit integers, all escape bytes (export direction only)
    if cfg.thorough {
        for nvars in [14u32, 18] {
            g.case(&format!("big-bcdd-n{nvars}"));
            if g.mgr("bcdd", nvars, &[], None) {
                let bits: String = (0..(1usize << nvars) / 4).map(|_| char::from_digit(rng.below(16) as u32, 16).unwrap()).collect();
                g.func("f0", &format!("tt={bits}"));
                for ascii in [false, true] {
                    let st = ExpSettings { ascii, v3: false, strict: true, dd: String::new() };
                    g.export(&st, &[RootSpec { func: "f0".into(), name: None }], false);
                }
            }
        }
    }
    escape_coverage(cfg, rng, &mut g);
    // every guard of the importer from both sides (deterministic, independent of tier and seed;
    // last, so that the numbering of the cases above is unchanged)
    boundaries(&mut g);
}

/// `gen --suite boundaries`: only the boundary families (debugging / timing)
fn generate_boundaries(_cfg: &GenCfg, _rng: &mut Rng, w: &mut dyn Write) {
    let mut g = G { w, world: None, kind: String::new(), nvars: 0, l2v: Vec::new(), case_no: 0, funcs: Vec::new(), allow_single_terminal_binary: false, export_keys: String::new() };
    boundaries(&mut g);
}

/// One case whose binary BCDD exports walk through the escape / 7-bit integer layer: random
/// functions of 13..20 variables (2 000 .. 100 000 nodes: every byte value, two- and three-byte
/// integers with each escaped byte in each position it can take) and ladders (one node per level:
/// every id distance and every absolute child id up to half the number of levels, variable codes
/// of every kind). The lines carry `big=1` (round-trip oracles that do not unfold the diagram), the
/// last one `cov=1` (self-check: the case still reaches all of this).
fn escape_coverage(cfg: &GenCfg, rng: &mut Rng, g: &mut G) {
    g.case("escape-coverage");
    let st = ExpSettings { ascii: false, v3: false, strict: true, dd: String::new() };
    let sizes: &[u32] = if cfg.thorough { &[13, 14, 15, 16, 17, 19, 20] } else { &[13, 14, 16, 19] };
    let ladders: &[(u32, u32)] = if cfg.thorough { &[(8000, 5), (40100, 3)] } else { &[(8000, 3)] };
    for &nvars in sizes {
        let mut order: Vec<u32> = (0..nvars).collect();
        rng.shuffle(&mut order);
        if !g.mgr("bcdd", nvars, &order, None) {
            continue;
        }
        g.export_keys = " big=1".into();
        let nf = if nvars <= 16 { 2 } else { 1 };
        for i in 0..nf {
            let bits: String = (0..(1usize << nvars) / 4).map(|_| char::from_digit(rng.below(16) as u32, 16).unwrap()).collect();
            g.func(&format!("f{i}"), &format!("tt={bits}"));
        }
        let roots: Vec<RootSpec> = (0..nf).map(|i| RootSpec { func: format!("f{i}"), name: None }).collect();
        g.export(&st, &roots, false);
    }
    for (k, &(n, phase)) in ladders.iter().enumerate() {
        if !g.mgr("bcdd", n, &[], None) {
            continue;
        }
        g.export_keys = if k + 1 == ladders.len() { " big=1 cov=1".into() } else { " big=1".into() };
        g.func("l0", &format!("ladder={phase}"));
        g.export(&ExpSettings { v3: k % 2 == 1, ..st.clone() }, &[RootSpec { func: "l0".into(), name: None }], false);
    }
}

/// oracle-only stream: every truncation point and seeded mutations, evaluated at run time
fn generate_fuzz(cfg: &GenCfg, rng: &mut Rng, w: &mut dyn Write) {
    let scale = cfg.scale.max(1);
    let mut g = G { w, world: None, kind: String::new(), nvars: 0, l2v: Vec::new(), case_no: 0, funcs: Vec::new(), allow_single_terminal_binary: false, export_keys: String::new() };
    let ncases = if cfg.thorough { 12 } else { 3 } * scale;
    let nmut = if cfg.thorough { 400 } else { 150 };
    for kind in ["bdd", "bcdd", "zbdd", "mtbdd"] {
        for c in 0..ncases {
            let nvars = match kind {
                "mtbdd" => rng.range(3, 5),
                _ => rng.range(3, 7),
            } as u32;
            g.case(&format!("fuzz-{kind}-{c}-n{nvars}"));
            let mut order: Vec<u32> = (0..nvars).collect();
            rng.shuffle(&mut order);
            let names = rand_names(rng, nvars);
            if !g.mgr(kind, nvars, &order, names.as_deref()) {
                continue;
            }
            for i in 0..2 {
                let spec = rand_spec(kind, rng, nvars);
                g.func(&format!("f{i}"), &spec);
            }
            for ascii in [true, false] {
                for v3 in [false, true] {
                    if !ascii && kind != "bcdd" {
                        continue;
                    }
                    let roots = format!("f0:{},f1:{}", hex_name(&rand_label(rng)), hex_name(&rand_label(rng)));
                    if c % 2 == 0 || cfg.thorough {
                        writeln!(g.w, "truncall ascii={} ver={} strict=0 roots={roots}", ascii as u8, if v3 { 3 } else { 2 }).unwrap();
                    }
                    writeln!(
                        g.w,
                        "fuzz seed={} n={nmut} ascii={} ver={} strict=0 roots={roots}",
                        rng.next() >> 16,
                        ascii as u8,
                        if v3 { 3 } else { 2 }
                    )
                    .unwrap();
                }
            }
        }
    }
}

/// oracle-only suite `--suite oom`: reference counts around exports of diagrams with shared nodes
/// (all five kinds, ASCII and binary) and imports under exhausted node / terminal capacity
fn generate_oom(cfg: &GenCfg, rng: &mut Rng, w: &mut dyn Write) {
    let scale = cfg.scale.max(1);
    let mut g = G { w, world: None, kind: String::new(), nvars: 0, l2v: Vec::new(), case_no: 0, funcs: Vec::new(), allow_single_terminal_binary: false, export_keys: String::new() };
    fn spec(fs: &[&str]) -> Vec<RootSpec> {
        fs.iter().map(|f| RootSpec { func: f.to_string(), name: None }).collect()
    }
    fn oom_line(g: &mut G, target: &str, ascii: bool, v3: bool, roots: &str, res: &str, neg: bool) {
        // (an MTBDD manager with a single terminal: binary mode is the known finding of the other stream)
        let single = g.kind == "mtbdd" && g.world.as_ref().map(|w| w.info().nterm == 1).unwrap_or(false);
        let cmpl = if target == "mtbdd" { "id" } else { "not" };
        writeln!(
            g.w,
            "oom target={target} cmpl={cmpl} ascii={} ver={} roots={roots} res={res} neg={}",
            (ascii || single) as u8,
            if v3 { 3 } else { 2 },
            (neg && target != "mtbdd") as u8
        )
        .unwrap();
    }
    /// exports with roots that share nodes (and a repeated root), ASCII and binary requested
    fn export_lines(g: &mut G, rng: &mut Rng, roots: &[&str]) {
        for ascii in [true, false] {
            let st = ExpSettings { ascii, v3: rng.chance(1, 2), strict: false, dd: String::new() };
            g.export(&st, &spec(roots), false);
        }
    }
    // --- crafted sources
    // parity / majority: complemented arcs to inner nodes in the BCDD, all nodes shared by the roots
    g.case("oom-crafted-bcdd-parity");
    if g.mgr("bcdd", 4, &[3, 1, 0, 2], None) {
        g.func("f0", "tt=6996");
        g.func("f1", "tt=9669");
        g.func("f2", "tt=8ee8");
        g.func("r0", "tt=0660");
        g.func("r1", "tt=a5c3");
        export_lines(&mut g, rng, &["f0", "f1", "f2", "f0"]);
        for target in ["bcdd", "bdd", "zbdd"] {
            for ascii in [true, false] {
                oom_line(&mut g, target, ascii, false, "f0,f2", "r0,r1", false);
                oom_line(&mut g, target, ascii, true, "f1,f2,f0", "r0", true);
                oom_line(&mut g, target, ascii, false, "f2", "-", target == "bdd");
            }
        }
    }
    // many distinct terminals, special values, terminals shared with the resident functions
    g.case("oom-crafted-mtbdd-terminals");
    if g.mgr("mtbdd", 3, &[1, 2, 0], None) {
        g.func("f0", "vals=1,2,3,4,5,6,7,8");
        g.func("f1", "vals=1,2,NaN,+Inf,-Inf,9223372036854775807,-9223372036854775808,8");
        g.func("c", "vals=42,42,42,42,42,42,42,42");
        g.func("r0", "vals=1,1,9,9,2,2,NaN,3");
        g.func("r1", "vals=10,11,12,13,10,11,12,13");
        export_lines(&mut g, rng, &["f0", "f1", "c", "f0"]);
        for (roots, res) in [("f0,f1", "r0,r1"), ("f0", "-"), ("f1,f0,f1", "r0"), ("c,c", "-"), ("c,f1", "r1"), ("f0", "f0"), ("f1", "r0,f0")] {
            oom_line(&mut g, "mtbdd", true, false, roots, res, false);
        }
        oom_line(&mut g, "mtbdd", false, true, "f0,f1", "r0", false);
    }
    // constants and single nodes: the importer allocates (almost) nothing
    for kind in ["bdd", "bcdd", "zbdd"] {
        g.case(&format!("oom-crafted-{kind}-small"));
        if g.mgr(kind, 2, &[1, 0], None) {
            g.func("t", "tt=f");
            g.func("z", "tt=0");
            g.func("x", "tt=a");
            g.func("y", "tt=6");
            export_lines(&mut g, rng, &["t", "z", "x", "x"]);
            for neg in [false, true] {
                oom_line(&mut g, kind, true, false, "t,z", "-", neg);
                oom_line(&mut g, kind, false, false, "x,t,x", "y", neg);
                oom_line(&mut g, kind, true, true, "y,x", "x", neg);
            }
        }
    }
    // --- random sources
    let ncases = if cfg.thorough { 40 } else { 5 } * scale;
    for kind in ["bdd", "bcdd", "zbdd", "mtbdd"] {
        for c in 0..ncases {
            let nvars = if cfg.thorough { rng.range(2, 5) } else { rng.range(2, 4) } as u32;
            g.case(&format!("oom-{kind}-{c}-n{nvars}"));
            let mut order: Vec<u32> = (0..nvars).collect();
            rng.shuffle(&mut order);
            if !g.mgr(kind, nvars, &order, None) {
                continue;
            }
            for f in ["f0", "f1", "r0", "r1", "r2"] {
                let s = rand_spec(kind, rng, nvars);
                g.func(f, &s);
            }
            export_lines(&mut g, rng, &["f0", "f1", "f0"]);
            let pick_roots = |rng: &mut Rng| *rng.pick(&["f0", "f0,f1", "f0,f1", "f1,f0,f1"]);
            let pick_res = |rng: &mut Rng| *rng.pick(&["-", "r0", "r0,r1", "r0,r1,r2", "r0,r1,r2"]);
            let v3 = rng.chance(1, 2);
            match kind {
                "bdd" => {
                    oom_line(&mut g, "bdd", true, v3, pick_roots(rng), pick_res(rng), false);
                    oom_line(&mut g, "bdd", rng.chance(3, 4), !v3, pick_roots(rng), pick_res(rng), true);
                    oom_line(&mut g, "bcdd", true, v3, pick_roots(rng), pick_res(rng), rng.chance(1, 2));
                    oom_line(&mut g, "zbdd", true, v3, pick_roots(rng), pick_res(rng), rng.chance(1, 2));
                }
                "bcdd" => {
                    for ascii in [true, false] {
                        oom_line(&mut g, "bcdd", ascii, v3, pick_roots(rng), pick_res(rng), rng.chance(1, 2));
                        oom_line(&mut g, "bdd", ascii, !v3, pick_roots(rng), pick_res(rng), rng.chance(1, 3));
                    }
                    oom_line(&mut g, "zbdd", true, v3, pick_roots(rng), pick_res(rng), rng.chance(1, 2));
                }
                "zbdd" => {
                    oom_line(&mut g, "zbdd", true, v3, pick_roots(rng), pick_res(rng), false);
                    oom_line(&mut g, "zbdd", rng.chance(3, 4), !v3, pick_roots(rng), pick_res(rng), true);
                    oom_line(&mut g, "bdd", true, v3, pick_roots(rng), pick_res(rng), rng.chance(1, 2));
                }
                _ => {
                    oom_line(&mut g, "mtbdd", true, v3, pick_roots(rng), pick_res(rng), false);
                    oom_line(&mut g, "mtbdd", rng.chance(1, 2), !v3, pick_roots(rng), pick_res(rng), false);
                }
            }
        }
    }
    // --- a ladder over 230 000 levels in binary mode (oracle only: the model driver is quadratic in
    // the number of support variables): every child id / id distance up to 114 997, i.e. also the
    // three-byte integers whose first byte is 0x0d (98304..=114687); `cov=2`: self-check incl. those
    g.case("oom-escape-ladder-230000");
    if g.mgr("bcdd", 230_000, &[], None) {
        g.export_keys = " big=1 cov=2".into();
        g.func("l0", "ladder=7");
        let st = ExpSettings { ascii: false, v3: false, strict: true, dd: String::new() };
        g.export(&st, &[RootSpec { func: "l0".into(), name: None }], false);
    }
    // --- TDD (export only): reference counts around exports with shared nodes
    for c in 0..ncases {
        let nvars = rng.range(2, 5) as u32;
        g.case(&format!("oom-tdd-{c}-n{nvars}"));
        let mut order: Vec<u32> = (0..nvars).collect();
        rng.shuffle(&mut order);
        if !g.mgr("tdd", nvars, &order, None) {
            continue;
        }
        for f in ["f0", "f1"] {
            let s = rand_spec("tdd", rng, nvars);
            g.func(f, &s);
        }
        export_lines(&mut g, rng, &["f0", "f1", "f0"]);
        export_lines(&mut g, rng, &["f1"]);
    }
}

pub fn main_with(fuzz: bool) {
    let args: Vec<String> = std::env::args().collect();
    let fuzz = fuzz || args.iter().any(|a| a == "--fuzz");
    let suite = args.windows(2).find(|w| w[0] == "--suite").map(|w| w[1].clone());
    let generator = match suite.as_deref() {
        Some("oom") => generate_oom,
        Some("boundaries") => generate_boundaries,
        Some(s) => {
            eprintln!("unknown suite {s} (known: oom, boundaries)");
            std::process::exit(2);
        }
        None if fuzz => generate_fuzz,
        None => generate,
    };
    // deep diagrams (ladders over tens of thousands of levels): the exporter and the harness's walks
    // recurse once per level
    let t = std::thread::Builder::new().stack_size(1 << 30).spawn(move || harness_main(generator, make)).expect("spawn");
    if t.join().is_err() {
        std::process::exit(101);
    }
}

#[allow(dead_code)]
fn main() {
    main_with(false)
}
