//! C15 — oracle-only stream: every truncation point and seeded mutations of valid DDDMP files
//! (same scenario code as `c15_dddmp`, other generator).
#[path = "c15_dddmp.rs"]
#[allow(dead_code)]
mod base;

fn main() {
    base::main_with(true)
}
