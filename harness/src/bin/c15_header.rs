//! C15 (header): `DumpHeader::load` on arbitrary byte strings.
//!
//! Operation lines:
//! * `hdr <hex>`: feed the bytes to the real header reader, print the canonical result
//! * `rt dd=.. nvars=.. vn=.. rn=.. ascii=.. <hex>`: same plus round-trip oracles (file was written
//!   by the real exporter from these inputs)
#![allow(clippy::type_complexity)]

use oxidd::bcdd::BCDDFunction;
use oxidd::bdd::BDDFunction;
use oxidd::{BooleanFunction, Manager, ManagerRef};
use oxidd_dump::dddmp::{DDDMPVersion, DumpHeader, ExportSettings};
use oxv::*;
use std::collections::BTreeMap;
use std::io::Write;

// ---------------------------------------------------------------------------------------------
// helpers

fn hx(b: &[u8]) -> String {
    if b.is_empty() {
        return "-".into();
    }
    let mut s = String::with_capacity(b.len() * 2);
    for x in b {
        s.push_str(&format!("{:02x}", x));
    }
    s
}

fn unhx(s: &str) -> Option<Vec<u8>> {
    if s == "-" {
        return Some(Vec::new());
    }
    let b = s.as_bytes();
    if b.len() % 2 != 0 {
        return None;
    }
    let d = |c: u8| -> Option<u8> {
        match c {
            b'0'..=b'9' => Some(c - b'0'),
            b'a'..=b'f' => Some(c - b'a' + 10),
            _ => None,
        }
    };
    let mut o = Vec::with_capacity(b.len() / 2);
    for p in b.chunks(2) {
        o.push(d(p[0])? * 16 + d(p[1])?);
    }
    Some(o)
}

fn csv<T: ToString>(xs: &[T]) -> String {
    if xs.is_empty() {
        "-".into()
    } else {
        xs.iter().map(|x| x.to_string()).collect::<Vec<_>>().join(",")
    }
}

fn namelist(xs: Option<&[String]>) -> String {
    match xs {
        None => "-".into(),
        Some(ns) => ns
            .iter()
            .map(|n| if n.is_empty() { "_".to_string() } else { hx(n.as_bytes()) })
            .collect::<Vec<_>>()
            .join(","),
    }
}

fn classify(msg: &str) -> &'static str {
    if msg.starts_with("unexpected end of file") {
        "eof"
    } else if msg.starts_with("unsupported version") {
        "version"
    } else if msg.starts_with("unknown value") {
        "value"
    } else if msg.starts_with("unknown key") {
        "key"
    } else if msg.starts_with("integer") && msg.contains("too large") {
        "overflow"
    } else if msg.starts_with("unexpected char") {
        "char"
    } else if msg.starts_with("expected an integer") {
        "empty"
    } else if msg.starts_with("expected a digit after '-'") || msg.starts_with("expected a space before '-'") {
        "minus"
    } else if msg.starts_with(".nsuppvars (") {
        "nsupp"
    } else if msg.contains("number of support variables in .ids") {
        "count-ids"
    } else if msg.contains("number of support variables in .permids") {
        "count-permids"
    } else if msg.contains("number of support variables in .auxids") {
        "count-auxids"
    } else if msg.contains("number of variables in .orderedvarnames") {
        "count-ordered"
    } else if msg.contains("number of variables in .suppvarnames") {
        "count-supp"
    } else if msg.contains("number of variables in .varnames") {
        "count-varnames"
    } else if msg.contains("number of roots in .rootids") {
        "count-rootids"
    } else if msg.contains("number of roots in .rootnames") {
        "count-rootnames"
    } else if msg.contains("support variables in .ids must be ascending") {
        "ids-order"
    } else if msg.contains("support variables in .ids must be less") {
        "ids-range"
    } else if msg.contains("levels in .permids must be less") {
        "perm-range"
    } else if msg.contains("occurs twice in .permids") {
        "perm-dup"
    } else if msg.starts_with(".varnames and .orderedvarnames do not match") {
        "name-mismatch-ordered"
    } else if msg.starts_with(".suppvarnames and") {
        "name-mismatch-supp"
    } else if msg.contains(".rootids must not be 0") {
        "root-zero"
    } else if msg.starts_with("entry in .rootids out of range") {
        "root-range"
    } else if msg.starts_with("cannot allocate the names") {
        "alloc"
    } else {
        "other"
    }
}

struct RtExp {
    dd: Vec<u8>,
    nvars: u32,
    vn: Option<Vec<Vec<u8>>>,
    rn: Option<Vec<Vec<u8>>>,
    ascii: bool,
}

fn parse_hexlist(s: &str) -> Option<Option<Vec<Vec<u8>>>> {
    if s == "-" {
        return Some(None);
    }
    let mut v = Vec::new();
    for p in s.split(',') {
        v.push(unhx(p)?);
    }
    Some(Some(v))
}

static CHILD: std::sync::atomic::AtomicBool = std::sync::atomic::AtomicBool::new(false);

/// Runs `eval` in a child process (same executable, argument `child-load`) whose address space is
/// limited to 320 MiB, waits at most 60 s of wall-clock time (the old loader is caught by the address-space limit; the time limit is only a backstop and generous because a loaded machine may starve the child). Used for inputs on which the loader before /repo commit
/// 5fa35fa allocated memory proportional to `.nvars`.
fn child_eval(bytes: &[u8], ctx: &mut Ctx) -> String {
    use std::io::Read;
    use std::os::unix::process::{CommandExt, ExitStatusExt};
    use std::process::{Command, Stdio};
    ctx.count("child-load");
    let abort = |ctx: &mut Ctx, what: String| -> String {
        ctx.count("child-abort");
        ctx.fail(
            "header-alloc-by-nvars",
            &format!("load of a {}-byte header with huge .nvars: {} (limit 320 MiB address space, 60 s)", bytes.len(), what),
        );
        "ABORT".to_string()
    };
    let exe = match std::env::current_exe() {
        Ok(e) => e,
        Err(e) => return abort(ctx, format!("current_exe failed: {}", e)),
    };
    let mut cmd = Command::new(exe);
    cmd.arg("child-load").stdin(Stdio::piped()).stdout(Stdio::piped()).stderr(Stdio::null());
    unsafe {
        cmd.pre_exec(|| {
            let lim = libc::rlimit { rlim_cur: 320 << 20, rlim_max: 320 << 20 };
            if libc::setrlimit(libc::RLIMIT_AS, &lim) != 0 {
                return Err(std::io::Error::last_os_error());
            }
            Ok(())
        });
    }
    let mut child = match cmd.spawn() {
        Ok(c) => c,
        Err(e) => return abort(ctx, format!("spawn failed: {}", e)),
    };
    {
        let mut stdin = child.stdin.take().unwrap();
        let _ = stdin.write_all(hx(bytes).as_bytes());
        let _ = stdin.write_all(b"\n");
        let _ = stdin.flush();
    }
    let mut stdout = child.stdout.take().unwrap();
    let reader = std::thread::spawn(move || {
        let mut v = Vec::new();
        let _ = stdout.read_to_end(&mut v);
        v
    });
    let start = std::time::Instant::now();
    let mut timed_out = false;
    let status = loop {
        match child.try_wait() {
            Ok(Some(st)) => break Some(st),
            Ok(None) => {}
            Err(_) => break None,
        }
        if start.elapsed() >= std::time::Duration::from_secs(60) {
            timed_out = true;
            let _ = child.kill();
            let _ = child.wait();
            break None;
        }
        std::thread::sleep(std::time::Duration::from_millis(5));
    };
    let outb = reader.join().unwrap_or_default();
    if timed_out {
        return abort(ctx, "timeout".into());
    }
    let Some(st) = status else { return abort(ctx, "wait failed".into()) };
    if let Some(sig) = st.signal() {
        return abort(ctx, format!("signal {}", sig));
    }
    match st.code() {
        Some(0) => {}
        Some(c) => return abort(ctx, format!("exit code {}", c)),
        None => return abort(ctx, "no exit code".into()),
    }
    let text = String::from_utf8_lossy(&outb);
    let mut it = text.lines();
    let first = match it.next() {
        Some(l) if !l.is_empty() => l.to_string(),
        _ => return abort(ctx, "exit code 0 without output".into()),
    };
    for l in it {
        if let Some(rest) = l.strip_prefix("FAIL ") {
            ctx.fail("child-oracle", rest);
        }
    }
    // the counters of the child are lost: recount from the output line
    if first.starts_with("ok ") {
        ctx.count("ok");
    } else if let Some(c) = first.strip_prefix("err ") {
        ctx.count(&format!("err-{}", c));
    }
    first
}

fn child_main() -> ! {
    CHILD.store(true, std::sync::atomic::Ordering::Relaxed);
    let mut line = String::new();
    let _ = std::io::stdin().read_line(&mut line);
    let out = std::io::stdout();
    let mut o = out.lock();
    match unhx(line.trim()) {
        Some(bytes) => {
            let mut ctx = Ctx { line_no: 0, case: String::new(), failures: vec![], stats: BTreeMap::new(), extra: BTreeMap::new() };
            let l = eval(&bytes, &mut ctx, None);
            let _ = writeln!(o, "{}", l);
            for f in &ctx.failures {
                let _ = writeln!(o, "FAIL {}", f);
            }
        }
        None => {
            let _ = writeln!(o, "bad-op");
        }
    }
    let _ = o.flush();
    std::process::exit(0)
}

/// in-process unless the input is `unsafe_input`
fn run_eval(bytes: &[u8], ctx: &mut Ctx, rt: Option<&RtExp>) -> String {
    if unsafe_input(bytes) {
        // the round-trip expectations are not checked for these (the generator emits no such `rt` line)
        if rt.is_some() {
            ctx.count("child-rt-unchecked");
        }
        child_eval(bytes, ctx)
    } else {
        eval(bytes, ctx, rt)
    }
}

fn eval(bytes: &[u8], ctx: &mut Ctx, rt: Option<&RtExp>) -> String {
    let mut cur: &[u8] = bytes;
    let r = DumpHeader::load(&mut cur);
    let consumed = bytes.len() - cur.len();
    match r {
        Ok(h) => {
            ctx.count("ok");
            let d = format!("{:?}", h);
            let ascii = match d.find("ascii: ") {
                Some(p) => d[p + 7..].starts_with("true"),
                None => {
                    ctx.fail("debug-format", "no `ascii: ` in Debug output");
                    false
                }
            };
            let varinfo = match d.find("varinfo: ") {
                Some(p) => {
                    let t = &d[p + 9..];
                    if t.starts_with("VariableID") {
                        0
                    } else if t.starts_with("PermutationID") {
                        1
                    } else if t.starts_with("AuxiliaryID") {
                        2
                    } else if t.starts_with("VariableName") {
                        3
                    } else if t.starts_with("None") {
                        4
                    } else {
                        ctx.fail("debug-format", "unknown varinfo in Debug output");
                        9
                    }
                }
                None => {
                    ctx.fail("debug-format", "no `varinfo: ` in Debug output");
                    9
                }
            };
            let rootids: Vec<i128> = match d.rfind("rootids: [") {
                Some(p) => {
                    let t = &d[p + 10..];
                    let e = t.find(']').unwrap_or(t.len());
                    let inner = &t[..e];
                    if inner.trim().is_empty() {
                        Vec::new()
                    } else {
                        inner.split(", ").map(|x| x.trim().parse::<i128>().unwrap_or(0)).collect()
                    }
                }
                None => {
                    ctx.fail("debug-format", "no `rootids: [` in Debug output");
                    Vec::new()
                }
            };
            let lines: u64 = match d.rfind("lines: ") {
                Some(p) => {
                    let t = &d[p + 7..];
                    let e = t.find(|c: char| !c.is_ascii_digit()).unwrap_or(t.len());
                    t[..e].parse().unwrap_or(0)
                }
                None => {
                    ctx.fail("debug-format", "no `lines: ` in Debug output");
                    0
                }
            };
            let ids = h.support_vars().to_vec();
            let order = h.support_var_order().to_vec();
            let permids = h.support_var_to_level().to_vec();
            let auxids = h.auxiliary_var_ids().to_vec();
            let nvars = h.num_vars();
            let nnodes = h.num_nodes();

            // oracles
            if !(ids.windows(2).all(|w| w[0] < w[1]) && ids.iter().all(|&i| i < nvars)) {
                ctx.fail("ok-ids", &format!("ids {:?} nvars {}", ids, nvars));
            }
            {
                let mut s = permids.clone();
                s.sort();
                s.dedup();
                if !(s.len() == permids.len() && permids.iter().all(|&p| p < nvars) && permids.len() == ids.len()) {
                    ctx.fail("ok-permids", &format!("permids {:?} ids {:?} nvars {}", permids, ids, nvars));
                }
            }
            {
                let mut pairs: Vec<(u32, u32)> = permids.iter().copied().zip(ids.iter().copied()).collect();
                pairs.sort();
                let exp: Vec<u32> = pairs.iter().map(|p| p.1).collect();
                if exp != order {
                    ctx.fail("ok-order", &format!("order {:?}, expected {:?} (ids {:?} permids {:?})", order, exp, ids, permids));
                }
            }
            if !(auxids.is_empty() || auxids.len() == ids.len()) {
                ctx.fail("ok-auxids", &format!("auxids {:?} ids {:?}", auxids, ids));
            }
            if !rootids.iter().all(|&r| r != 0 && r.unsigned_abs() <= nnodes as u128) {
                ctx.fail("ok-rootids", &format!("rootids {:?} nnodes {}", rootids, nnodes));
            }
            if rootids.len() != h.num_roots() {
                ctx.fail("ok-rootids", &format!("rootids {:?} num_roots {}", rootids, h.num_roots()));
            }
            if let Some(v) = h.var_names() {
                if v.len() != nvars as usize {
                    ctx.fail("ok-varnames", &format!("{} names, nvars {}", v.len(), nvars));
                }
            }
            if let Some(v) = h.root_names() {
                if v.len() != h.num_roots() {
                    ctx.fail("ok-rootnames", &format!("{} root names, {} roots", v.len(), h.num_roots()));
                }
            }
            if !(consumed <= bytes.len() && (consumed == bytes.len() || (consumed > 0 && bytes[consumed - 1] == b'\n'))) {
                ctx.fail("ok-consumed", &format!("consumed {} of {}", consumed, bytes.len()));
            }
            if let Some(e) = rt {
                let dd = h.diagram_name().map(|s| s.as_bytes().to_vec()).unwrap_or_default();
                if dd != e.dd {
                    ctx.fail("rt-dd", &format!("dd {:?}, expected {:?}", String::from_utf8_lossy(&dd), String::from_utf8_lossy(&e.dd)));
                }
                if nvars != e.nvars {
                    ctx.fail("rt-nvars", &format!("nvars {}, expected {}", nvars, e.nvars));
                }
                let got_vn: Option<Vec<Vec<u8>>> = h.var_names().map(|v| v.iter().map(|s| s.as_bytes().to_vec()).collect());
                // Format 2.0 has no `.varnames` line: `.ids`/`.permids` identify only the support
                // variables, the other names can only be assigned in their relative level order
                // (comment in import.rs, lines 265-267). So for 2.0 files: the names of the support
                // variables and the multiset of all names must survive; for 3.0 files everything.
                let v3 = bytes.starts_with(b".ver DDDMP-3.0");
                let names_ok = if v3 {
                    got_vn == e.vn
                } else {
                    match (&got_vn, &e.vn) {
                        (None, None) => true,
                        (Some(g), Some(x)) => {
                            let mut a = g.clone();
                            let mut b = x.clone();
                            a.sort();
                            b.sort();
                            g.len() == x.len()
                                && a == b
                                && h.support_vars().iter().all(|&v| g.get(v as usize) == x.get(v as usize))
                        }
                        _ => false,
                    }
                };
                if !v3 && got_vn != e.vn {
                    ctx.count("rt-v2-nonsupport-names-permuted");
                }
                if !names_ok {
                    ctx.fail(
                        "rt-varnames",
                        &format!("var names {}, expected {}", namelist(h.var_names()), e.vn.as_ref().map(|v| v.iter().map(|n| hx(n)).collect::<Vec<_>>().join(",")).unwrap_or("-".into())),
                    );
                }
                let got_rn: Option<Vec<Vec<u8>>> = h.root_names().map(|v| v.iter().map(|s| s.as_bytes().to_vec()).collect());
                if got_rn != e.rn {
                    ctx.fail(
                        "rt-rootnames",
                        &format!("root names {}, expected {}", namelist(h.root_names()), e.rn.as_ref().map(|v| v.iter().map(|n| hx(n)).collect::<Vec<_>>().join(",")).unwrap_or("-".into())),
                    );
                }
                if ascii != e.ascii {
                    ctx.fail("rt-ascii", &format!("ascii {}, expected {}", ascii, e.ascii));
                }
            }
            let res = format!(
                "ok ascii={} varinfo={} dd={} nnodes={} nvars={} nsupp={} ids={} order={} permids={} auxids={} varnames={} rootids={} rootnames={} lines={} consumed={}",
                ascii as u8,
                varinfo,
                match h.diagram_name() {
                    None => "-".to_string(),
                    Some(s) => hx(s.as_bytes()),
                },
                nnodes,
                nvars,
                h.num_support_vars(),
                csv(&ids),
                csv(&order),
                csv(&permids),
                csv(&auxids),
                namelist(h.var_names()),
                csv(&rootids),
                namelist(h.root_names()),
                lines,
                consumed
            );
            if CHILD.load(std::sync::atomic::Ordering::Relaxed) {
                std::mem::forget(h);
            }
            res
        }
        Err(e) => {
            let msg = e.to_string();
            let c = classify(&msg);
            ctx.count(&format!("err-{}", c));
            if c == "other" {
                ctx.fail("unclassified", &msg);
            }
            if rt.is_some() {
                ctx.fail("rt-rejected", &msg);
            }
            format!("err {}", c)
        }
    }
}

struct Hdr;
impl Scenario for Hdr {
    fn reset(&mut self) {}
    fn step(&mut self, line: &str, ctx: &mut Ctx) -> String {
        let w = words(line);
        match w.first().copied() {
            Some("hdr") if w.len() == 2 => match unhx(w[1]) {
                Some(b) => run_eval(&b, ctx, None),
                None => "bad-op".into(),
            },
            Some("rt") if w.len() == 7 => {
                let mut kv = BTreeMap::new();
                for x in &w[1..6] {
                    match x.split_once('=') {
                        Some((k, v)) => {
                            kv.insert(k, v);
                        }
                        None => return "bad-op".into(),
                    }
                }
                let parse = || -> Option<(RtExp, Vec<u8>)> {
                    let dd = unhx(kv.get("dd")?)?;
                    let nvars: u32 = kv.get("nvars")?.parse().ok()?;
                    let vn = parse_hexlist(kv.get("vn")?)?;
                    let rn = parse_hexlist(kv.get("rn")?)?;
                    let ascii = match *kv.get("ascii")? {
                        "0" => false,
                        "1" => true,
                        _ => return None,
                    };
                    let b = unhx(w[6])?;
                    Some((RtExp { dd, nvars, vn, rn, ascii }, b))
                };
                match parse() {
                    Some((e, b)) => {
                        ctx.count("rt");
                        run_eval(&b, ctx, Some(&e))
                    }
                    None => "bad-op".into(),
                }
            }
            _ => "bad-op".into(),
        }
    }
}

// ---------------------------------------------------------------------------------------------
// generator

struct Spec {
    bcdd: bool,
    nvars: u32,
    names: Option<Vec<String>>,
    l2v: Vec<u32>,
    dd: String,
    ascii: bool,
    v3: bool,
    rootnames: Option<Vec<String>>,
    nroots: usize,
    fseed: u64,
}

fn rand_fn<'id, F: BooleanFunction>(m: &F::Manager<'id>, vars: &[F], rng: &mut Rng, depth: u32) -> F {
    if depth == 0 || rng.chance(1, 5) {
        if vars.is_empty() || rng.chance(1, 12) {
            return if rng.chance(1, 2) { F::t(m) } else { F::f(m) };
        }
        return rng.pick(vars).clone();
    }
    match rng.below(4) {
        0 => rand_fn(m, vars, rng, depth - 1).not().unwrap(),
        k => {
            let a = rand_fn(m, vars, rng, depth - 1);
            let b = rand_fn(m, vars, rng, depth - 1);
            match k {
                1 => a.and(&b).unwrap(),
                2 => a.or(&b).unwrap(),
                _ => a.xor(&b).unwrap(),
            }
        }
    }
}

macro_rules! export_kind {
    ($ty:ty, $new:expr, $sp:expr) => {{
        let sp: &Spec = $sp;
        let mref = $new(1 << 12, 1 << 10, 1);
        let ok = mref.with_manager_exclusive(|m| {
            match &sp.names {
                Some(ns) => {
                    if m.add_named_vars(ns.iter().cloned()).is_err() {
                        return false;
                    }
                }
                None => {
                    m.add_vars(sp.nvars);
                }
            }
            if m.num_vars() != sp.nvars {
                return false;
            }
            if !sp.l2v.is_empty() {
                oxidd_reorder::set_var_order(m, &sp.l2v);
            }
            true
        });
        if !ok {
            None
        } else {
            mref.with_manager_shared(|manager| {
                let mut rng = Rng(sp.fseed);
                let vars: Vec<$ty> = (0..sp.nvars).map(|v| <$ty>::var(manager, v).unwrap()).collect();
                let roots: Vec<$ty> = (0..sp.nroots).map(|_| rand_fn::<$ty>(manager, &vars, &mut rng, 4)).collect();
                let s = ExportSettings::default()
                    .version(if sp.v3 { DDDMPVersion::V3_0 } else { DDDMPVersion::V2_0 })
                    .strict(true)
                    .diagram_name(&sp.dd);
                let s = if sp.ascii { s.ascii() } else { s.binary() };
                let mut out: Vec<u8> = Vec::new();
                let r = match &sp.rootnames {
                    Some(rn) => s.export_with_names(&mut out, manager, roots.iter().zip(rn.iter().map(|s| s.as_str()))),
                    None => s.export(&mut out, manager, roots.iter()),
                };
                r.ok().map(|_| out)
            })
        }
    }};
}

fn do_export(sp: &Spec) -> Option<Vec<u8>> {
    if sp.bcdd {
        export_kind!(BCDDFunction, oxidd::bcdd::new_manager, sp)
    } else {
        export_kind!(BDDFunction, oxidd::bdd::new_manager, sp)
    }
}

const NAME_POOL: &[&str] = &[
    "x", "y", "_y", "näme", "a.b", "v[0]", "-q", "z'", "Ω", "x_", "__u", "0", "1a", ".dd", "λx", "p|q", "k", "w#", "日本", "r-1",
];

fn rand_names(rng: &mut Rng, n: usize) -> Vec<String> {
    let mut pool: Vec<&str> = NAME_POOL.to_vec();
    rng.shuffle(&mut pool);
    let suffix = rng.chance(1, 2);
    (0..n).map(|i| if suffix { format!("{}{}", pool[i], i) } else { pool[i].to_string() }).collect()
}

fn rand_dd(rng: &mut Rng) -> String {
    match rng.below(8) {
        0 | 1 | 2 => String::new(),
        3 => "adder".into(),
        4 => "my diagram".into(),
        5 => "f(x) = x ∧ y".into(),
        6 => ".nodes".into(),
        _ => format!("dd{} v {}", rng.below(100), rng.below(10)),
    }
}

fn rand_spec(rng: &mut Rng, i: u64) -> Spec {
    let nvars = rng.range(1, 6) as u32;
    let names = if rng.chance(3, 5) { Some(rand_names(rng, nvars as usize)) } else { None };
    let l2v = if rng.chance(1, 2) {
        let mut v: Vec<u32> = (0..nvars).collect();
        rng.shuffle(&mut v);
        v
    } else {
        Vec::new()
    };
    let nroots = rng.range(1, 3) as usize;
    let rootnames = if rng.chance(1, 2) {
        let mut v = rand_names(rng, nroots);
        if rng.chance(1, 4) {
            v[0] = "f".into();
        }
        Some(v)
    } else {
        None
    };
    Spec {
        bcdd: i % 2 == 1,
        nvars,
        names,
        l2v,
        dd: rand_dd(rng),
        ascii: (i / 2) % 2 == 0,
        v3: (i / 4) % 2 == 0,
        rootnames,
        nroots,
        fseed: rng.next(),
    }
}

fn header_len(file: &[u8]) -> usize {
    let pat = b"\n.nodes\n";
    file.windows(pat.len()).position(|w| w == pat).map(|p| p + pat.len()).unwrap_or(file.len())
}

/// value of an `.nvars` line exceeds 65536 (textually: more than 5 significant digits) while a
/// `.nodes` line is present: the loader would allocate `nvars` counters
fn unsafe_input(b: &[u8]) -> bool {
    let mut big = false;
    let mut nodes = false;
    for l in b.split(|&c| c == b'\n') {
        if l.starts_with(b".nvars") {
            let digits: Vec<u8> = l[6..].iter().copied().filter(|c| c.is_ascii_digit()).collect();
            let sig = digits.iter().skip_while(|&&c| c == b'0').count();
            if sig > 5 {
                big = true;
            }
        }
        if l.starts_with(b".nodes") {
            nodes = true;
        }
    }
    big && nodes
}

struct Out<'a> {
    w: &'a mut dyn Write,
    n: u64,
    dropped: u64,
}
impl Out<'_> {
    fn case(&mut self, name: &str) {
        writeln!(self.w, "case {}", name).unwrap();
        self.n += 1;
    }
    fn hdr(&mut self, b: &[u8]) {
        if unsafe_input(b) {
            self.dropped += 1;
            return;
        }
        writeln!(self.w, "hdr {}", hx(b)).unwrap();
        self.n += 1;
    }
    /// no drop of `unsafe_input`: the run side executes these in a child process
    fn hdr_unsafe_ok(&mut self, b: &[u8]) {
        writeln!(self.w, "hdr {}", hx(b)).unwrap();
        self.n += 1;
    }
}

// --- synthetic headers

#[derive(Clone)]
struct Syn {
    lines: Vec<(String, Vec<u8>)>,
    nvars: u32,
    ids: Vec<u32>,
    permids: Vec<u32>,
    names: Vec<Vec<u8>>,
    nnodes: u64,
    rootids: Vec<i64>,
}

fn join(xs: &[Vec<u8>]) -> Vec<u8> {
    xs.join(&b' ')
}
fn joinn<T: ToString>(xs: &[T]) -> Vec<u8> {
    xs.iter().map(|x| x.to_string()).collect::<Vec<_>>().join(" ").into_bytes()
}

impl Syn {
    fn set(&mut self, k: &str, v: Vec<u8>) {
        for l in self.lines.iter_mut() {
            if l.0 == k {
                l.1 = v;
                return;
            }
        }
        // insert before the end (after the counts, so that capacities are known)
        self.lines.push((k.to_string(), v));
    }
    fn remove(&mut self, k: &str) {
        self.lines.retain(|l| l.0 != k);
    }
    fn render(&self) -> Vec<u8> {
        let mut o = Vec::new();
        for (k, v) in &self.lines {
            o.extend_from_slice(k.as_bytes());
            if !v.is_empty() {
                o.push(b' ');
                o.extend_from_slice(v);
            }
            o.push(b'\n');
        }
        o.extend_from_slice(b".nodes\n");
        o
    }
    fn supp_names(&self) -> Vec<Vec<u8>> {
        self.ids.iter().map(|&i| self.names[i as usize].clone()).collect()
    }
    /// names by level; non-support variables fill the remaining levels in ascending variable order
    fn ordered_names(&self) -> Vec<Vec<u8>> {
        let mut o: Vec<Option<Vec<u8>>> = vec![None; self.nvars as usize];
        for (&i, &p) in self.ids.iter().zip(&self.permids) {
            o[p as usize] = Some(self.names[i as usize].clone());
        }
        let mut rest = (0..self.nvars).filter(|v| !self.ids.contains(v)).map(|v| self.names[v as usize].clone());
        o.into_iter().map(|x| x.unwrap_or_else(|| rest.next().unwrap())).collect()
    }
    fn set_names(&mut self, var: bool, supp: bool, ord: bool) {
        self.remove(".varnames");
        self.remove(".suppvarnames");
        self.remove(".orderedvarnames");
        if var {
            self.set(".varnames", join(&self.names));
        }
        if supp {
            self.set(".suppvarnames", join(&self.supp_names()));
        }
        if ord {
            self.set(".orderedvarnames", join(&self.ordered_names()));
        }
    }
}

fn syn_base(rng: &mut Rng, min_supp: u32) -> Syn {
    let nvars = rng.range(min_supp.max(if min_supp > 0 { min_supp + 1 } else { 0 }) as u64, 6) as u32;
    let nsupp = rng.range(min_supp as u64, nvars as u64) as u32;
    let mut all: Vec<u32> = (0..nvars).collect();
    rng.shuffle(&mut all);
    let mut ids: Vec<u32> = all[..nsupp as usize].to_vec();
    ids.sort();
    rng.shuffle(&mut all);
    let permids: Vec<u32> = all[..nsupp as usize].to_vec();
    let names: Vec<Vec<u8>> = rand_names(rng, nvars as usize).into_iter().map(|s| s.into_bytes()).collect();
    let nnodes = rng.range(1, 12);
    let nroots = rng.range(0, 3) as usize;
    let rootids: Vec<i64> = (0..nroots)
        .map(|_| {
            let v = rng.range(1, nnodes) as i64;
            if rng.chance(1, 3) { -v } else { v }
        })
        .collect();
    let mut s = Syn { lines: Vec::new(), nvars, ids, permids, names, nnodes, rootids };
    s.lines.push((".ver".into(), if rng.chance(1, 2) { b"DDDMP-2.0".to_vec() } else { b"DDDMP-3.0".to_vec() }));
    s.lines.push((".mode".into(), if rng.chance(1, 2) { b"A".to_vec() } else { b"B".to_vec() }));
    s.lines.push((".varinfo".into(), rng.below(5).to_string().into_bytes()));
    if rng.chance(1, 2) {
        s.lines.push((".dd".into(), b"synth".to_vec()));
    }
    s.lines.push((".nnodes".into(), nnodes.to_string().into_bytes()));
    s.lines.push((".nvars".into(), nvars.to_string().into_bytes()));
    s.lines.push((".nsuppvars".into(), nsupp.to_string().into_bytes()));
    let (a, b, c) = (rng.chance(1, 2), rng.chance(1, 2), rng.chance(1, 2));
    s.set_names(a, b, c);
    s.lines.push((".ids".into(), joinn(&s.ids)));
    s.lines.push((".permids".into(), joinn(&s.permids)));
    if rng.chance(1, 4) {
        let aux: Vec<u64> = (0..nsupp).map(|_| rng.below(100)).collect();
        s.lines.push((".auxids".into(), joinn(&aux)));
    }
    s.lines.push((".nroots".into(), nroots.to_string().into_bytes()));
    s.lines.push((".rootids".into(), joinn(&s.rootids)));
    if rng.chance(1, 3) && nroots > 0 {
        let rn: Vec<Vec<u8>> = rand_names(rng, nroots).into_iter().map(|s| s.into_bytes()).collect();
        s.lines.push((".rootnames".into(), join(&rn)));
    }
    s
}

const NDEFECTS: u64 = 72;

fn syn_defect(rng: &mut Rng, d: u64) -> Vec<u8> {
    let need2 = matches!(d, 8 | 9 | 11);
    let need1 = matches!(d, 2 | 4 | 10 | 12 | 20 | 21 | 22 | 66 | 69 | 70);
    let mut s = syn_base(rng, if need2 { 2 } else if need1 { 1 } else { 0 });
    let nsupp = s.ids.len();
    let nv = s.nvars;
    match d {
        0 => {}
        1 => s.set(".nsuppvars", (nv as u64 + rng.range(1, 3)).to_string().into_bytes()),
        2 => s.set(".ids", joinn(&s.ids[..nsupp - 1])),
        3 => {
            let mut v = s.ids.clone();
            v.push(nv + 1);
            s.set(".ids", joinn(&v))
        }
        4 => s.set(".permids", joinn(&s.permids[..nsupp - 1])),
        5 => {
            let mut v = s.permids.clone();
            v.push(nv + 1);
            s.set(".permids", joinn(&v))
        }
        6 => {
            let aux: Vec<u64> = (0..nsupp).map(|_| rng.below(1000)).collect();
            s.set(".auxids", joinn(&aux))
        }
        7 => {
            let aux: Vec<u64> = (0..nsupp + 1).map(|_| rng.below(1000)).collect();
            s.set(".auxids", joinn(&aux))
        }
        8 => {
            let mut v = s.ids.clone();
            let i = rng.below(nsupp as u64 - 1) as usize;
            v.swap(i, i + 1);
            s.set(".ids", joinn(&v))
        }
        9 => {
            let mut v = s.ids.clone();
            let i = rng.below(nsupp as u64 - 1) as usize;
            v[i + 1] = v[i];
            s.set(".ids", joinn(&v))
        }
        10 => {
            let mut v = s.ids.clone();
            v[nsupp - 1] = nv + rng.below(2) as u32;
            s.set(".ids", joinn(&v))
        }
        11 => {
            let mut v = s.permids.clone();
            let i = rng.below(nsupp as u64 - 1) as usize;
            v[i + 1] = v[i];
            s.set(".permids", joinn(&v))
        }
        12 => {
            let mut v = s.permids.clone();
            let i = rng.below(nsupp as u64) as usize;
            v[i] = nv + rng.below(2) as u32;
            s.set(".permids", joinn(&v))
        }
        13 => s.set_names(true, true, true),
        14 => s.set_names(true, false, false),
        15 => s.set_names(false, true, false),
        16 => s.set_names(false, false, true),
        17 => s.set_names(true, true, false),
        18 => s.set_names(true, false, true),
        19 => s.set_names(false, true, true),
        20 => {
            s.set_names(true, rng.chance(1, 2), true);
            let mut o = s.ordered_names();
            let p = *rng.pick(&s.permids) as usize;
            o[p].push(b'!');
            s.set(".orderedvarnames", join(&o));
        }
        21 => {
            s.set_names(true, true, rng.chance(1, 2));
            let mut o = s.supp_names();
            let p = rng.below(nsupp as u64) as usize;
            o[p] = b"other".to_vec();
            s.set(".suppvarnames", join(&o));
        }
        22 => {
            s.set_names(false, true, true);
            let mut o = s.supp_names();
            let p = rng.below(nsupp as u64) as usize;
            o[p].insert(0, b'~');
            s.set(".suppvarnames", join(&o));
        }
        23 => {
            s.set_names(true, rng.chance(1, 2), rng.chance(1, 2));
            let mut o = s.names.clone();
            if o.is_empty() || rng.chance(1, 2) { o.push(b"extra".to_vec()) } else { o.pop(); if o.is_empty() { o = vec![b"e1".to_vec(), b"e2".to_vec()]; } }
            s.set(".varnames", join(&o));
        }
        24 => {
            s.set_names(rng.chance(1, 2), true, rng.chance(1, 2));
            let mut o = s.supp_names();
            if o.len() < 2 || rng.chance(1, 2) { o.push(b"extra".to_vec()) } else { o.pop(); }
            s.set(".suppvarnames", join(&o));
        }
        25 => {
            s.set_names(rng.chance(1, 2), rng.chance(1, 2), true);
            let mut o = s.ordered_names();
            if o.len() < 2 || rng.chance(1, 2) { o.push(b"extra".to_vec()) } else { o.pop(); }
            s.set(".orderedvarnames", join(&o));
        }
        26..=29 => {
            for (i, n) in s.names.iter_mut().enumerate() {
                match d {
                    26 => *n = format!("ü{}ß", i).into_bytes(),
                    27 => { n.push(0xff); n.push(b'0' + i as u8); }
                    28 => { n.insert(0, b'0' + i as u8); n.push(0xc3); }
                    _ => { n.push(0xe2); n.push(0x82); if i % 2 == 0 { n.push(b'a' + i as u8) } }
                }
            }
            let (a, b, c) = (rng.chance(2, 3), rng.chance(2, 3), rng.chance(2, 3));
            s.set_names(a, b, c || !(a || b));
        }
        30 => {
            s.set(".nroots", b"2".to_vec());
            s.set(".rootids", if rng.chance(1, 2) { b"1 0".to_vec() } else { b"-0 1".to_vec() });
            s.remove(".rootnames");
        }
        31 | 32 | 33 => {
            let v = match d { 31 => s.nnodes as i64 + 1, 32 => -(s.nnodes as i64 + 1), _ => -(rng.range(1, s.nnodes) as i64) };
            s.set(".nroots", b"1".to_vec());
            s.set(".rootids", v.to_string().into_bytes());
            s.remove(".rootnames");
        }
        34..=37 => {
            s.set(".nroots", b"1".to_vec());
            s.set(".rootids", match d { 34 => b"--1".to_vec(), 35 => b"1-2".to_vec(), 36 => b"-".to_vec(), _ => b"- 1".to_vec() });
            s.remove(".rootnames");
        }
        38 => {
            let n = s.rootids.len().max(1);
            let ids: Vec<i64> = (0..n).map(|_| 1).collect();
            s.set(".nroots", n.to_string().into_bytes());
            s.set(".rootids", joinn(&ids));
            let rn: Vec<Vec<u8>> = rand_names(rng, n).into_iter().map(|s| s.into_bytes()).collect();
            s.set(".rootnames", join(&rn));
        }
        39 => {
            let n = s.rootids.len();
            let rn: Vec<Vec<u8>> = rand_names(rng, n + 1).into_iter().map(|s| s.into_bytes()).collect();
            s.set(".rootnames", join(&rn));
        }
        40 => s.set(".nroots", (s.rootids.len() as u64 + rng.range(1, 2)).to_string().into_bytes()),
        41 => s.remove(".nnodes"),
        42 => s.remove(".nroots"),
        43 => s.remove(".ids"),
        44..=49 => s.set(".varinfo", (d - 44).to_string().into_bytes()),
        50..=54 => s.set(".mode", match d { 50 => b"A".to_vec(), 51 => b"B".to_vec(), 52 => b"C".to_vec(), 53 => b"AB".to_vec(), _ => Vec::new() }),
        55..=58 => s.set(".ver", match d { 55 => b"DDDMP-1.0".to_vec(), 56 => b"DDDMP-2.0x".to_vec(), 57 => Vec::new(), _ => b"DDDMP-3.0".to_vec() }),
        59 => s.set(".dd", b"a b  c\td".to_vec()),
        60 => s.set(".dd", b"  \t lead trail \t ".to_vec()),
        61 => s.set(".dd", Vec::new()),
        62 => s.set(".dd", vec![b'a', 0xff, b' ', 0xc3, b' ', 0xe2, 0x82, b'z']),
        63 => s.remove(".permids"),
        64 => s.remove(".nvars"),
        65 => s.remove(".nsuppvars"),
        66 => {
            // mismatch in a name of a non-support variable (if any): accepted by the reader
            s.set_names(true, rng.chance(1, 2), true);
            let mut o = s.ordered_names();
            let free: Vec<usize> = (0..nv as usize).filter(|l| !s.permids.contains(&(*l as u32))).collect();
            if !free.is_empty() {
                let p = *rng.pick(&free);
                o[p] = b"unused".to_vec();
            }
            s.set(".orderedvarnames", join(&o));
        }
        67 => {
            // only .orderedvarnames, non-support names reversed
            s.set_names(false, rng.chance(1, 2), true);
            let mut o = s.ordered_names();
            let free: Vec<usize> = (0..nv as usize).filter(|l| !s.permids.contains(&(*l as u32))).collect();
            let vals: Vec<Vec<u8>> = free.iter().rev().map(|&l| o[l].clone()).collect();
            for (l, v) in free.iter().zip(vals) {
                o[*l] = v;
            }
            s.set(".orderedvarnames", join(&o));
        }
        68 => {
            // name lists before the counts
            s.set_names(false, false, false);
            let (v, su, o) = (join(&s.names), join(&s.supp_names()), join(&s.ordered_names()));
            s.lines.insert(1, (".orderedvarnames".into(), o));
            s.lines.insert(1, (".suppvarnames".into(), su));
            s.lines.insert(1, (".varnames".into(), v));
        }
        69 => {
            // duplicate names: support name equals a non-support name
            let n0 = s.names[s.ids[0] as usize].clone();
            for n in s.names.iter_mut() {
                if rng.chance(1, 2) {
                    *n = n0.clone();
                }
            }
            let (a, b, c) = (rng.chance(1, 2), rng.chance(1, 2), true);
            s.set_names(a, b, c);
        }
        70 => {
            // ids/permids with blanks, tabs, leading zeros
            let v: Vec<String> = s.ids.iter().map(|i| format!("{}{}", if rng.chance(1, 2) { "00" } else { "" }, i)).collect();
            let mut b = b"\t ".to_vec();
            b.extend_from_slice(v.join(" \t ").as_bytes());
            b.extend_from_slice(b" \t");
            s.set(".ids", b);
        }
        _ => {
            // rootids with '+' or other junk
            s.set(".nroots", b"1".to_vec());
            s.set(".rootids", match rng.below(4) { 0 => b"+1".to_vec(), 1 => b"1,2".to_vec(), 2 => b"0x1".to_vec(), _ => b"1 -".to_vec() });
            s.remove(".rootnames");
        }
    }
    s.render()
}

// --- line-level edits

fn split_lines(hdr: &[u8]) -> Vec<Vec<u8>> {
    // header ends with ".nodes\n"
    let mut v: Vec<Vec<u8>> = hdr.split(|&c| c == b'\n').map(|l| l.to_vec()).collect();
    if v.last().map(|l| l.is_empty()).unwrap_or(false) {
        v.pop();
    }
    v
}
fn join_lines(ls: &[Vec<u8>], eol: &[u8]) -> Vec<u8> {
    let mut o = Vec::new();
    for l in ls {
        o.extend_from_slice(l);
        o.extend_from_slice(eol);
    }
    o
}

fn line_edits(out: &mut Out, rng: &mut Rng, file: &[u8]) {
    let hl = header_len(file);
    let (hdr, rest) = file.split_at(hl);
    let ls = split_lines(hdr);
    let n = ls.len() - 1; // index of `.nodes`
    let emit = |out: &mut Out, ls: &[Vec<u8>], eol: &[u8]| {
        let mut b = join_lines(ls, eol);
        b.extend_from_slice(rest);
        out.hdr(&b);
    };
    // permutations
    for _ in 0..2 {
        let mut p = ls.clone();
        rng.shuffle(&mut p[..n]);
        emit(out, &p, b"\n");
    }
    // delete each line in turn
    for i in 0..n {
        let mut p = ls.clone();
        p.remove(i);
        emit(out, &p, b"\n");
    }
    // duplicates
    for _ in 0..3 {
        let i = rng.below(n as u64) as usize;
        let mut p = ls.clone();
        let pos = rng.range(0, n as u64) as usize;
        p.insert(pos, ls[i].clone());
        emit(out, &p, b"\n");
        let mut c = ls[i].clone();
        let digs: Vec<usize> = (0..c.len()).filter(|&k| c[k].is_ascii_digit()).collect();
        if !digs.is_empty() {
            let k = *rng.pick(&digs);
            c[k] = b'0' + rng.below(10) as u8;
        } else {
            c.extend_from_slice(b" zz");
        }
        let mut p = ls.clone();
        if rng.chance(1, 2) {
            p.insert(n, c); // changed copy last: it counts
        } else {
            p.insert(0, c); // changed copy first: overridden
        }
        emit(out, &p, b"\n");
    }
    // unknown keys and oddities
    for ins in [&b".foo 1"[..], b".Ver DDDMP-2.0", b"", b"   ", b" \t", b".", b"ids 1", b".nodesX"] {
        let mut p = ls.clone();
        p.insert(rng.range(0, n as u64) as usize, ins.to_vec());
        emit(out, &p, b"\n");
    }
    for repl in [&b".nodes 3"[..], b".nodesX", b".nodes ", b".nodes\t", b" .nodes", b".NODES"] {
        let mut p = ls.clone();
        p[n] = repl.to_vec();
        emit(out, &p, b"\n");
    }
    // line endings
    emit(out, &ls, b"\r\n");
    emit(out, &ls, b"\r\r\n");
    emit(out, &ls, b"\n\r");
    emit(out, &ls, b"\r");
    // lone \r inside a value
    for _ in 0..2 {
        let i = rng.below(n as u64) as usize;
        let mut p = ls.clone();
        let k = rng.range(p[i].len().min(5) as u64, p[i].len() as u64) as usize;
        p[i].insert(k, b'\r');
        emit(out, &p, b"\n");
    }
    // leading blanks before the key
    for _ in 0..2 {
        let i = rng.below(n as u64) as usize;
        let mut p = ls.clone();
        p[i].insert(0, if rng.chance(1, 2) { b' ' } else { b'\t' });
        emit(out, &p, b"\n");
    }
    // several blanks / tabs between key and value and after the value; tab as separator
    for variant in 0..3 {
        let p: Vec<Vec<u8>> = ls
            .iter()
            .enumerate()
            .map(|(i, l)| {
                if i == n {
                    return l.clone();
                }
                let sp = l.iter().position(|&c| c == b' ');
                let (k, v) = match sp {
                    Some(p) => (&l[..p], &l[p + 1..]),
                    None => (&l[..], &[][..]),
                };
                let mut o = k.to_vec();
                match variant {
                    0 => {
                        o.extend_from_slice(b"  \t ");
                        o.extend_from_slice(v);
                        o.extend_from_slice(b" \t \t");
                    }
                    1 => {
                        o.push(b'\t');
                        o.extend_from_slice(v);
                    }
                    _ => {
                        // tabs between list entries too
                        o.push(b'\t');
                        o.extend(v.iter().map(|&c| if c == b' ' { b'\t' } else { c }));
                        o.push(b' ');
                    }
                }
                o
            })
            .collect();
        emit(out, &p, b"\n");
    }
    // no final newline after .nodes
    {
        let mut b = join_lines(&ls, b"\n");
        b.pop();
        out.hdr(&b);
    }
    // .nodes first
    {
        let mut p = ls.clone();
        p.insert(0, b".nodes".to_vec());
        emit(out, &p, b"\n");
        out.hdr(b".nodes\n");
        out.hdr(b".nodes");
        out.hdr(b"\n.nodes\n");
    }
    // only .ver
    out.hdr(&join_lines(&ls[..1], b"\n"));
    out.hdr(&ls[0]);
}

fn mutate(rng: &mut Rng, file: &[u8], hl: usize) -> Vec<u8> {
    let mut b = file.to_vec();
    let targeted: [u8; 8] = [0x20, 0x09, 0x0d, 0x0a, 0x2d, 0x00, 0xff, 0xc3];
    match rng.below(4) {
        0 => {
            let p = rng.below(hl as u64) as usize;
            b[p] = rng.below(256) as u8;
        }
        1 => {
            let digs: Vec<usize> = (0..hl).filter(|&k| b[k].is_ascii_digit()).collect();
            if digs.is_empty() {
                let p = rng.below(hl as u64) as usize;
                b[p] = b'7';
            } else {
                let k = *rng.pick(&digs);
                let old = b[k];
                loop {
                    let c = b'0' + rng.below(10) as u8;
                    if c != old {
                        b[k] = c;
                        break;
                    }
                }
            }
        }
        2 => {
            let p = rng.below(hl as u64) as usize;
            b[p] = *rng.pick(&targeted);
        }
        _ => {
            // targeted at separators / line ends
            let seps: Vec<usize> = (0..hl).filter(|&k| b[k] == b' ' || b[k] == b'\n').collect();
            let k = *rng.pick(&seps);
            b[k] = match rng.below(6) {
                0 => b'\t',
                1 => b'\r',
                2 => b'\n',
                3 => b' ',
                4 => b'-',
                _ => b'0' + rng.below(10) as u8,
            };
        }
    }
    b
}

fn huge(out: &mut Out, rng: &mut Rng, idx: &mut u64) {
    let mk = |rng: &mut Rng| -> Syn {
        let mut s = syn_base(rng, 1);
        s.set_names(false, false, false);
        s.remove(".auxids");
        s
    };
    let mut case = |out: &mut Out, name: &str| {
        out.case(&format!("huge-{}-{}", *idx, name));
        *idx += 1;
    };
    let us = ["18446744073709551615", "18446744073709551616", "99999999999999999999", "00000000000000000000001", "18446744073709551614", "0"];
    for key in [".nnodes", ".nroots"] {
        case(out, &key[1..]);
        for v in us {
            let mut s = mk(rng);
            s.set(key, v.as_bytes().to_vec());
            out.hdr(&s.render());
            if key == ".nnodes" {
                // roots at the boundary of the node count
                s.set(".nroots", b"2".to_vec());
                s.set(".rootids", b"9223372036854775807 -9223372036854775807".to_vec());
                s.remove(".rootnames");
                out.hdr(&s.render());
            }
        }
    }
    let u32s = ["4294967295", "4294967296", "0000000000000", "00000000004294967295", "99999999999"];
    case(out, "nvars");
    for v in u32s.iter().copied().chain(["65536", "65537", "000065536", "100000"]) {
        let mut s = mk(rng);
        s.set(".nvars", v.as_bytes().to_vec());
        let mut b = s.render();
        let sig = v.trim_start_matches('0').len();
        if sig > 5 || v == "65537" {
            // never let the loader reach the allocation: no `.nodes` line
            b.truncate(b.len() - b".nodes\n".len());
        }
        out.hdr(&b);
    }
    case(out, "nsuppvars");
    for v in u32s {
        let mut s = mk(rng);
        s.set(".nsuppvars", v.as_bytes().to_vec());
        out.hdr(&s.render());
    }
    for key in [".ids", ".permids", ".auxids"] {
        case(out, &key[1..]);
        for v in u32s {
            let mut s = mk(rng);
            let n = s.ids.len();
            let mut vals: Vec<String> = match key {
                ".ids" => s.ids.iter().map(|x| x.to_string()).collect(),
                ".permids" => s.permids.iter().map(|x| x.to_string()).collect(),
                _ => (0..n).map(|x| x.to_string()).collect(),
            };
            vals[n - 1] = v.to_string();
            s.set(key, vals.join(" ").into_bytes());
            out.hdr(&s.render());
            // leading zeros on a valid value
            let mut vals2: Vec<String> = match key {
                ".ids" => s.ids.iter().map(|x| format!("000000000000{}", x)).collect(),
                ".permids" => s.permids.iter().map(|x| format!("000000000000{}", x)).collect(),
                _ => (0..n).map(|x| format!("00{}", x)).collect(),
            };
            if v == "0000000000000" {
                vals2.reverse();
                vals2.reverse();
                s.set(key, vals2.join(" ").into_bytes());
                out.hdr(&s.render());
            }
        }
    }
    case(out, "rootids");
    for v in ["9223372036854775807", "-9223372036854775807", "9223372036854775808", "-9223372036854775808", "-0000000000000000000000001", "000000000000000000000000"] {
        for nn in ["18446744073709551615", "9223372036854775807", "9223372036854775806", "5"] {
            let mut s = mk(rng);
            s.set(".nnodes", nn.as_bytes().to_vec());
            s.set(".nroots", b"1".to_vec());
            s.set(".rootids", v.as_bytes().to_vec());
            s.remove(".rootnames");
            out.hdr(&s.render());
        }
    }
}

// --- huge `.nvars`

const NVH: [u32; 3] = [65537, 2147483648, 4294967295];

fn nvh_pick_distinct(rng: &mut Rng, pool: &[u32], nvars: u32, k: usize) -> Vec<u32> {
    let mut p: Vec<u32> = pool.iter().copied().filter(|&x| x < nvars).collect();
    p.sort();
    p.dedup();
    rng.shuffle(&mut p);
    p.truncate(k);
    p
}

fn nvh_render(lines: &[(String, Vec<u8>)], eol: &[u8], body: &[u8]) -> Vec<u8> {
    let mut o = Vec::new();
    for (k, v) in lines {
        o.extend_from_slice(k.as_bytes());
        if !v.is_empty() {
            o.push(b' ');
            o.extend_from_slice(v);
        }
        o.extend_from_slice(eol);
    }
    o.extend_from_slice(b".nodes");
    o.extend_from_slice(eol);
    o.extend_from_slice(body);
    o
}

fn nvhuge(out: &mut Out, rng: &mut Rng, cfg: &GenCfg) {
    let scale = cfg.scale.max(1);
    let total = (if cfg.thorough { 200 } else { 40 }) * scale;
    let mut big_ok_left = if cfg.thorough { 6 } else { 2 };
    let mut idx = 0u64;
    let mut emit = |out: &mut Out, expect: &str, b: &[u8]| {
        writeln!(out.w, "# nvhuge-{} expect {}", idx, expect).unwrap();
        out.case(&format!("nvhuge-{}", idx));
        out.hdr_unsafe_ok(b);
        idx += 1;
    };
    // inputs the loader before /repo 5fa35fa could not survive (regression check)
    emit(out, "ok", b".nvars 4294967295\n.nodes\n");
    emit(out, "err-alloc", b".nvars 4294967295\n.nsuppvars 1\n.suppvarnames a\n.ids 0\n.permids 0\n.nodes\n");
    emit(out, "ok", b".nvars 2147483648\n.nsuppvars 1\n.ids 5\n.permids 2147483647\n.nodes\n");

    let bodies: [&[u8]; 4] = [b"", b"1 0 0 0\n.end\n", b"\x00\xff\x80", b".end\n"];
    for i in 0..total {
        let variant = i % 5;
        let mut nvars = NVH[((i / 5) % 3) as usize];
        let mut k = rng.range(0, 3) as usize;
        let mut expect = String::from("ok");
        let mut pre: Vec<(String, Vec<u8>)> = Vec::new();
        let mut post: Vec<(String, Vec<u8>)> = Vec::new();
        let mut names: Vec<(String, Vec<u8>)> = Vec::new();
        let mut nsupp_txt: Option<String> = None;
        let mut eol: &[u8] = b"\n";
        let mut body: &[u8] = b"";
        if variant == 2 || (variant == 1 && i % 2 == 0) {
            k = k.max(1);
        }
        if variant == 2 && nvars == 65537 {
            if big_ok_left > 0 {
                big_ok_left -= 1;
            } else {
                nvars = if rng.chance(1, 2) { 2147483648 } else { 4294967295 };
            }
        }
        let id_pool = [0u32, 1, 2, 5, 7, 65536, nvars / 2, nvars - 2, nvars - 1];
        let perm_pool = [0u32, 1, 3, 7, 65535, 65536, 2147483647, nvars - 2, nvars - 1];
        let mut ids = nvh_pick_distinct(rng, &id_pool, nvars, k);
        ids.sort();
        let mut permids = nvh_pick_distinct(rng, &perm_pool, nvars, k);
        let nm = |j: usize| -> Vec<u8> { NAME_POOL[j % NAME_POOL.len()].as_bytes().to_vec() };
        match variant {
            0 => {}
            1 => match (i / 5) % 4 {
                0 => {
                    k = k.max(1);
                    if ids.len() < k {
                        ids = vec![0];
                        permids = vec![0];
                    }
                    let j = rng.below(k as u64) as usize;
                    permids[j] = if nvars < 4294967295 && rng.chance(1, 2) { nvars + 1 + rng.below(3) as u32 } else { nvars };
                    expect = "err-perm-range".into();
                }
                1 => {
                    k = k.max(1);
                    if ids.len() < k {
                        ids = vec![0];
                        permids = vec![0];
                    }
                    ids[k - 1] = nvars;
                    expect = "err-ids-range".into();
                }
                2 => {
                    k = k.max(2);
                    if ids.len() < k {
                        ids = vec![1, nvars - 1];
                        permids = vec![7, 0];
                    }
                    let j = rng.range(1, k as u64 - 1) as usize;
                    permids[j] = permids[0];
                    expect = "err-perm-dup".into();
                }
                _ => {
                    nsupp_txt = Some((k + 1 + rng.below(2) as usize).to_string());
                    expect = "err-count-ids".into();
                }
            },
            2 => {
                let ns: Vec<Vec<u8>> = (0..k).map(|j| nm(j + i as usize)).collect();
                names.push((".suppvarnames".into(), join(&ns)));
                expect = if nvars == 65537 { "ok".into() } else { "err-alloc".into() };
            }
            3 => match (i / 15) % 3 {
                0 => {
                    let c = rng.range(1, 4) as usize;
                    let ns: Vec<Vec<u8>> = (0..c).map(|j| nm(j)).collect();
                    names.push((".orderedvarnames".into(), join(&ns)));
                    if rng.chance(1, 3) && k > 0 {
                        let sn: Vec<Vec<u8>> = (0..k).map(|j| nm(j)).collect();
                        names.push((".suppvarnames".into(), join(&sn)));
                    }
                    expect = "err-count-ordered".into();
                }
                1 => {
                    let c = rng.range(1, 4) as usize;
                    let ns: Vec<Vec<u8>> = (0..c).map(|j| nm(j + 3)).collect();
                    names.push((".varnames".into(), join(&ns)));
                    if rng.chance(1, 3) && k > 0 {
                        let sn: Vec<Vec<u8>> = (0..k).map(|j| nm(j)).collect();
                        names.push((".suppvarnames".into(), join(&sn)));
                    }
                    expect = "err-count-varnames".into();
                }
                _ => {
                    let c = if k > 1 && rng.chance(1, 2) { k - 1 } else { k + 1 + rng.below(2) as usize };
                    let ns: Vec<Vec<u8>> = (0..c).map(|j| nm(j + 5)).collect();
                    names.push((".suppvarnames".into(), join(&ns)));
                    expect = "err-count-supp".into();
                }
            },
            _ => {
                pre.push((".ver".into(), if rng.chance(1, 2) { b"DDDMP-2.0".to_vec() } else { b"DDDMP-3.0".to_vec() }));
                pre.push((".mode".into(), if rng.chance(1, 2) { b"B".to_vec() } else { b"A".to_vec() }));
                pre.push((".varinfo".into(), rng.below(5).to_string().into_bytes()));
                if rng.chance(2, 3) {
                    pre.push((".dd".into(), rand_dd(rng).into_bytes()));
                }
                let nnodes = rng.range(1, 12);
                pre.push((".nnodes".into(), nnodes.to_string().into_bytes()));
                let nroots = rng.range(0, 3) as usize;
                let mut rootids: Vec<i64> = (0..nroots)
                    .map(|_| {
                        let v = rng.range(1, nnodes) as i64;
                        if rng.chance(1, 3) { -v } else { v }
                    })
                    .collect();
                if nroots > 0 && rng.chance(1, 3) {
                    let j = rng.below(nroots as u64) as usize;
                    rootids[j] = if rng.chance(1, 2) { nnodes as i64 + 1 } else { -(nnodes as i64) - 1 };
                    expect = "err-root-range".into();
                }
                post.push((".nroots".into(), nroots.to_string().into_bytes()));
                post.push((".rootids".into(), joinn(&rootids)));
                if nroots > 0 && rng.chance(1, 3) {
                    let rn: Vec<Vec<u8>> = (0..nroots).map(|j| nm(j + 9)).collect();
                    post.push((".rootnames".into(), join(&rn)));
                }
                if rng.chance(1, 3) {
                    eol = b"\r\n";
                }
                body = bodies[rng.below(bodies.len() as u64) as usize];
            }
        }
        let mut lines = pre;
        lines.push((".nvars".into(), nvars.to_string().into_bytes()));
        lines.push((".nsuppvars".into(), nsupp_txt.unwrap_or_else(|| ids.len().to_string()).into_bytes()));
        lines.extend(names);
        lines.push((".ids".into(), joinn(&ids)));
        lines.push((".permids".into(), joinn(&permids)));
        lines.extend(post);
        let b = nvh_render(&lines, eol, body);
        emit(out, &expect, &b);
    }
}

fn generate(cfg: &GenCfg, rng: &mut Rng, w: &mut dyn Write) {
    let k = (if cfg.thorough { 10 } else { 1 }) * cfg.scale.max(1);
    let mut out = Out { w, n: 0, dropped: 0 };

    // 1. round trips
    let n_rt = 120 * k;
    let mut files: Vec<Vec<u8>> = Vec::new();
    for i in 0..n_rt {
        let sp = rand_spec(rng, i);
        let Some(file) = do_export(&sp) else { continue };
        out.case(&format!("rt-{}", i));
        let vn = match &sp.names {
            Some(ns) => ns.iter().map(|n| hx(n.as_bytes())).collect::<Vec<_>>().join(","),
            None => "-".into(),
        };
        let rn = match &sp.rootnames {
            Some(ns) => ns.iter().map(|n| hx(n.as_bytes())).collect::<Vec<_>>().join(","),
            None => "-".into(),
        };
        writeln!(out.w, "rt dd={} nvars={} vn={} rn={} ascii={} {}", hx(sp.dd.as_bytes()), sp.nvars, vn, rn, (sp.ascii || !sp.bcdd) as u8, hx(&file)).unwrap();
        out.n += 1;
        files.push(file);
    }
    if files.is_empty() {
        return;
    }

    // 2. truncations
    let n_trunc = if cfg.thorough { 20 } else { 3 } * cfg.scale.max(1);
    for i in 0..n_trunc {
        let f = &files[(i as usize * 7 + 3) % files.len()];
        let hl = header_len(f);
        out.case(&format!("trunc-{}", i));
        for t in 0..=(hl + 3).min(f.len()) {
            out.hdr(&f[..t]);
        }
    }

    // 3. single-byte mutations
    let n_mut_cases = 60 * k;
    for i in 0..n_mut_cases {
        let f = rng.pick(&files).clone();
        let hl = header_len(&f);
        out.case(&format!("mut-{}", i));
        for _ in 0..20 {
            let m = mutate(rng, &f, hl);
            out.hdr(&m);
        }
    }

    // 4. line-level edits
    let n_lines = 7 * k;
    for i in 0..n_lines {
        let f = rng.pick(&files).clone();
        out.case(&format!("lines-{}", i));
        line_edits(&mut out, rng, &f);
    }

    // 5. synthetic headers
    let n_syn = 36 * k;
    for i in 0..n_syn {
        out.case(&format!("synth-{}", i));
        for j in 0..8 {
            let d = (i * 8 + j) % NDEFECTS;
            let b = syn_defect(rng, d);
            out.hdr(&b);
        }
    }

    // 6. integer boundaries
    let mut idx = 0;
    for _ in 0..(if cfg.thorough { 3 } else { 1 }) {
        huge(&mut out, rng, &mut idx);
    }
    // 7. huge `.nvars` with a `.nodes` line (run side: child process with limited address space)
    nvhuge(&mut out, rng, cfg);

    writeln!(out.w, "# lines {} dropped {}", out.n, out.dropped).unwrap();
}

fn make(_f: &BTreeMap<String, String>) -> Box<dyn Scenario> {
    Box::new(Hdr)
}

fn main() {
    if std::env::args().nth(1).as_deref() == Some("child-load") {
        child_main();
    }
    harness_main(generate, make)
}
