//! Reproducer: `DumpHeader::load` allocates `nvars` counters (and name strings) taken from the
//! untrusted `.nvars` field.
use oxidd_dump::dddmp::DumpHeader;

fn vm(key: &str) -> String {
    std::fs::read_to_string("/proc/self/status")
        .ok()
        .and_then(|s| s.lines().find(|l| l.starts_with(key)).map(|l| l.to_string()))
        .unwrap_or_else(|| format!("{} ?", key))
}

/// Input 3: a diagram name with a leading and a trailing blank is written as is by the exporter
/// (strict mode, no error) and comes back trimmed; a name of blanks only comes back as `None`.
fn dd_name_trip() {
    use oxidd::bdd::BDDFunction;
    use oxidd::{BooleanFunction, Manager, ManagerRef};
    use oxidd_dump::dddmp::ExportSettings;
    for name in [" foo ", "a b", "  ", "x\ty"] {
        let mref = oxidd::bdd::new_manager(1024, 1024, 1);
        let vars: Vec<BDDFunction> = mref.with_manager_exclusive(|m| {
            m.add_vars(2).map(|i| BDDFunction::var(m, i).unwrap()).collect()
        });
        let f = vars[0].and(&vars[1]).unwrap();
        let (res, file) = mref.with_manager_shared(|m| {
            let mut out = Vec::new();
            let r = ExportSettings::default().ascii().diagram_name(name).export(&mut out, m, [&f]);
            (r.map_err(|e| e.to_string()), out)
        });
        let mut cur: &[u8] = &file;
        let h = DumpHeader::load(&mut cur);
        println!(
            "diagram_name({:?}) strict export -> {:?}; header line {:?}; reader diagram_name() = {:?}",
            name,
            res,
            String::from_utf8_lossy(file.split(|&b| b == b'\n').find(|l| l.starts_with(b".dd")).unwrap_or(b"<none>")),
            h.as_ref().map(|h| h.diagram_name().map(|s| s.to_string())).map_err(|e| e.to_string()),
        );
    }
}

fn main() {
    let which = std::env::args().nth(1).unwrap_or_else(|| "1".into());
    if which == "3" {
        dd_name_trip();
        return;
    }
    let input: &[u8] = match which.as_str() {
        "1" => b".nvars 4294967295\n.nodes\n",
        "2" => b".nvars 4294967295\n.nsuppvars 1\n.suppvarnames a\n.ids 0\n.permids 0\n.nodes\n",
        _ => {
            eprintln!("usage: c15_header_repro 1|2");
            std::process::exit(2);
        }
    };
    println!("input {} ({} bytes): {:?}", which, input.len(), String::from_utf8_lossy(input));
    let t = std::time::Instant::now();
    let mut cur: &[u8] = input;
    let r = DumpHeader::load(&mut cur);
    let el = t.elapsed();
    match &r {
        Ok(h) => println!("ok nvars={} nsupp={} var_names={:?}", h.num_vars(), h.num_support_vars(), h.var_names().map(|v| v.len())),
        Err(e) => println!("err {}", e),
    }
    println!("elapsed {:?}", el);
    println!("{}", vm("VmHWM"));
    println!("{}", vm("VmPeak"));
    // do not run destructors of a 96 GiB vector of strings
    std::mem::forget(r);
}
