//! C15 / C10: the text form of MTBDD terminals (`Display`, `AsciiDisplay`, `ParseTagged::parse` of
//! `I64` and `F64` in `oxidd-rules-mtbdd/src/terminal`) and its way through a real DDDMP
//! export -> import.  Protocol `termtext` (model: `OxiddModel/Mtbdd/DriverTermText.lean`).
//!
//! ```text
//! selfcheck                       -> ok                  (the model checks its byte tables against the literals)
//! disp <v>                        -> <hex Display> <hex AsciiDisplay>
//! parse <hex|->                   -> none | nan | -inf | +inf | num <decimal>     I64::parse on the UTF-8 text
//! rt <v>                          -> ok                  parse(Display(v)) == v == parse(AsciiDisplay(v)) (oracle)
//! f64parse <hex|-> <std>          -> none | <16 hex>     F64::parse; <std> = bits of f64::from_str or `none`
//! f64disp <bits> <hex>            -> <hex Display> <hex AsciiDisplay> of F64::from(from_bits); <hex> = std's text
//! dddmp <v1> <v2>                 -> ok <hex>[,<hex>]    ASCII export of ite(x0, v1, v2) (or the constant if
//!                                                        v1 == v2): the terminal texts found in the file, sorted;
//!                                                        import into the same manager gives the same handle
//! ```
//! `<v>`: `nan`, `-inf`, `+inf` or a decimal `i64`.  Texts are hex-encoded UTF-8 (`-` = empty).
use std::collections::BTreeMap;
use std::fmt;
use std::io::Write;
use std::str::FromStr;

use oxidd::mtbdd::MTBDDFunction;
use oxidd::mtbdd::terminal::I64;
use oxidd::{Manager, ManagerRef, PseudoBooleanFunction};
use oxidd_dump::dddmp::{self, DumpHeader, ExportSettings};
use oxidd_dump::{AsciiDisplay, ParseTagged};
use oxidd_rules_mtbdd::terminal::F64;
use oxv::*;

type MT = MTBDDFunction<I64>;

struct Asc<'a, T>(&'a T);
impl<T: AsciiDisplay> fmt::Display for Asc<'_, T> {
    fn fmt(&self, f: &mut fmt::Formatter<'_>) -> fmt::Result {
        self.0.fmt(f)
    }
}

fn hex(b: &[u8]) -> String {
    if b.is_empty() {
        return "-".into();
    }
    b.iter().map(|x| format!("{:02x}", x)).collect()
}
fn unhex(s: &str) -> Option<Vec<u8>> {
    if s == "-" {
        return Some(vec![]);
    }
    if s.len() % 2 != 0 || !s.bytes().all(|c| c.is_ascii_hexdigit() && !c.is_ascii_uppercase()) {
        return None;
    }
    (0..s.len() / 2).map(|i| u8::from_str_radix(&s[2 * i..2 * i + 2], 16).ok()).collect()
}
fn val(s: &str) -> Option<I64> {
    Some(match s {
        "nan" => I64::NaN,
        "-inf" => I64::MinusInf,
        "+inf" => I64::PlusInf,
        _ => {
            // canonical decimal only (the model's value syntax)
            let n: i64 = s.parse().ok()?;
            if n.to_string() != s {
                return None;
            }
            I64::Num(n)
        }
    })
}
fn show(v: I64) -> String {
    match v {
        I64::NaN => "nan".into(),
        I64::MinusInf => "-inf".into(),
        I64::PlusInf => "+inf".into(),
        I64::Num(n) => format!("num {}", n),
    }
}

struct Sc;

impl Scenario for Sc {
    fn reset(&mut self) {}
    fn step(&mut self, line: &str, ctx: &mut Ctx) -> String {
        let w = words(line);
        match w.as_slice() {
            ["selfcheck"] => "ok".into(),
            ["disp", v] => {
                let Some(v) = val(v) else { return "bad-op".into() };
                let d = format!("{}", v);
                let a = format!("{}", Asc(&v));
                if format!("{:?}", v) != d {
                    ctx.fail("i64-debug-display", "Debug and Display differ");
                }
                if !a.is_ascii() {
                    ctx.fail("i64-ascii-display", &format!("AsciiDisplay writes non-ASCII text {:?}", a));
                }
                for t in [&d, &a] {
                    if t.is_empty() || t.chars().any(|c| c.is_whitespace() || c.is_control()) {
                        ctx.fail("i64-token-unsafe", &format!("text {:?} is empty or contains blank/control characters", t));
                    }
                }
                format!("{} {}", hex(d.as_bytes()), hex(a.as_bytes()))
            }
            ["parse", t] => {
                let Some(b) = unhex(t) else { return "bad-op".into() };
                let Ok(s) = std::str::from_utf8(&b) else { return "bad-op".into() };
                match <I64 as ParseTagged<()>>::parse(s) {
                    None => {
                        ctx.count("parse.none");
                        // independent reading: a canonical decimal i64 must be accepted
                        if let Ok(n) = i128::from_str(s) {
                            if n >= i64::MIN as i128 && n <= i64::MAX as i128 {
                                ctx.fail("i64-parse-rejects-number", &format!("parse({:?}) = None", s));
                            }
                        }
                        "none".into()
                    }
                    Some((v, ())) => {
                        ctx.count("parse.some");
                        if let I64::Num(n) = v {
                            // reference: i128 reading of sign + digits
                            let ok = i128::from_str(s).map(|m| m == n as i128).unwrap_or(false);
                            if !ok || s.chars().any(|c| !(c.is_ascii_digit() || c == '+' || c == '-')) {
                                ctx.fail("i64-parse-value", &format!("parse({:?}) = {}", s, n));
                            }
                        }
                        show(v)
                    }
                }
            }
            ["rt", v] => {
                let Some(v) = val(v) else { return "bad-op".into() };
                let d = format!("{}", v);
                let a = format!("{}", Asc(&v));
                let p1 = <I64 as ParseTagged<()>>::parse(&d).map(|x| x.0);
                let p2 = <I64 as ParseTagged<()>>::parse(&a).map(|x| x.0);
                if p1 != Some(v) || p2 != Some(v) {
                    ctx.fail("i64-text-roundtrip", &format!("{:?} -> {:?} / {:?} -> {:?} / {:?}", show(v), d, a, p1.map(show), p2.map(show)));
                    return "mismatch".into();
                }
                "ok".into()
            }
            ["f64parse", t, std] => {
                let Some(b) = unhex(t) else { return "bad-op".into() };
                let Ok(s) = std::str::from_utf8(&b) else { return "bad-op".into() };
                // the generator's claim about the standard library is re-checked here
                let now = f64::from_str(s).ok().map(|x| format!("{:016x}", x.to_bits())).unwrap_or("none".into());
                if now != *std {
                    return "bad-op".into();
                }
                match <F64 as ParseTagged<()>>::parse(s) {
                    None => "none".into(),
                    Some((v, ())) => {
                        let bits = f64::from(v).to_bits();
                        let x = f64::from_bits(bits);
                        if (x.is_nan() && bits != f64::NAN.to_bits()) || bits == (-0.0f64).to_bits() {
                            ctx.fail("f64-parse-unnormalised", &format!("parse({:?}) has bits {:016x}", s, bits));
                        }
                        format!("{:016x}", bits)
                    }
                }
            }
            ["f64disp", bits, stdtext] => {
                let Ok(bits) = u64::from_str_radix(bits, 16) else { return "bad-op".into() };
                let v = F64::from(f64::from_bits(bits));
                let nb = f64::from(v);
                let Some(st) = unhex(stdtext) else { return "bad-op".into() };
                if format!("{}", nb).as_bytes() != st.as_slice() {
                    return "bad-op".into();
                }
                let d = format!("{}", v);
                let a = format!("{}", Asc(&v));
                for t in [&d, &a] {
                    match <F64 as ParseTagged<()>>::parse(t) {
                        Some((p, ())) if p == v => {}
                        other => ctx.fail("f64-text-roundtrip", &format!("{:016x} -> {:?} -> {:?}", bits, t, other.map(|p| f64::from(p.0).to_bits()))),
                    }
                }
                format!("{} {}", hex(d.as_bytes()), hex(a.as_bytes()))
            }
            ["dddmp", v1, v2] => {
                let (Some(v1), Some(v2)) = (val(v1), val(v2)) else { return "bad-op".into() };
                let mref = oxidd::mtbdd::new_manager::<I64>(64, 64, 64, 1);
                mref.with_manager_exclusive(|m| {
                    m.add_vars(1);
                });
                let res: Result<String, String> = mref.with_manager_shared(|manager| {
                    let f = if v1 == v2 {
                        MT::constant(manager, v1).map_err(|_| "oom")?
                    } else {
                        let x = MT::var(manager, 0).map_err(|_| "oom")?;
                        let c1 = MT::constant(manager, v1).map_err(|_| "oom")?;
                        let c2 = MT::constant(manager, v2).map_err(|_| "oom")?;
                        x.ite(&c1, &c2).map_err(|_| "oom")?
                    };
                    let mut file = Vec::new();
                    ExportSettings::default().ascii().export(&mut file, manager, [&f]).map_err(|e| format!("export: {e}"))?;
                    // harness-side reading of the node section
                    let text = String::from_utf8(file.clone()).map_err(|_| "file is not UTF-8".to_string())?;
                    let mut toks: Vec<String> = Vec::new();
                    let mut in_nodes = false;
                    for l in text.lines() {
                        if l == ".nodes" {
                            in_nodes = true;
                            continue;
                        }
                        if l == ".end" {
                            break;
                        }
                        if in_nodes {
                            let p: Vec<&str> = l.split(' ').collect();
                            if p.len() == 4 && p[2] == "0" && p[3] == "0" {
                                toks.push(p[1].to_string());
                            } else if p.len() != 4 {
                                return Err(format!("node line {:?} does not have four fields", l));
                            }
                        }
                    }
                    let mut want = vec![v1, v2];
                    want.dedup();
                    for t in &toks {
                        match <I64 as ParseTagged<()>>::parse(t) {
                            Some((p, ())) if want.contains(&p) => {}
                            other => return Err(format!("terminal text {:?} is read as {:?}", t, other.map(|p| show(p.0)))),
                        }
                    }
                    if toks.len() != want.len() {
                        return Err(format!("{} terminal lines for {} terminals", toks.len(), want.len()));
                    }
                    // import into the same manager: same handle
                    let mut rd: &[u8] = &file;
                    let header = DumpHeader::load(&mut rd).map_err(|e| format!("load: {e}"))?;
                    let support: Vec<u32> = header.support_var_order().to_vec();
                    let roots = dddmp::import::<MT>(&mut rd, &header, manager, support.iter().copied(), |_, e| Ok(e))
                        .map_err(|e| format!("import: {e}"))?;
                    if roots.len() != 1 || roots[0] != f {
                        return Err("imported function is not the exported one".into());
                    }
                    for a in [false, true] {
                        let got = roots[0].eval([(0u32, a)]);
                        let exp = if a { v1 } else { v2 };
                        if got != exp {
                            return Err(format!("imported function evaluates to {} at x0={}", show(got), a));
                        }
                    }
                    let mut hs: Vec<String> = toks.iter().map(|t| hex(t.as_bytes())).collect();
                    hs.sort();
                    Ok(format!("ok {}", hs.join(",")))
                });
                match res {
                    Ok(s) => {
                        ctx.count("dddmp.ok");
                        s
                    }
                    Err(e) => {
                        ctx.fail("mtbdd-terminal-dddmp-roundtrip", &e);
                        "fail".into()
                    }
                }
            }
            _ => "bad-op".into(),
        }
    }
}

const NAMES: [&str; 26] = [
    "nan", "NaN", "NAN", "-∞", "-inf", "-infinity", "-Inf", "-Infinity", "-INF", "-INFINITY", "MinusInf", "∞", "inf", "infinity", "Inf", "Infinity", "INF",
    "INFINITY", "+∞", "+inf", "+infinity", "+Inf", "+Infinity", "+INF", "+INFINITY", "PlusInf",
];

fn boundary_ints() -> Vec<i64> {
    let mut v: Vec<i64> = vec![0, 1, -1, 9, -9, 10, -10, 11, 99, 100, -100, 101, i64::MIN, i64::MIN + 1, i64::MAX, i64::MAX - 1, i32::MIN as i64, i32::MAX as i64];
    let mut p: i64 = 1;
    for _ in 0..18 {
        p *= 10;
        v.extend([p, p - 1, p + 1, -p, -p + 1, -p - 1]);
    }
    for k in [31, 32, 52, 53, 62] {
        v.extend([1i64 << k, (1i64 << k) - 1, -(1i64 << k), -(1i64 << k) - 1]);
    }
    v.sort();
    v.dedup();
    v
}

fn vstr(v: I64) -> String {
    match v {
        I64::NaN => "nan".into(),
        I64::MinusInf => "-inf".into(),
        I64::PlusInf => "+inf".into(),
        I64::Num(n) => n.to_string(),
    }
}

fn generate(cfg: &GenCfg, rng: &mut Rng, w: &mut dyn Write) {
    let scale = cfg.scale.max(1) * if cfg.thorough { 10 } else { 1 };
    let mut case_no = 0;
    let mut lines = 0u64;
    macro_rules! emit {
        ($($a:tt)*) => {{
            if lines % 200 == 0 {
                writeln!(w, "case termtext-{}", case_no).unwrap();
                case_no += 1;
            }
            lines += 1;
            writeln!(w, $($a)*).unwrap();
        }};
    }
    emit!("selfcheck");
    let specials = [I64::NaN, I64::MinusInf, I64::PlusInf];
    let ints = boundary_ints();
    // 1. display / round trip of the special values and the boundary integers
    for v in specials.iter().copied().chain(ints.iter().map(|&n| I64::Num(n))) {
        emit!("disp {}", vstr(v));
        emit!("rt {}", vstr(v));
    }
    for _ in 0..300 * scale {
        let n = match rng.below(4) {
            0 => rng.next() as i64,
            1 => (rng.next() >> rng.below(64)) as i64,
            2 => -((rng.next() >> rng.below(64)) as i64),
            _ => rng.range(0, 2000) as i64 - 1000,
        };
        emit!("disp {}", n);
        emit!("rt {}", n);
    }
    // 2. tokens
    let mut toks: Vec<String> = NAMES.iter().map(|s| s.to_string()).collect();
    for s in [
        "", "+", "-", "+-", "-+", "--", "++", "0", "-0", "+0", "00", "007", "-007", "+007", "1", "+1", "-1", " 1", "1 ", "1 2", "\t1", "1\t", "1\n", "\r1", "- 1", "+ 1",
        "--1", "+-1", "-+1", "++1", "1-", "1+", "1.0", "1.", ".1", "1e3", "1E3", "0x10", "1_000", "1,000", "١٢٣", "１２３", "²", "9223372036854775807", "9223372036854775808",
        "+9223372036854775807", "+9223372036854775808", "-9223372036854775808", "-9223372036854775809", "18446744073709551616", "-18446744073709551616",
        "99999999999999999999", "-99999999999999999999", "000000000000000000000000000009223372036854775807", "-000000000000000000000000000009223372036854775808",
        "000000000000000000000000000009223372036854775808", "Nan", "nAn", "naN", "-nan", "+nan", "-NaN", "NaNs", "nan ", " nan", "iNf", "-iNF", "INf", "Infinit", "infinity ",
        "Infinityy", "−∞", "-∞∞", "∞∞", "+-∞", "∞+", "-", "MinusInf ", "minusinf", "Minusinf", "PlusInf1", "plusinf", "T", "F", "true", "⊤", "e", "∅",
    ] {
        toks.push(s.to_string());
    }
    for v in &ints {
        toks.push(v.to_string());
        toks.push(format!("+{}", v.unsigned_abs()));
        toks.push(format!("{}", *v as i128 + 1));
        toks.push(format!("{}", *v as i128 - 1));
    }
    for t in &toks {
        if std::str::from_utf8(t.as_bytes()).is_ok() {
            emit!("parse {}", hex(t.as_bytes()));
        }
    }
    let alphabet: Vec<&str> = vec!["0", "1", "2", "5", "8", "9", "+", "-", " ", "\t", "i", "n", "f", "N", "a", "I", "F", "∞", "y", "t", ".", "e"];
    for _ in 0..400 * scale {
        let t: String = match rng.below(4) {
            0 => (0..rng.below(7)).map(|_| *rng.pick(&alphabet)).collect(),
            1 => {
                // a valid number, one character changed / inserted / removed
                let mut s: Vec<char> = (rng.next() as i64 >> rng.below(64)).to_string().chars().collect();
                let pos = rng.below(s.len() as u64 + 1) as usize;
                match rng.below(3) {
                    0 if pos < s.len() => s[pos] = rng.pick(&alphabet).chars().next().unwrap(),
                    1 => s.insert(pos, rng.pick(&alphabet).chars().next().unwrap()),
                    _ if pos < s.len() && s.len() > 1 => {
                        s.remove(pos);
                    }
                    _ => {}
                }
                s.into_iter().collect()
            }
            2 => {
                // around the range limits, with leading zeros and signs
                let base: i128 = *rng.pick(&[i64::MAX as i128, i64::MIN as i128, 0, u64::MAX as i128]) + rng.range(0, 4) as i128 - 2;
                let z = "0".repeat(rng.below(3) as usize * 7);
                if base < 0 { format!("-{}{}", z, -base) } else { format!("{}{}{}", rng.pick(&["", "+", ""]), z, base) }
            }
            _ => {
                let mut s = rng.pick(&NAMES).to_string();
                if rng.chance(1, 2) {
                    let mut cs: Vec<char> = s.chars().collect();
                    let pos = rng.below(cs.len() as u64) as usize;
                    cs[pos] = if cs[pos].is_ascii_lowercase() { cs[pos].to_ascii_uppercase() } else { cs[pos].to_ascii_lowercase() };
                    s = cs.into_iter().collect();
                }
                s
            }
        };
        emit!("parse {}", hex(t.as_bytes()));
    }
    // 3. F64
    let mut ftoks: Vec<String> = NAMES.iter().map(|s| s.to_string()).collect();
    for t in [
        "0", "-0", "+0", "-0.0", "0.0", "-0e5", "-0.0e-3", "1", "-1", "1.5", "-2.25e3", "-nan", "+nan", "-NaN", "+NaN", "nAn", "-iNf", "+INFinity", "1e400", "-1e400",
        "1e-400", "-1e-400", "4.9e-324", "-4.9e-324", "2.4e-324", "-2.4e-324", "1.7976931348623157e308", "0x10", "", "abc", "--1", "1e", ".5", "5.", "-.0", " 1", "1 ",
    ] {
        ftoks.push(t.to_string());
    }
    for _ in 0..100 * scale {
        let sign = *rng.pick(&["", "-", "+"]);
        let body = match rng.below(5) {
            0 => format!("0.{}", "0".repeat(rng.below(4) as usize)),
            1 => format!("{}e-{}", rng.below(10), 300 + rng.below(60)),
            2 => format!("{}.{}e{}", rng.below(1000), rng.below(1000), rng.below(20)),
            3 => format!("{}", rng.below(1 << 20)),
            _ => (*rng.pick(&["nan", "NaN", "inf", "Inf", "0", "0e0", "0.0e10"])).to_string(),
        };
        ftoks.push(format!("{}{}", sign, body));
    }
    for t in &ftoks {
        let std = f64::from_str(t).ok().map(|x| format!("{:016x}", x.to_bits())).unwrap_or("none".into());
        emit!("f64parse {} {}", hex(t.as_bytes()), std);
    }
    let mut fbits: Vec<u64> = vec![
        0, (-0.0f64).to_bits(), f64::NAN.to_bits(), 0xfff8000000000000, 0x7ff0000000000001, 0xffffffffffffffff, f64::INFINITY.to_bits(), f64::NEG_INFINITY.to_bits(),
        1.0f64.to_bits(), (-1.5f64).to_bits(), f64::MAX.to_bits(), f64::MIN_POSITIVE.to_bits(), 1, 0x8000000000000001, 1e21f64.to_bits(), 1e-7f64.to_bits(), 0.1f64.to_bits(),
    ];
    for _ in 0..50 * scale {
        fbits.push(rng.next());
    }
    for b in fbits {
        let v = f64::from(F64::from(f64::from_bits(b)));
        emit!("f64disp {:016x} {}", b, hex(format!("{}", v).as_bytes()));
    }
    // 4. real DDDMP export -> import
    let mut vals: Vec<I64> = specials.to_vec();
    vals.extend([0, 1, -1, 10, -10, i64::MIN, i64::MIN + 1, i64::MAX, i64::MAX - 1, 1_000_000_007].map(I64::Num));
    for &a in &vals {
        for &b in &vals {
            emit!("dddmp {} {}", vstr(a), vstr(b));
        }
    }
    for _ in 0..60 * scale {
        let a = if rng.chance(1, 6) { *rng.pick(&specials) } else { I64::Num((rng.next() as i64) >> rng.below(64)) };
        let b = if rng.chance(1, 6) { *rng.pick(&specials) } else { I64::Num((rng.next() as i64) >> rng.below(64)) };
        emit!("dddmp {} {}", vstr(a), vstr(b));
    }
    // 5. malformed operation lines
    writeln!(w, "case malformed").unwrap();
    for l in ["disp", "disp 1 2", "disp 01", "disp +1", "disp inf", "rt x", "parse", "parse zz", "parse abc", "parse ff", "f64parse 30", "dddmp 1", "dddmp 1 two", "frob 1"] {
        writeln!(w, "{}", l).unwrap();
    }
}

fn make(_f: &BTreeMap<String, String>) -> Box<dyn Scenario> {
    Box::new(Sc)
}

fn main() {
    harness_main(generate, make)
}
