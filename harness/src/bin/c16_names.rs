//! C16 — variable and name bookkeeping stays a consistent bijection (protocol `names`).
//!
//! Every operation line is executed on BOTH a bare `oxidd_core::util::VarNameMap` and a real
//! index-based BDD manager (`oxidd::bdd::new_manager`), and both outputs are printed in one line
//! (see `/verif/lean/OxiddModel/VarNames/Driver.lean` for the line formats).
//!
//! Oracles (independent of the Lean model): a reference `Vec<String>` + `BTreeMap<String, u32>`
//! with the *specified* semantics is kept next to the implementation. After every operation:
//! results agree with the reference (including the `DuplicateVarName` payload), `num_vars ==
//! num_levels == ` reference length, `var_to_level`/`level_to_var` are inverse permutations on
//! all variables, `var_name`/`name_to_var` are mutually inverse on exactly the named variables
//! (checked over every variable and over every name that ever occurred in the case, plus `""`),
//! `num_named_vars` counts them, bare map and manager agree, and the truth table of every live
//! BDD handle is unchanged (for every value of the variables added since its creation while there
//! are at most 10 variables; all values of the mentioned variables times three patterns for the
//! others beyond that). `frommapclone` hands over *clones* of a map and drops the original: the
//! clones must own their names (signature `clone-aliases-storage`; detected by pointer comparison
//! so that the run itself stays free of undefined behaviour).
//!
//! Out-of-range `set_var_name` is executed under `catch_unwind` (`PANIC`); the documentation
//! demands a panic, the code returns `DuplicateVarName` instead when the name is taken — tolerated
//! (state unchanged) and counted as `op.setname.no-such-var.dup-instead-of-panic`.
use oxidd::bdd::{BDDFunction, BDDManagerRef};
use oxidd::{BooleanFunction, Manager, ManagerRef};
use oxidd_core::error::DuplicateVarName;
use oxidd_core::util::VarNameMap;
use oxv::*;
use std::collections::{BTreeMap, BTreeSet};
use std::io::Write;
use std::panic::{AssertUnwindSafe, catch_unwind};

// ------------------------------------------------------------------------------------ tokens

fn unreserved(b: u8) -> bool {
    b.is_ascii_alphanumeric() || b == b'_'
}

/// name -> token: `-` for the empty name, otherwise percent-encoding of the UTF-8 bytes
fn enc(name: &str) -> String {
    if name.is_empty() {
        return "-".into();
    }
    let mut o = String::new();
    for &b in name.as_bytes() {
        if unreserved(b) {
            o.push(b as char);
        } else {
            o.push_str(&format!("%{:02X}", b));
        }
    }
    o
}

/// token -> name; `None` unless the token is the canonical encoding of a name
fn dec(tok: &str) -> Option<String> {
    if tok == "-" {
        return Some(String::new());
    }
    if tok.is_empty() {
        return None;
    }
    let t = tok.as_bytes();
    let mut bytes = Vec::new();
    let mut i = 0;
    while i < t.len() {
        if t[i] == b'%' {
            if i + 2 >= t.len() {
                return None;
            }
            let h = |c: u8| match c {
                b'0'..=b'9' => Some(c - b'0'),
                b'A'..=b'F' => Some(c - b'A' + 10),
                _ => None,
            };
            let v = 16 * h(t[i + 1])? + h(t[i + 2])?;
            if unreserved(v) {
                return None;
            }
            bytes.push(v);
            i += 3;
        } else if unreserved(t[i]) {
            bytes.push(t[i]);
            i += 1;
        } else {
            return None;
        }
    }
    String::from_utf8(bytes).ok()
}

fn dec_batch(tok: &str) -> Option<Vec<String>> {
    if tok == "." {
        return Some(Vec::new());
    }
    tok.split('|').map(dec).collect()
}

fn enc_batch(names: &[String]) -> String {
    if names.is_empty() {
        ".".into()
    } else {
        names.iter().map(|n| enc(n)).collect::<Vec<_>>().join("|")
    }
}

/// decimal number: 1 to 9 digits, nothing else
fn num(t: &str) -> Option<u32> {
    if t.is_empty() || t.len() > 9 || !t.bytes().all(|b| b.is_ascii_digit()) {
        return None;
    }
    t.parse().ok()
}

// ------------------------------------------------------------------------------------ reference

#[derive(Clone, PartialEq, Eq, Debug)]
enum AddRes {
    Ok(u32, u32),
    Dup(String, u32, u32, u32),
}
#[derive(Clone, PartialEq, Eq, Debug)]
enum SetRes {
    Ok,
    Dup(String, u32, u32, u32),
    Panic,
}

fn show_add(r: &AddRes) -> String {
    match r {
        AddRes::Ok(s, e) => format!("{s}..{e}"),
        AddRes::Dup(n, pv, s, e) => format!("DUP {} {pv} {s}..{e}", enc(n)),
    }
}
fn show_set(r: &SetRes) -> String {
    match r {
        SetRes::Ok => "ok".into(),
        SetRes::Dup(n, pv, s, e) => format!("DUP {} {pv} {s}..{e}", enc(n)),
        SetRes::Panic => "PANIC".into(),
    }
}
fn conv_add(r: Result<std::ops::Range<u32>, DuplicateVarName>) -> AddRes {
    match r {
        Ok(r) => AddRes::Ok(r.start, r.end),
        Err(e) => AddRes::Dup(e.name, e.present_var, e.added_vars.start, e.added_vars.end),
    }
}
fn conv_set(r: Result<(), DuplicateVarName>) -> SetRes {
    match r {
        Ok(()) => SetRes::Ok,
        Err(e) => SetRes::Dup(e.name, e.present_var, e.added_vars.start, e.added_vars.end),
    }
}

/// The specified behaviour: the partial injective function var -> name and its inverse, written
/// down in the most direct way (used as the oracle, and by the generator to know the state).
#[derive(Clone, Default)]
struct Ref {
    names: Vec<String>,
    index: BTreeMap<String, u32>,
}

impl Ref {
    fn len(&self) -> u32 {
        self.names.len() as u32
    }
    fn add_unnamed(&mut self, k: u32) -> AddRes {
        let s = self.len();
        for _ in 0..k {
            self.names.push(String::new());
        }
        AddRes::Ok(s, self.len())
    }
    fn add_named(&mut self, names: &[String]) -> AddRes {
        let s = self.len();
        for n in names {
            if !n.is_empty() {
                if let Some(&pv) = self.index.get(n) {
                    return AddRes::Dup(n.clone(), pv, s, self.len());
                }
                self.index.insert(n.clone(), self.len());
            }
            self.names.push(n.clone());
        }
        AddRes::Ok(s, self.len())
    }
    fn get_or_add(&mut self, n: &str) -> (u32, bool) {
        if !n.is_empty() {
            if let Some(&v) = self.index.get(n) {
                return (v, true);
            }
        }
        match self.add_named(&[n.to_string()]) {
            AddRes::Ok(s, _) => (s, false),
            AddRes::Dup(..) => unreachable!(),
        }
    }
    /// `None`: the variable does not exist (the documentation demands a panic)
    fn set_name(&mut self, v: u32, n: &str) -> Option<SetRes> {
        if v >= self.len() {
            return None;
        }
        if !n.is_empty() {
            if let Some(&pv) = self.index.get(n) {
                if pv != v {
                    return Some(SetRes::Dup(n.to_string(), pv, self.len(), self.len()));
                }
                return Some(SetRes::Ok);
            }
        }
        let old = std::mem::replace(&mut self.names[v as usize], n.to_string());
        if !old.is_empty() {
            self.index.remove(&old);
        }
        if !n.is_empty() {
            self.index.insert(n.to_string(), v);
        }
        Some(SetRes::Ok)
    }
}

// ------------------------------------------------------------------------------------ scenario

#[derive(Clone)]
enum Expr {
    Var(u32),
    Op(u8, Box<Expr>, Box<Expr>),
}
impl Expr {
    fn eval(&self, a: &dyn Fn(u32) -> bool) -> bool {
        match self {
            Expr::Var(v) => a(*v),
            Expr::Op(0, l, r) => l.eval(a) & r.eval(a),
            Expr::Op(1, l, r) => l.eval(a) | r.eval(a),
            Expr::Op(_, l, r) => l.eval(a) ^ r.eval(a),
        }
    }
    fn vars(&self, s: &mut BTreeSet<u32>) {
        match self {
            Expr::Var(v) => {
                s.insert(*v);
            }
            Expr::Op(_, l, r) => {
                l.vars(s);
                r.vars(s);
            }
        }
    }
}

struct Names {
    bare: VarNameMap,
    mref: BDDManagerRef,
    handles: Vec<(BDDFunction, Expr)>,
    reference: Ref,
    ever: BTreeSet<String>,
}

/// Every manager owns a worker thread and a gc thread. The gc thread only terminates if it is
/// already waiting on its condition variable when the last `ManagerRef` is dropped (the `Quit`
/// notification is lost otherwise and thread + manager stay around forever), so a manager that
/// lived for a few microseconds must not be dropped right away: retired managers are parked and
/// dropped 256 cases later. As a second line of defence wait (bounded) while there are
/// implausibly many threads.
fn fresh_manager() -> BDDManagerRef {
    use std::sync::atomic::{AtomicU32, Ordering};
    static CREATED: AtomicU32 = AtomicU32::new(0);
    if CREATED.fetch_add(1, Ordering::Relaxed) % 256 == 255 {
        for _ in 0..2_000 {
            let threads = std::fs::read_to_string("/proc/self/status")
                .ok()
                .and_then(|s| s.lines().find_map(|l| l.strip_prefix("Threads:").and_then(|x| x.trim().parse::<u32>().ok())));
            match threads {
                Some(t) if t > 2_000 => std::thread::sleep(std::time::Duration::from_millis(1)),
                _ => break,
            }
        }
    }
    oxidd::bdd::new_manager(1024, 1024, 1)
}

fn retire(m: BDDManagerRef) {
    use std::cell::RefCell;
    use std::collections::VecDeque;
    thread_local! {
        static PARKED: RefCell<VecDeque<BDDManagerRef>> = RefCell::new(VecDeque::new());
    }
    PARKED.with(|p| {
        let mut p = p.borrow_mut();
        p.push_back(m);
        if p.len() > 256 {
            drop(p.pop_front());
        }
    });
}

impl Names {
    fn new() -> Self {
        Names {
            bare: VarNameMap::new(),
            mref: fresh_manager(),
            handles: Vec::new(),
            reference: Ref::default(),
            ever: BTreeSet::new(),
        }
    }

    fn state_bare(&self) -> String {
        let m = &self.bare;
        let names: Vec<String> = (0..m.len()).map(|v| m.var_name(v).to_string()).collect();
        let idx: Vec<String> = self
            .sorted_ever()
            .iter()
            .filter_map(|(tok, n)| m.name_to_var(n).map(|v| format!("{tok}={v}")))
            .collect();
        format!(
            "{} {} {} {}",
            m.len(),
            m.named_count(),
            enc_batch(&names),
            if idx.is_empty() { ".".to_string() } else { idx.join(",") }
        )
    }

    /// names ever used in the case as (token, name), sorted by token
    fn sorted_ever(&self) -> Vec<(String, String)> {
        let mut v: Vec<(String, String)> = self.ever.iter().map(|n| (enc(n), n.clone())).collect();
        v.sort();
        v
    }

    fn state_mgr(&self) -> String {
        let ever = self.sorted_ever();
        self.mref.with_manager_shared(|m| {
            let n = m.num_vars();
            // `var_name` panics beyond the name map's length: only query what the map has
            let names: Vec<String> = (0..n).map(|v| m.var_name(v).to_string()).collect();
            let idx: Vec<String> = ever
                .iter()
                .filter_map(|(tok, name)| m.name_to_var(name).map(|v| format!("{tok}={v}")))
                .collect();
            format!(
                "{} {} {} {} {}",
                m.num_levels(),
                n,
                m.num_named_vars(),
                enc_batch(&names),
                if idx.is_empty() { ".".to_string() } else { idx.join(",") }
            )
        })
    }

    fn with_state(&self, rb: String, rm: String) -> String {
        format!("{rb} {rm} ; {} ; {}", self.state_bare(), self.state_mgr())
    }

    /// the property, evaluated on the implementation against the reference
    fn check(&mut self, ctx: &mut Ctx, line: &str) {
        let r = &self.reference;
        let n = r.len();
        let named = r.names.iter().filter(|s| !s.is_empty()).count() as u32;
        // bare map
        let b = &self.bare;
        if b.len() != n {
            ctx.fail("bare-len", &format!("`{line}`: bare len {} but {} variables were added", b.len(), n));
        }
        if b.named_count() != named {
            ctx.fail("bare-named-count", &format!("`{line}`: named_count {} but {} variables are named", b.named_count(), named));
        }
        for v in 0..b.len().min(n) {
            let nm = b.var_name(v);
            if nm != r.names[v as usize] {
                ctx.fail("bare-var-name", &format!("`{line}`: var_name({v}) = {:?}, expected {:?}", nm, r.names[v as usize]));
            }
            if !nm.is_empty() && b.name_to_var(nm) != Some(v) {
                ctx.fail("bare-not-inverse", &format!("`{line}`: name_to_var(var_name({v}) = {:?}) = {:?}", nm, b.name_to_var(nm)));
            }
        }
        if b.name_to_var("").is_some() {
            ctx.fail("bare-empty-name", &format!("`{line}`: name_to_var(\"\") = {:?}", b.name_to_var("")));
        }
        for name in &self.ever {
            let got = b.name_to_var(name);
            let exp = r.index.get(name).copied();
            if got != exp {
                ctx.fail("bare-name-to-var", &format!("`{line}`: name_to_var({:?}) = {:?}, expected {:?}", name, got, exp));
            }
            if let Some(v) = got {
                if v >= b.len() || b.var_name(v) != name {
                    ctx.fail("bare-not-inverse", &format!("`{line}`: name_to_var({:?}) = {v} but that variable is not called so", name));
                }
            }
        }
        // manager
        let ever = &self.ever;
        let fails: Vec<(String, String)> = self.mref.with_manager_shared(|m| {
            let mut f = Vec::new();
            let nl = m.num_levels();
            let nv = m.num_vars();
            if nl != nv || nv != n {
                f.push(("levels-ne-vars".to_string(), format!("num_levels {nl}, num_vars {nv}, {n} variables were added")));
                return f;
            }
            if m.num_named_vars() != named {
                f.push(("named-count".to_string(), format!("num_named_vars {} but {named} variables are named", m.num_named_vars())));
            }
            let mut seen = vec![false; n as usize];
            for v in 0..n {
                let l = m.var_to_level(v);
                if l >= n || seen[l as usize] || m.level_to_var(l) != v {
                    f.push(("var-level-map".to_string(), format!("var_to_level({v}) = {l} is not part of a permutation of 0..{n}")));
                    break;
                }
                seen[l as usize] = true;
                let nm = m.var_name(v);
                if nm != r.names[v as usize] {
                    f.push(("var-name".to_string(), format!("var_name({v}) = {:?}, expected {:?}", nm, r.names[v as usize])));
                }
                if !nm.is_empty() && m.name_to_var(nm) != Some(v) {
                    f.push(("not-inverse".to_string(), format!("name_to_var(var_name({v}) = {:?}) = {:?}", nm, m.name_to_var(nm))));
                }
            }
            if m.name_to_var("").is_some() {
                f.push(("empty-name".to_string(), format!("name_to_var(\"\") = {:?}", m.name_to_var(""))));
            }
            for name in ever {
                let got = m.name_to_var(name);
                let exp = r.index.get(name).copied();
                if got != exp {
                    f.push(("name-to-var".to_string(), format!("name_to_var({:?}) = {:?}, expected {:?}", name, got, exp)));
                }
                if let Some(v) = got {
                    if v >= nv || m.var_name(v) != name {
                        f.push(("not-inverse".to_string(), format!("name_to_var({:?}) = {v} but that variable is not called so", name)));
                    }
                }
            }
            f
        });
        for (sig, msg) in fails {
            ctx.fail(&sig, &format!("`{line}`: {msg}"));
        }
        self.check_handles(ctx, line);
    }

    /// adding variables / renaming / gc never changes the function denoted by a live handle
    fn check_handles(&mut self, ctx: &mut Ctx, line: &str) {
        if self.handles.is_empty() {
            return;
        }
        let n = self.reference.len();
        for (hi, (f, e)) in self.handles.iter().enumerate() {
            let mut bad: Option<String> = None;
            if n <= 10 {
                for a in 0u32..(1 << n) {
                    let got = f.eval((0..n).map(|v| (v, a >> v & 1 == 1)));
                    let exp = e.eval(&|v| a >> v & 1 == 1);
                    if got != exp {
                        bad = Some(format!("assignment bits {a:#b}: eval = {got}, expression = {exp}"));
                        break;
                    }
                }
                ctx.add("handle_tt_rows", 1 << n);
            } else {
                let mut vs = BTreeSet::new();
                e.vars(&mut vs);
                let vs: Vec<u32> = vs.into_iter().collect();
                'outer: for pat in 0..3u32 {
                    for a in 0u32..(1 << vs.len()) {
                        let val = |v: u32| match vs.iter().position(|&x| x == v) {
                            Some(i) => a >> i & 1 == 1,
                            None => match pat {
                                0 => false,
                                1 => true,
                                _ => (v.wrapping_mul(2654435761) >> 7) & 1 == 1,
                            },
                        };
                        let got = f.eval((0..n).map(|v| (v, val(v))));
                        let exp = e.eval(&val);
                        if got != exp {
                            bad = Some(format!("pattern {pat}, bits {a:#b} on vars {vs:?}: eval = {got}, expression = {exp}"));
                            break 'outer;
                        }
                    }
                }
                ctx.add("handle_tt_rows", 3 << vs.len());
            }
            if let Some(msg) = bad {
                ctx.fail("handle-changed", &format!("`{line}`: handle {hi} no longer denotes its function ({msg})"));
            }
        }
    }

    fn note(&mut self, names: &[String]) {
        for n in names {
            self.ever.insert(n.clone());
        }
    }

    fn cmp_add(&self, ctx: &mut Ctx, line: &str, exp: &AddRes, rb: &AddRes, rm: &AddRes) {
        if rb != exp {
            ctx.fail("bare-add-result", &format!("`{line}`: bare map returned {}, specified {}", show_add(rb), show_add(exp)));
        }
        if rm != exp {
            ctx.fail("add-result", &format!("`{line}`: manager returned {}, specified {}", show_add(rm), show_add(exp)));
        }
        if rb != rm {
            ctx.fail("bare-vs-manager", &format!("`{line}`: bare map {}, manager {}", show_add(rb), show_add(rm)));
        }
    }
}

impl Scenario for Names {
    fn reset(&mut self) {
        self.handles.clear();
        self.bare = VarNameMap::new();
        retire(std::mem::replace(&mut self.mref, fresh_manager()));
        self.reference = Ref::default();
        self.ever.clear();
    }

    fn step(&mut self, line: &str, ctx: &mut Ctx) -> String {
        let w = words(line);
        let out = match w.as_slice() {
            ["addvars", k] => {
                let Some(k) = num(k).filter(|&k| k <= 4096) else { return "bad-op".into() };
                ctx.count("op.addvars");
                let exp = self.reference.add_unnamed(k);
                let s = self.bare.len();
                self.bare.add_unnamed(k);
                let rb = AddRes::Ok(s, self.bare.len());
                let rm = self.mref.with_manager_exclusive(|m| {
                    let r = m.add_vars(k);
                    AddRes::Ok(r.start, r.end)
                });
                self.cmp_add(ctx, line, &exp, &rb, &rm);
                self.with_state(show_add(&rb), show_add(&rm))
            }
            ["addnamed", batch] => {
                let Some(names) = dec_batch(batch) else { return "bad-op".into() };
                self.note(&names);
                let exp = self.reference.add_named(&names);
                let rb = conv_add(self.bare.add_named(names.iter().cloned()));
                let rm = self.mref.with_manager_exclusive(|m| conv_add(m.add_named_vars(names.iter().cloned())));
                match &exp {
                    AddRes::Ok(..) => ctx.count("op.addnamed.ok"),
                    AddRes::Dup(_, _, s, e) if s == e => ctx.count("op.addnamed.dup-first"),
                    AddRes::Dup(..) => ctx.count("op.addnamed.dup-mid-batch"),
                }
                self.cmp_add(ctx, line, &exp, &rb, &rm);
                self.with_state(show_add(&rb), show_add(&rm))
            }
            [op @ ("frommap" | "frommapclone"), batch] => {
                let Some(names) = dec_batch(batch) else { return "bad-op".into() };
                self.note(&names);
                // the map handed over: built on a fresh map, a duplicate ends the batch
                let mut refmap = Ref::default();
                let _ = refmap.add_named(&names);
                let was_empty = self.reference.len() == 0;
                let exp = self.reference.add_named(&refmap.names);
                let build = || {
                    let mut m = VarNameMap::new();
                    let _ = m.add_named(names.iter().cloned());
                    m
                };
                let (map_b, map_m) = if *op == "frommap" {
                    (build(), build())
                } else {
                    // hand over *clones* of one map and drop the original: the clones must own
                    // their names (a manager keeps the map it is given)
                    ctx.count("op.frommapclone");
                    let orig = build();
                    let (c1, c2) = (orig.clone(), orig.clone());
                    let aliased = (0..orig.len()).find(|&v| {
                        let (a, b, c) = (orig.var_name(v), c1.var_name(v), c2.var_name(v));
                        !a.is_empty() && (std::ptr::eq(a.as_ptr(), b.as_ptr()) || std::ptr::eq(b.as_ptr(), c.as_ptr()))
                    });
                    if let Some(v) = aliased {
                        ctx.fail(
                            "clone-aliases-storage",
                            &format!(
                                "`{line}`: VarNameMap::clone() shares the string storage of variable {v} ({:?}) with the original: dropping \
                                 one of them leaves dangling names in the other (use after free / double free); the three maps are leaked \
                                 and independent maps are used to continue",
                                orig.var_name(v)
                            ),
                        );
                        std::mem::forget((orig, c1, c2));
                        (build(), build())
                    } else {
                        drop(orig);
                        (c1, c2)
                    }
                };
                let rb = conv_add(self.bare.add_named(map_b.into_names_iter()));
                let rm = self.mref.with_manager_exclusive(|m| conv_add(m.add_named_vars_from_map(map_m)));
                match (&exp, was_empty) {
                    (AddRes::Ok(..), true) => ctx.count("op.frommap.into-empty"),
                    (AddRes::Ok(..), false) => ctx.count("op.frommap.ok"),
                    (AddRes::Dup(..), _) => ctx.count("op.frommap.dup"),
                }
                self.cmp_add(ctx, line, &exp, &rb, &rm);
                self.with_state(show_add(&rb), show_add(&rm))
            }
            ["setname", v, tok] => {
                let (Some(v), Some(name)) = (num(v), dec(tok)) else { return "bad-op".into() };
                self.note(&[name.clone()]);
                let before = self.reference.names.get(v as usize).cloned();
                let exp = self.reference.set_name(v, &name);
                let bare = &mut self.bare;
                let rb = match catch_unwind(AssertUnwindSafe(|| bare.set_var_name(v, name.clone()))) {
                    Ok(r) => conv_set(r),
                    Err(_) => SetRes::Panic,
                };
                let mref = &self.mref;
                let rm = match catch_unwind(AssertUnwindSafe(|| mref.with_manager_exclusive(|m| m.set_var_name(v, name.clone())))) {
                    Ok(r) => conv_set(r),
                    Err(_) => SetRes::Panic,
                };
                match &exp {
                    None => {
                        // the variable does not exist: documented to panic; a `DuplicateVarName`
                        // naming the variable that holds the name is tolerated (nothing changes)
                        ctx.count("op.setname.no-such-var");
                        let okdup = |r: &SetRes| match r {
                            SetRes::Panic => true,
                            SetRes::Dup(n, pv, s, e) => {
                                *n == name && self.reference.index.get(n) == Some(pv) && *s == self.reference.len() && s == e
                            }
                            SetRes::Ok => false,
                        };
                        if !okdup(&rb) || !okdup(&rm) {
                            ctx.fail("setname-no-such-var", &format!("`{line}`: variable {v} does not exist, bare map {}, manager {}", show_set(&rb), show_set(&rm)));
                        }
                        if matches!(rb, SetRes::Dup(..)) {
                            ctx.count("op.setname.no-such-var.dup-instead-of-panic");
                        }
                    }
                    Some(exp) => {
                        match exp {
                            SetRes::Dup(..) => ctx.count("op.setname.dup"),
                            _ => {
                                let before = before.unwrap_or_default();
                                if name.is_empty() {
                                    ctx.count(if before.is_empty() { "op.setname.unname-unnamed" } else { "op.setname.unname" });
                                } else if before == name {
                                    ctx.count("op.setname.same-name");
                                } else if before.is_empty() {
                                    ctx.count("op.setname.name-unnamed");
                                } else {
                                    ctx.count("op.setname.rename");
                                }
                            }
                        }
                        if &rb != exp {
                            ctx.fail("bare-set-result", &format!("`{line}`: bare map returned {}, specified {}", show_set(&rb), show_set(exp)));
                        }
                        if &rm != exp {
                            ctx.fail("set-result", &format!("`{line}`: manager returned {}, specified {}", show_set(&rm), show_set(exp)));
                        }
                    }
                }
                if rb != rm {
                    ctx.fail("bare-vs-manager", &format!("`{line}`: bare map {}, manager {}", show_set(&rb), show_set(&rm)));
                }
                self.with_state(show_set(&rb), show_set(&rm))
            }
            ["getoradd", tok] => {
                let Some(name) = dec(tok) else { return "bad-op".into() };
                self.note(&[name.clone()]);
                let exp = self.reference.get_or_add(&name);
                let rb = self.bare.get_or_add(name.clone());
                let rm = self.mref.with_manager_exclusive(|m| {
                    let present = if name.is_empty() { None } else { m.name_to_var(&name) };
                    match present {
                        Some(v) => (v, true),
                        None => match m.add_named_vars([name.clone()]) {
                            Ok(r) => (r.start, false),
                            Err(e) => (e.present_var, true),
                        },
                    }
                });
                ctx.count(if exp.1 { "op.getoradd.found" } else { "op.getoradd.added" });
                if rb != exp || rm != exp {
                    ctx.fail("get-or-add", &format!("`{line}`: bare map {:?}, manager {:?}, specified {:?}", rb, rm, exp));
                }
                self.with_state(format!("{},{}", rb.0, rb.1 as u8), format!("{},{}", rm.0, rm.1 as u8))
            }
            ["lookup", tok] => {
                let Some(name) = dec(tok) else { return "bad-op".into() };
                self.note(&[name.clone()]);
                ctx.count("op.lookup");
                let sh = |o: Option<u32>| o.map(|v| v.to_string()).unwrap_or("none".into());
                let b = self.bare.name_to_var(&name);
                let m = self.mref.with_manager_shared(|m| m.name_to_var(&name));
                format!("{} {}", sh(b), sh(m))
            }
            ["varname", v] => {
                let Some(v) = num(v) else { return "bad-op".into() };
                let nv = self.mref.with_manager_shared(|m| m.num_vars());
                if v >= self.bare.len() || v >= nv {
                    return "bad-op".into();
                }
                ctx.count("op.varname");
                let m = self.mref.with_manager_shared(|m| m.var_name(v).to_string());
                format!("{} {}", enc(self.bare.var_name(v)), enc(&m))
            }
            ["names"] => format!("{} ; {}", self.state_bare(), self.state_mgr()),
            ["hvar", v] => {
                let Some(v) = num(v) else { return "bad-op".into() };
                let nv = self.mref.with_manager_shared(|m| m.num_vars());
                if v >= nv {
                    return "bad-op".into();
                }
                ctx.count("op.hvar");
                let f = self.mref.with_manager_shared(|m| BDDFunction::var(m, v)).expect("out of memory");
                self.handles.push((f, Expr::Var(v)));
                "ok".into()
            }
            ["hop", op, i, j] => {
                let (Some(i), Some(j)) = (num(i), num(j)) else { return "bad-op".into() };
                let (i, j) = (i as usize, j as usize);
                let k = match *op {
                    "and" => 0u8,
                    "or" => 1,
                    "xor" => 2,
                    _ => return "bad-op".into(),
                };
                if i >= self.handles.len() || j >= self.handles.len() {
                    return "bad-op".into();
                }
                ctx.count("op.hop");
                let (f, g) = (&self.handles[i].0, &self.handles[j].0);
                let h = match k {
                    0 => f.and(g),
                    1 => f.or(g),
                    _ => f.xor(g),
                }
                .expect("out of memory");
                let e = Expr::Op(k, Box::new(self.handles[i].1.clone()), Box::new(self.handles[j].1.clone()));
                self.handles.push((h, e));
                "ok".into()
            }
            ["gc"] => {
                ctx.count("op.gc");
                self.mref.with_manager_shared(|m| m.gc());
                "ok".into()
            }
            _ => return "bad-op".into(),
        };
        self.check(ctx, line);
        out
    }
}

// ------------------------------------------------------------------------------------ generator

const ABC: [&str; 4] = ["", "a", "b", "c"];

fn s(x: &str) -> String {
    x.to_string()
}

/// apply a generated line to the reference (the generator only needs the number of variables)
fn sim(r: &mut Ref, line: &str) {
    let w = words(line);
    match w.as_slice() {
        ["addvars", k] => {
            r.add_unnamed(num(k).unwrap());
        }
        ["addnamed", b] => {
            r.add_named(&dec_batch(b).unwrap());
        }
        ["frommap" | "frommapclone", b] => {
            let mut m = Ref::default();
            m.add_named(&dec_batch(b).unwrap());
            r.add_named(&m.names);
        }
        ["setname", v, t] => {
            r.set_name(num(v).unwrap(), &dec(t).unwrap());
        }
        ["getoradd", t] => {
            r.get_or_add(&dec(t).unwrap());
        }
        _ => {}
    }
}

/// the operation alphabets of the exhaustive part; `n` = current number of variables
fn alphabet(kind: u32, n: u32) -> Vec<String> {
    let mut o = Vec::new();
    let b = |xs: &[&str]| enc_batch(&xs.iter().map(|x| s(x)).collect::<Vec<_>>());
    match kind {
        // full: every kind of call with every name of {"", a, b, c}
        0 => {
            for k in 0..3 {
                o.push(format!("addvars {k}"));
            }
            o.push("addnamed .".into());
            for x in ABC {
                o.push(format!("addnamed {}", b(&[x])));
                for y in ABC {
                    o.push(format!("addnamed {}", b(&[x, y])));
                }
            }
            for t in [["a", "b", "c"], ["a", "b", "a"], ["a", "", "a"], ["", "a", ""]] {
                o.push(format!("addnamed {}", b(&t)));
            }
            for t in [&[][..], &["a"], &[""], &["a", "b"], &["b", "a"], &["", "c"], &["c", "", "c"]] {
                o.push(format!("frommap {}", b(t)));
            }
            for x in ABC {
                o.push(format!("getoradd {}", enc(x)));
            }
            let mut vs: Vec<u32> = (0..n.min(3)).collect();
            if n > 3 {
                vs.push(n - 1);
            }
            vs.push(n); // does not exist
            for v in vs {
                for x in ABC {
                    o.push(format!("setname {v} {}", enc(x)));
                }
            }
        }
        // medium
        1 => {
            o.push("addvars 1".into());
            o.push("addvars 2".into());
            for t in [&["a"][..], &["b"], &["", "a"], &["a", "b"], &["b", "a"], &["a", "a"], &["a", "b", "a"], &["c", ""]] {
                o.push(format!("addnamed {}", b(t)));
            }
            o.push(format!("frommap {}", b(&["a", "b"])));
            o.push(format!("frommap {}", b(&[""])));
            o.push("getoradd a".into());
            o.push("getoradd -".into());
            for v in 0..n.min(2) {
                for x in ABC {
                    o.push(format!("setname {v} {}", enc(x)));
                }
            }
        }
        // small
        2 => {
            o.push("addvars 1".into());
            o.push(format!("addnamed {}", b(&["a", "b"])));
            o.push(format!("addnamed {}", b(&["b", "", "a"])));
            o.push(format!("addnamed {}", b(&["", "a"])));
            o.push(format!("frommap {}", b(&["a"])));
            o.push("getoradd b".into());
            for v in 0..n.min(2) {
                for x in ["", "a", "b"] {
                    o.push(format!("setname {v} {}", enc(x)));
                }
            }
        }
        // tiny
        _ => {
            o.push("addvars 1".into());
            o.push(format!("addnamed {}", b(&["a", ""])));
            o.push(format!("addnamed {}", b(&["b", "a"])));
            for v in 0..n.min(2) {
                for x in ["", "a", "b"] {
                    if v == 1 && x == "b" {
                        continue;
                    }
                    o.push(format!("setname {v} {}", enc(x)));
                }
            }
        }
    }
    o
}

struct Enum<'a> {
    w: &'a mut dyn Write,
    kind: u32,
    depth: usize,
    /// emit a leaf with probability num/den (1/1 = exhaustive)
    keep: (u64, u64),
    count: u64,
}

fn enumerate(e: &mut Enum, rng: &mut Rng, r: &Ref, prefix: &mut Vec<String>) {
    if prefix.len() == e.depth {
        if e.keep.0 == e.keep.1 || rng.chance(e.keep.0, e.keep.1) {
            writeln!(e.w, "case x{}d{}-{}", e.kind, e.depth, e.count).unwrap();
            for l in prefix.iter() {
                writeln!(e.w, "{l}").unwrap();
            }
            e.count += 1;
        }
        return;
    }
    for op in alphabet(e.kind, r.len()) {
        let mut r2 = r.clone();
        sim(&mut r2, &op);
        prefix.push(op);
        enumerate(e, rng, &r2, prefix);
        prefix.pop();
    }
}

fn random_name(rng: &mut Rng) -> String {
    const WORDS: [&str; 12] = ["x", "y", "x0", "x1", "var", "Var", "a", "b", "c", "in", "out", "clk"];
    const ODD: [&str; 30] = [
        " ", "  ", "a b", " a", "a ", "\t", "a\tb", "\n", "\0", "a\0", "-", "--", ".", "|", "a|b", "%", "%41", "=", "a=1", ",", ";",
        "e\u{301}", "\u{e9}", "\u{1F600}", "\u{5d0}\u{5d1}", "\u{200d}", "a\u{200b}", "\u{feff}", "\u{10FFFF}", "\u{3b1}\u{3b2}",
    ];
    match rng.below(10) {
        0..=3 => rng.pick(&WORDS[..]).to_string(),
        4..=6 => rng.pick(&ODD[..]).to_string(),
        7 => {
            // very long name
            let unit = *rng.pick(&["a", "ab ", "\u{e4}", "\u{1F600}", "x\u{301}"]);
            unit.repeat(rng.range(50, 700) as usize)
        }
        _ => {
            // random code points, a few characters
            let mut o = String::new();
            for _ in 0..rng.range(1, 6) {
                let c = match rng.below(4) {
                    0 => rng.range(0x20, 0x7e) as u32,
                    1 => rng.range(0xa0, 0x24f) as u32,
                    2 => rng.range(0x300, 0x36f) as u32,
                    _ => rng.range(0x1F300, 0x1F64F) as u32,
                };
                o.push(char::from_u32(c).unwrap_or('?'));
            }
            o
        }
    }
}

fn random_case(rng: &mut Rng, w: &mut dyn Write, id: u64, len: u64) {
    writeln!(w, "case r{id}").unwrap();
    let mut pool: Vec<String> = (0..rng.range(3, 9)).map(|_| random_name(rng)).collect();
    pool.push(String::new());
    let mut r = Ref::default();
    let mut handles = 0u64;
    let with_handles = rng.chance(2, 3);
    for _ in 0..len {
        let n = r.len();
        let name = |rng: &mut Rng| if rng.chance(1, 12) { random_name(rng) } else { rng.pick(&pool).clone() };
        let line = match rng.below(100) {
            0..=7 => format!("addvars {}", rng.below(4)),
            8..=27 => {
                let k = rng.below(5);
                let b: Vec<String> = (0..k).map(|_| name(rng)).collect();
                format!("addnamed {}", enc_batch(&b))
            }
            28..=33 => {
                let k = rng.below(4);
                let b: Vec<String> = (0..k).map(|_| name(rng)).collect();
                format!("frommap {}", enc_batch(&b))
            }
            34..=39 => format!("getoradd {}", enc(&name(rng))),
            40..=69 if n > 0 => {
                let v = if rng.chance(1, 40) { n + rng.below(3) as u32 } else { rng.below(n as u64) as u32 };
                // prefer names that are in use: duplicates, same-name and renames
                let nm = if rng.chance(1, 2) { r.names[rng.below(n as u64) as usize].clone() } else { name(rng) };
                format!("setname {v} {}", enc(&nm))
            }
            70..=74 => format!("lookup {}", enc(&name(rng))),
            75..=78 if n > 0 => format!("varname {}", rng.below(n as u64)),
            79..=86 if with_handles && n > 0 => {
                handles += 1;
                format!("hvar {}", rng.below(n.min(6) as u64))
            }
            87..=94 if handles > 0 => {
                let l = format!("hop {} {} {}", rng.pick(&["and", "or", "xor"]), rng.below(handles), rng.below(handles));
                handles += 1;
                l
            }
            95..=97 => "gc".into(),
            _ => "names".into(),
        };
        sim(&mut r, &line);
        writeln!(w, "{line}").unwrap();
    }
}

fn generate(cfg: &GenCfg, rng: &mut Rng, w: &mut dyn Write) {
    // exhaustive call sequences (every leaf is one case; every prefix is checked on the way)
    let plan: &[(u32, usize, (u64, u64))] = if cfg.thorough {
        &[(0, 3, (1, 1)), (1, 4, (1, 1)), (2, 5, (1, 1)), (3, 6, (1, 1))]
    } else {
        &[(0, 2, (1, 1)), (1, 3, (1, 1)), (0, 3, (1, 40)), (1, 4, (1, 40)), (2, 5, (1, 60)), (3, 6, (1, 40))]
    };
    for &(kind, depth, keep) in plan {
        let mut e = Enum { w, kind, depth, keep, count: 0 };
        enumerate(&mut e, rng, &Ref::default(), &mut Vec::new());
    }
    // exhaustive part with live handles: two variables, f = x0 & x1, g = x0 ^ x1, then sequences
    {
        let depth = if cfg.thorough { 3 } else { 2 };
        let mut r = Ref::default();
        let pre = vec![s("addnamed a|-"), s("hvar 0"), s("hvar 1"), s("hop and 0 1"), s("hop xor 0 2")];
        for l in &pre {
            sim(&mut r, l);
        }
        let mut e = Enum { w, kind: 1, depth: pre.len() + depth, keep: (1, 1), count: 1_000_000 };
        enumerate(&mut e, rng, &r, &mut pre.clone());
    }
    // random longer sequences with random unicode names, handles and gc
    let cases = if cfg.thorough { 4000 } else { 300 } * cfg.scale;
    for id in 0..cases {
        let len = if rng.chance(1, 10) { rng.range(60, 150) } else { rng.range(8, 50) };
        random_case(rng, w, id, len);
    }
    // many variables (beyond the exhaustive truth-table bound), names on some of them
    for id in 0..(if cfg.thorough { 20 } else { 3 }) {
        writeln!(w, "case big{id}").unwrap();
        writeln!(w, "addvars {}", rng.range(5, 40)).unwrap();
        writeln!(w, "hvar 0\nhvar 3\nhop xor 0 1").unwrap();
        let k = rng.range(20, 200);
        let b: Vec<String> = (0..k).map(|i| if rng.chance(1, 5) { String::new() } else { format!("v{i}") }).collect();
        writeln!(w, "addnamed {}", enc_batch(&b)).unwrap();
        writeln!(w, "addvars {}", rng.range(100, 3000)).unwrap();
        writeln!(w, "setname {} v1", rng.range(0, 4)).unwrap();
        writeln!(w, "addnamed fresh|v7|never").unwrap();
        writeln!(w, "gc\nlookup never\nlookup fresh").unwrap();
    }
    // maps handed over as clones whose original is dropped (separate cases `clone<i>`)
    for id in 0..(if cfg.thorough { 40 } else { 6 }) {
        writeln!(w, "case clone{id}").unwrap();
        if id % 2 == 1 {
            writeln!(w, "addnamed p|-|q").unwrap();
        }
        let k = rng.range(1, 6);
        let b: Vec<String> = (0..k).map(|_| if rng.chance(1, 4) { String::new() } else { random_name(rng) }).collect();
        writeln!(w, "frommapclone {}", enc_batch(&b)).unwrap();
        writeln!(w, "gc\nnames").unwrap();
        writeln!(w, "setname 0 renamed").unwrap();
        writeln!(w, "frommapclone x|y|{}", enc("a longer name that is certainly heap allocated")).unwrap();
        writeln!(w, "lookup y\nsetname 1 -\nnames").unwrap();
    }
    // ill-formed lines
    writeln!(w, "case malformed").unwrap();
    for l in [
        "addvars", "addvars x", "addvars 5000", "addvars 1_0", "addvars +1", "addnamed", "addnamed a||b", "addnamed a|", "addnamed a b",
        "addnamed %4", "addnamed %41", "addnamed %e4", "addnamed %C3", "addnamed %C3%A4", "addnamed a,b", "setname 0", "setname x a", "setname 0 a=b", "getoradd", "getoradd a.b",
        "lookup", "lookup *", "varname 0", "varname", "hvar 0", "hop and 0 0", "hop nand 0 0", "frommap", "frommap |", "frommapclone", "frommapclone a b", "reorder", "addvars 2",
        "hvar 1", "hop nor 0 0", "hop and 0 1", "setname 12345678901 a", "varname 2", "names x", "gc now",
    ] {
        writeln!(w, "{l}").unwrap();
    }
}

fn make(_f: &BTreeMap<String, String>) -> Box<dyn Scenario> {
    // The default worker stack is 1 GiB of address space per manager; the BDDs here are tiny.
    if std::env::var_os("OXIDD_STACK_SIZE").is_none() {
        // SAFETY: no other thread reads or writes the environment (the watchdog thread of the
        // harness only sleeps and loads an atomic)
        unsafe { std::env::set_var("OXIDD_STACK_SIZE", "4194304") };
    }
    Box::new(Names::new())
}

fn main() {
    harness_main(generate, make)
}
